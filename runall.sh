#!/bin/bash
# usage: ./runall.sh [tier] [seed] [props...]   -- run checks sequentially, print a one-line summary each
tier=${1:-quick}; seed=${2:-1}; shift 2
props=${@:-C01 C02 C03 C04 C05 C06 C07 C08 C09 C10 C11 C12 C13 C14 C15 C16 C17}
for p in $props; do
  [ -f vf/props/$(echo $p | tr 'C' 'c').py ] || continue
  out=$(./check $p --tier $tier --seed $seed --no-build 2>&1)
  rc=$?
  echo "$out" | tail -1 | cut -c1-220
  echo "   rc=$rc viol=$(echo "$out" | grep -c '^VIOLATION') known=$(echo "$out" | grep -c '^KNOWN-FINDING')"
done
