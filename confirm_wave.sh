#!/bin/bash
# usage: SEED_SCRATCH=/tmp/wt-verifyN ./confirm_wave.sh dir...
for d in "$@"; do
  echo "=== $d"
  python3 -m vf.seedtest confirm $d 2>&1 | grep -E '"tests_pass"|"demo_differs"|"applies"|"guard_build_ok"'
done
