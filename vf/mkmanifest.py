"""Regenerate MANIFEST.json from the registry (python3 -m vf.mkmanifest)."""
import json
import os
from . import registry, core

ALL = ["C%02d" % i for i in range(1, 18)]


def main():
    checks = []
    for pid in ALL:
        p = registry.PROPS.get(pid)
        if not p:
            continue
        checks.append({
            "property_id": pid,
            "quick_cmd": "./check %s --tier quick" % pid,
            "thorough_cmd": "./check %s --tier thorough" % pid,
            "evidence_file": "/verif/evidence/%s.json" % pid,
            "replay_cmd_template": "./check %s --replay {path}" % pid,
            "engine": "nlmon",
            "level_claimed": {"category": p["level"], "text": p["claim"], "design_ref": p.get("design_ref", "DESIGN.md section 4 " + pid)},
            "level_note": p["note"] + " Two pipelines: the statements go to the evaluator as parsed (REPL / eval path) and, for every third shard of the quick tier and every second shard of the thorough tier, additionally through the interpreter's static pass `warn` first, as the command-line interpreter runs a script file (DESIGN.md section 13).",
            "technique": p["technique"],
        })
    na = [{"property_id": pid, "reason": registry.NOT_APPLICABLE.get(pid, "monitor not built yet in this session (planned in DESIGN.md section 4)")}
          for pid in ALL if pid not in registry.PROPS]
    m = {
        "version": 1,
        "setup_cmd": "./check --setup",
        "hooks": {
            "guard": core.GUARD,
            "enable": 'RUSTFLAGS="--cfg betaveros_noulith_verif" (set by ./check when it builds harness/ against /repo)',
            "baseline_off_cmd": "cd /repo && cargo nextest run --workspace --no-fail-fast --offline || cargo test --workspace --no-fail-fast --offline",
            "source_commits": registry.HOOK_COMMITS,
            "add_only": True,
        },
        "engines": [{"name": "nlmon", "path": "/verif/harness", "serves_properties": [c["property_id"] for c in checks],
                     "kind_free_text": "Rust harness linking the real interpreter (fuel/depth/fault hooks, counting allocator, panic capture, canonical value dump, optional script pipeline = static pass `warn` before evaluation) + Python stdlib reference models and offline checkers (vf/)"}],
        "checks": checks,
        "not_applicable": na,
        "notes": "Runtime monitoring only: every check runs the real interpreter built from /repo's working tree and decides with a monitor/oracle over observed executions. See DESIGN.md.",
    }
    json.dump(m, open(os.path.join(core.VERIF, "MANIFEST.json"), "w"), indent=1)
    print("MANIFEST.json: %d checks, %d not_applicable" % (len(checks), len(na)))


if __name__ == "__main__":
    main()
