"""Shared hostile value pool (DESIGN.md 3.2): (name, source, kind, tags)."""

POOL = [
    ("i0", "0", "int", ""), ("i1", "1", "int", ""), ("im1", "(-1)", "int", ""), ("i2", "2", "int", ""),
    ("i7", "7", "int", ""), ("i255", "255", "int", ""), ("i256", "256", "int", ""),
    ("i2_31", "2147483648", "int", "huge"), ("i2_31m", "2147483647", "int", "huge"),
    ("i2_32", "4294967296", "int", "huge"), ("i2_53p", "9007199254740993", "int", "huge"),
    ("i2_62", "4611686018427387904", "int", "huge"), ("i2_63m", "9223372036854775807", "int", "huge"),
    ("i2_63", "9223372036854775808", "int", "huge"), ("im2_63", "(0 - 9223372036854775807 - 1)", "int", "huge"),
    ("im2_63m", "(-9223372036854775809)", "int", "huge"), ("i2_64", "18446744073709551616", "int", "huge"),
    ("i1e30", "10^30", "int", "huge"), ("im1e30", "(-(10^30))", "int", "huge"),
    ("b7", "(7 // 1)", "int", "bigrepr"), ("b8", "(2^3)", "int", "bigrepr"), ("b0", "(0 // 1)", "int", "bigrepr"),
    ("q12", "(1/2)", "rational", ""), ("qm73", "((-7)/3)", "rational", ""), ("q2", "rational(2)", "rational", ""),
    ("qbig", "((2^70)/3)", "rational", "huge"),
    ("f0", "0.0", "float", ""), ("fm0", "(-0.0)", "float", ""), ("f05", "0.5", "float", ""), ("f1", "1.0", "float", ""),
    ("f1e300", "1e300", "float", "huge"), ("f2_53", "(2.0^53)", "float", "huge"), ("f2_64", "(2.0^64)", "float", "huge"),
    ("finf", "(1.0/0.0)", "float", ""), ("fminf", "(0.0 - 1.0/0.0)", "float", ""), ("fnan", "(0.0/0.0)", "float", ""),
    ("fm25", "(-2.5)", "float", ""),
    ("c1i", "1i", "complex", ""), ("c10", "(1+0i)", "complex", ""), ("c25", "(2.5-1i)", "complex", ""),
    ("s0", '""', "str", ""), ("sa", '"a"', "str", ""), ("sabc", '"abc"', "str", ""), ("shel", '"héllo"', "str", ""),
    ("se", '"é"', "str", ""), ("sz", '"0"', "str", ""), ("s12", '"12"', "str", ""), ("ssp", '" x\\n"', "str", ""), ("sre", '"a(b"', "str", ""),
    # 400-byte strings in which every byte offset >= 1 falls inside a 2-byte character in one of the two (byte-offset
    # truncation / slicing of text in messages and formatting)
    ("sutfA", '("é" $* 200)', "str", ""), ("sutfB", '("x" $ ("é" $* 200))', "str", ""),
    ("y0", "B[]", "bytes", ""), ("y1", "B[0]", "bytes", ""), ("y3", "B[255,0,128]", "bytes", ""),
    ("l0", "[]", "list", ""), ("l1", "[1]", "list", ""), ("l3", "[1,2,3]", "list", ""), ("lnest", "[[1,2],[3]]", "list", ""),
    ("lmix", '[1,"a",null]', "list", ""), ("l200", "([0] ** 200)", "list", ""), ("lpairs", '[["a", 1], ["b", 2]]', "list", ""),
    ("lstr", '["b", "a", "c"]', "list", ""), ("lneg", "[3, (-1), 2, 3]", "list", ""),
    ("v0", "V()", "vector", ""), ("v2", "V(1,2)", "vector", ""), ("vq", "V(1/2, 2.0)", "vector", ""),
    ("d0", "{}", "dict", ""), ("d1", "{1:2}", "dict", ""), ("da", '{"a":[1]}', "dict", ""), ("ddef", "{:0}", "dict", ""),
    ("dmix", '{1.0: "x", 2: null}', "dict", ""), ("dset", "{1, 2, 3}", "dict", ""),
    ("dfn", '{"f": id}', "dict", ""), ("dinst", '{"p": Foo(1, 2)}', "dict", ""), ("dstream", '{"s": (1 to 3)}', "dict", ""),
    ("r13", "(1 to 3)", "stream", ""), ("r11", "(1 til 1)", "stream", ""), ("r51", "(5 to 1 by (-2))", "stream", ""),
    ("perm", "permutations([1,2])", "stream", ""), ("wadv", "(stream([10, 20, 30]) drop 1)", "stream", ""),
    ("wtail", "tail(stream(\"abc\"))", "stream", ""), ("lmap", "(1 to 3 lazy_map (* 2))", "stream", ""),
    ("siota", "iota(0)", "stream", "infinite"), ("srep", "repeat(1)", "stream", "infinite"),
    ("scyc", "cycle([1,2])", "stream", "infinite"),
    ("fid", "id", "func", ""), ("fplus", "+", "func", ""), ("flam1", "\\x -> x", "func", ""),
    ("flam2", "\\x, y -> x", "func", ""), ("feven", "even", "func", ""), ("fthrow", '\\x -> throw "boom"', "func", ""),
    ("flt", "<", "func", ""), ("fzero", "\\x -> 0", "func", ""),
    ("tint", "int", "type", ""), ("tstr", "str", "type", ""), ("tlist", "list", "type", ""),
    ("tfoo", "Foo", "type", ""), ("ifoo", "Foo(1, [2])", "inst", ""),
    ("nul", "null", "null", ""),
]

PRELUDE = ["struct Foo (fa, fb)"] + ["%s := %s" % (n, s) for (n, s, _k, _t) in POOL]
NAMES = [p[0] for p in POOL]
BY_NAME = {p[0]: p for p in POOL}
INFINITE = {p[0] for p in POOL if "infinite" in p[3]}

# Builtins outside the properties (files, processes, network, clock, sleep, randomness, stdin)
EXCLUDED = {
    "append_file", "read_file", "read_file?", "read_file_bytes", "read_file_bytes?", "write_file", "list_files",
    "run_process", "time", "now", "sleep", "random", "random_bytes", "random_range", "shuffle", "choose",
    "input", "read", "read_bytes", "read_compressed", "interact", "interact_lines", "flush",
    "__internal_debug", "debug",
}

# Reduced pool for the quick tier: one or two representatives per kind (all pairs are swept)
QUICK = ["i0", "i1", "im1", "i2_63m", "im2_63", "i1e30", "b7", "q12", "f05", "fnan", "c1i",
         "s0", "sabc", "sutfB", "y3", "l0", "l3", "lnest", "v2", "d1", "ddef", "dfn", "wadv",
         "r13", "r51", "siota", "scyc", "fid", "fzero", "feven", "tint", "ifoo", "nul"]
