"""Validate a seeded change and run checks against it.

  python3 -m vf.seedtest confirm <dir>            # in a scratch worktree: tests still pass, demo differs
  python3 -m vf.seedtest run <dir> [CNN ...]      # apply to /repo, rebuild harness, run quick checks, revert
  python3 -m vf.seedtest table                    # summary table of seeded/*/meta.json

<dir> contains patch.diff, demo.noul or demo.sh, expected.txt, actual.txt, meta.json.
Nothing is ever committed to /repo; the patch is reverted with `git checkout -- .` in a finally block.
"""
import glob
import json
import os
import subprocess
import sys
import time

VERIF = os.path.dirname(os.path.dirname(os.path.abspath(__file__)))
SCRATCH = os.environ.get("SEED_SCRATCH", "/tmp/wt-verify")


def sh(cmd, cwd=None, timeout=3600, env=None):
    p = subprocess.run(cmd, shell=True, cwd=cwd, stdout=subprocess.PIPE, stderr=subprocess.STDOUT, text=True, timeout=timeout, env=env)
    return p.returncode, p.stdout


def clean(repo):
    rc, out = sh("git status --porcelain --untracked-files=no", cwd=repo)
    return out.strip() == ""


def run_demo(wt, d):
    """Demos were written to live in <worktree>/seed<k>/ (some demo.sh scripts cd relative to
    themselves): copy the directory there, run, remove."""
    env = dict(os.environ, CARGO_NET_OFFLINE="true", RUST_BACKTRACE="0")
    k = os.path.basename(d.rstrip("/")).split("-")[-1]
    if os.path.exists(os.path.join(d, ".origname")):      # directory name the demo was written under
        k = open(os.path.join(d, ".origname")).read().strip().replace("seed", "")
    local = os.path.join(wt, "seed%s" % k)
    sh("rm -rf %s && cp -r %s %s" % (local, d, local))
    try:
        if os.path.exists(os.path.join(local, "demo.sh")):
            rc, out = sh("bash seed%s/demo.sh" % k, cwd=wt, timeout=1800, env=env)
        else:
            rc, out = sh("cargo run --offline --quiet -- seed%s/demo.noul" % k, cwd=wt, timeout=900, env=env)
    finally:
        sh("rm -rf %s" % local)
    return out


def confirm(d):
    d = os.path.abspath(d)
    meta = json.load(open(os.path.join(d, "meta.json")))
    if not os.path.isdir(SCRATCH):
        rc, out = sh("git -C /repo worktree add -q %s HEAD" % SCRATCH)
        if rc:
            print(out)
            return 2
    sh("git checkout -q --detach $(git -C /repo rev-parse HEAD)", cwd=SCRATCH)
    sh("git checkout -- .", cwd=SCRATCH)
    res = {}
    try:
        base_out = run_demo(SCRATCH, d)
        rc, out = sh("git apply %s" % os.path.join(d, "patch.diff"), cwd=SCRATCH)
        if rc:
            print("patch does not apply:", out)
            res["applies"] = False
            return 1
        res["applies"] = True
        rc, out = sh("cargo nextest run --workspace --no-fail-fast --offline 2>&1 | tail -8", cwd=SCRATCH, timeout=3000)
        summary = [l for l in out.splitlines() if "Summary" in l]
        res["tests"] = summary[-1].strip() if summary else out[-300:]
        res["tests_pass"] = "49 passed" in out
        # the guard-on build must still compile too
        rc2, out2 = sh('RUSTFLAGS="--cfg betaveros_noulith_verif" cargo check --offline --lib --target-dir target/verifcheck 2>&1 | tail -3', cwd=SCRATCH, timeout=3000)
        res["guard_build_ok"] = rc2 == 0 and "error" not in out2
        mut_out = run_demo(SCRATCH, d)
        res["demo_differs"] = base_out != mut_out
        res["demo_base"] = base_out[-400:]
        res["demo_mutant"] = mut_out[-400:]
    finally:
        sh("git checkout -- .", cwd=SCRATCH)
    meta["confirmed"] = res
    json.dump(meta, open(os.path.join(d, "meta.json"), "w"), indent=1)
    print(json.dumps(res, indent=1)[:1500])
    return 0 if res.get("tests_pass") and res.get("demo_differs") else 1


def run(d, props):
    d = os.path.abspath(d)
    meta = json.load(open(os.path.join(d, "meta.json")))
    props = props or [meta["property"]]
    if not clean("/repo"):
        print("/repo has uncommitted changes; refusing")
        return 2
    results = meta.get("checks", {})
    try:
        rc, out = sh("git -C /repo apply %s" % os.path.join(d, "patch.diff"))
        if rc:
            print("patch does not apply to /repo:", out)
            return 2
        rc, out = sh("./check --setup", cwd=VERIF, timeout=3000)
        if rc:
            print("harness build failed with the change:", out[-800:])
            results["build"] = "failed"
            return 2
        for p in props:
            t0 = time.time()
            rc, out = sh("./check %s --tier quick --no-build" % p, cwd=VERIF, timeout=6000)
            viol = [l for l in out.splitlines() if l.startswith("VIOLATION")]
            results[p] = {"exit": rc, "violations": len(viol), "first": viol[0][:300] if viol else "",
                          "summary": out.strip().splitlines()[-1][:200] if out.strip() else "", "wall_s": round(time.time() - t0, 1)}
            print(p, "exit", rc, "violations", len(viol), viol[0][:200] if viol else "")
    finally:
        sh("git -C /repo checkout -- .")
    meta["checks"] = results
    meta["what_was_run"] = "git -C /repo apply patch.diff; ./check --setup; ./check <P> --tier quick --no-build; git -C /repo checkout -- ."
    json.dump(meta, open(os.path.join(d, "meta.json"), "w"), indent=1)
    return 0


def table():
    rows = []
    for f in sorted(glob.glob(os.path.join(VERIF, "seeded", "*", "meta.json"))):
        m = json.load(open(f))
        name = os.path.basename(os.path.dirname(f))
        ch = m.get("checks", {})
        caught = [p for p, r in ch.items() if isinstance(r, dict) and r.get("exit") == 1 and r.get("violations")]
        rows.append((name, m.get("property"), (m.get("summary") or "")[:90], ", ".join(caught) or "MISSED", m.get("needs", "")[:70]))
    print("| seeded change | property | what | caught by | needs |\n| - | - | - | - | - |")
    for r in rows:
        print("| %s | %s | %s | %s | %s |" % r)


if __name__ == "__main__":
    a = sys.argv[1:]
    if a[0] == "confirm":
        sys.exit(confirm(a[1]))
    if a[0] == "run":
        sys.exit(run(a[1], a[2:]))
    if a[0] == "table":
        table()
