"""Property registry: id -> module, evidence level, minimum observations."""
import json
from . import core

HOOK_COMMITS = ["070994d"]
NOT_APPLICABLE = {}

PROPS = {
    "C06": dict(mod="c06", level="exploration", min_nontrivial=1000,
                technique="runtime reference-model monitor (Python int oracle) over seeded operand/producer sweeps with representation flag observed",
                claim="Held on every executed (operator, operands, producer) case: each result of the real interpreter is compared with Python's exact int arithmetic; operands cross +-2^63 and are produced in machine-word and big representation. Exploration, not proof: says nothing about operand values not generated.",
                note="Trusts CPython int arithmetic and the harness's structural value dump; is_prime/factorize operands bounded (trial division)."),
}


def run(prop, tier, seed):
    p = PROPS[prop]
    return core.run_property(prop, p["mod"], tier, seed, level=p["level"],
                             min_nontrivial=p["min_nontrivial"] if tier == "quick" else p.get("min_nontrivial_thorough", p["min_nontrivial"]),
                             max_inconclusive_frac=p.get("max_inconc", 0.02))


def replay(prop, path):
    """Re-run the recorded case of a replay file and show what the interpreter does now."""
    data = json.load(open(path))
    rp = data.get("replay", {})
    print("property:", data.get("property"), "key:", data.get("key"))
    print("what:", data.get("what"))
    job = rp.get("job")
    if not job:
        print(json.dumps(rp, indent=1)[:4000])
        return 0
    w = core.Worker()
    r = w.run(job)
    units = job.get("stmts") or job.get("srcs") or []
    for s, e in zip(units, r["events"]):
        print(">>>", s)
        print("   ", json.dumps(e, ensure_ascii=False)[:1500])
    if "expected" in rp:
        print("expected:", json.dumps(rp["expected"], ensure_ascii=False)[:1500])
    w.close()
    return 0
