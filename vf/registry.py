"""Property registry: id -> module, evidence level, minimum observations."""
import json
from . import core

HOOK_COMMITS = ["070994d"]
NOT_APPLICABLE = {}

# every property module vf/props/cNN.py carries its own REG dict
PROPS = {}
for _i in range(1, 18):
    _pid = "C%02d" % _i
    try:
        _m = __import__("vf.props.c%02d" % _i, fromlist=["REG"])
    except ModuleNotFoundError as e:
        if ("c%02d" % _i) in str(e):
            continue
        raise
    except Exception as e:      # a module under construction must not take the others down
        import sys as _sys
        print("registry: cannot import vf.props.c%02d: %r" % (_i, e), file=_sys.stderr)
        continue
    if not hasattr(_m, "REG"):
        continue
    PROPS[_pid] = dict(_m.REG, mod="c%02d" % _i)


def run(prop, tier, seed):
    p = PROPS[prop]
    return core.run_property(prop, p["mod"], tier, seed, level=p["level"],
                             min_nontrivial=p["min_nontrivial"] if tier == "quick" else p.get("min_nontrivial_thorough", p["min_nontrivial"]),
                             max_inconclusive_frac=p.get("max_inconc", 0.02))


def replay(prop, path):
    """Re-run the recorded case of a replay file and show what the interpreter does now."""
    data = json.load(open(path))
    rp = data.get("replay", {})
    print("property:", data.get("property"), "key:", data.get("key"))
    print("what:", data.get("what"))
    job = rp.get("job")
    if not job:
        print(json.dumps(rp, indent=1)[:4000])
        return 0
    w = core.Worker()
    r = w.run(job)
    units = job.get("stmts") or job.get("srcs") or []
    for s, e in zip(units, r["events"]):
        print(">>>", s)
        print("   ", json.dumps(e, ensure_ascii=False)[:1500])
    if "expected" in rp:
        print("expected:", json.dumps(rp["expected"], ensure_ascii=False)[:1500])
    w.close()
    return 0
