"""C09  Dictionaries are finite maps keyed by value equality.

Two runtime monitors, both deciding with a Python reference model in which a key is the equivalence
class of `==` (NaN equal to itself) computed by `vf.values.ckey` (numbers -> exact Fractions /
sentinels, lists -> tuples, dicts -> frozensets):

  hashlaw   the harness job `hashlaw` evaluates a pool of key expressions, converts each to the
            interpreter's key wrapper and reports the key-equality matrix, a fixed-hasher hash per key
            and what a real HashMap lookup finds.  For every pair: model-equal <=> key-equal,
            key-equal => equal hashes, and the HashMap lookup finds exactly the first earlier member
            of the class.  The model's equality itself is cross-checked against the interpreter's own
            `==` with ordinary eval jobs.  A fixed pool (every scalar representation x every nesting)
            is enumerated completely; seeded random nested terms with re-renderings (same value,
            other numeric levels, dict entries reordered) and one-leaf mutants are added on top.
  hist      histories of 30 dictionary operations over a few key classes, each key written through a
            randomly chosen representation of its class; after every statement the result and the
            variables `d` and `e` are compared with the model (keys up to ==, values exactly, results
            that come out in hash order as multisets).

Which of two equal keys is kept as the stored key is not specified by the property: keys are always
compared up to ==.  Error message texts are never compared.

Violation keys name the pair of numeric levels in which the two keys involved differ (int covers every
int representation; a bare representation pair such as bigint~int, or "same", appears only when no
numeric level differs):
  C09|hashlaw|hash|<pair>             key-equal, hashes differ
  C09|hashlaw|keq|missed|<pair>       model-equal, interpreter's key equality says unequal
  C09|hashlaw|keq|false-eq|<pair>     model-unequal, key equality says equal (also when only seen through a
                                      HashMap lookup or dict ==, which needs a hash-tag collision)
  C09|hashlaw|lookup|miss|<pair>      real HashMap lookup misses an equal key (false-hit|<pair>: finds an unequal one)
  C09|eq|missed|<pair>, C09|eq|false-eq|<pair>   the interpreter's == against the model of ==
  C09|hist|<pair>                     first divergence of a history, attributed to the pair of levels in which the
                                      keys involved in that statement coincide; C09|hist|same|<op> if there is none
  C09|construct|<kind>, C09|hashlaw|notkey|<kind>   a pool expression did not evaluate to its model value / is no key
Per shard at most PER_KEY examples are kept per key (all are counted).
"""
import collections
import itertools
import json
from fractions import Fraction

from .. import core
from ..values import norm, to_canon, from_canon, ckey, Vec, NDict, src as vsrc

RULE = ("hashlaw cases = ordered pairs of key expressions: the fixed pool is every scalar representation "
        "(int, small value in big-int representation, int beyond i64, float, rational, complex, complex with a "
        "NaN component, str, bytes, null; values 0, -0.0, +-1, 2, 1/2, 1/3, 2^53, 2^53+1, 2^63, -2^63, 2^64, 1e300, "
        "10^300, inf, nan, 1i) bare and inside [x], [x,\"t\"], [[x],[]], V(x), V(2,x), {x:1}, {\"k\":x}, {x:[x]}, "
        "[{x:null},x], all pairs of this fixed pool enumerated in every run; plus seeded random nested terms of depth <= 3 each with two "
        "re-renderings and one one-leaf mutant; distinct = distinct (source a, source b); non-trivial = a and b are "
        "different sources that are model-equal or have the same shape.  hist cases = histories of 30 statements "
        "over 4-8 key classes (scalar class x nesting), every key occurrence rendered through a random "
        "representation of its class; half of the histories draw representations from all numeric levels, half "
        "from int/big-int/float only where the class has such members; distinct = distinct history text; "
        "non-trivial = at least one statement addresses an existing entry through a key whose numeric levels or "
        "int representations differ from the stored key's")
ASSUMPTIONS = [
    "the Python model (exact Fractions, NaN/inf sentinels, complex with zero imaginary part equal to the real) is the `==` of the property; it is cross-checked against the interpreter's `==` on every pool pair",
    "std HashMap uses a per-map random SipHash key, so a lookup through an equal key with a different hash misses only with probability ~127/128; the hash law itself is observed with a fixed hasher by the harness",
    "a later duplicate key in a literal / dict() / || overrides the value of the earlier one (insertion semantics of a map); which representation stays as the stored key is not compared",
    "values stored in the dictionaries are small ints, null, strings and int lists so that value comparison is exact",
]
PLAN = {
    "quick": {"histories": 9000, "steps": 30, "rand_batches": 4, "batch_terms": 36},
    "thorough": {"histories": 100000, "steps": 30, "rand_batches": 20, "batch_terms": 40},
}

REG = dict(level="exploration", min_nontrivial=3000, min_nontrivial_thorough=30000,
           technique="runtime reference-model monitor: all-pairs hash/equality law observed through the interpreter's own key wrapper (fixed hasher + real HashMap) and operation histories compared step by step with a Python finite-map model keyed by exact value equality",
           claim="For every executed pair of pool keys the interpreter's key equality coincided with the model's ==, equal keys had equal hashes and HashMap lookups agreed; for every executed history each dictionary operation's result and the dictionary state after it equalled the model's. Exploration over the pool and seeded histories, not a proof for all keys/histories.",
           note="Trusts CPython Fractions/floats for the equality model and the harness's structural dump; HashMap seeds are random per map so a miss caused by unequal hashes is observed with probability ~0.99 per lookup (the fixed-hasher hash law is deterministic).")

STOP = ("fuel", "depth", "timeout", "crash", "skipped", "lost")
NAN = float("nan")
INF = float("inf")


# ---------------------------------------------------------------- terms

class T:
    """A key/value term: source text, model value, shape.  kind: a(tom) l(ist) v(ector) d(ict)."""
    __slots__ = ("kind", "src", "val", "lev", "kids", "ck", "nanx")

    def __init__(self, kind, src, val, lev=None, kids=()):
        self.kind = kind
        self.src = src
        self.val = val
        self.lev = lev
        self.kids = kids
        self.ck = ckey(val)
        if kind == "a":
            self.nanx = _has_nan(val)
        elif kind == "d":
            self.nanx = any(v.nanx for _k, v in kids)     # NaN inside a dict *key* is matched by key equality
        else:
            self.nanx = any(k.nanx for k in kids)

    def __repr__(self):
        return "T(%s)" % self.src


def _has_nan(v):
    if isinstance(v, float):
        return v != v
    if isinstance(v, complex):
        return v.real != v.real or v.imag != v.imag
    return False


def A(src, val, lev):
    return T("a", src, val, lev)


def L(*kids):
    return T("l", "[%s]" % ", ".join(k.src for k in kids), [k.val for k in kids], None, tuple(kids))


def V(*kids):
    return T("v", "V(%s)" % ", ".join(k.src for k in kids), Vec(k.val for k in kids), None, tuple(kids))


def D(pairs, default=None):
    """Dict literal term; `pairs` must have pairwise model-unequal keys."""
    body = ", ".join("%s: %s" % (k.src, v.src) for k, v in pairs)
    has = default is not None
    if has:
        body = ":" + default.src + (", " + body if body else "")
    val = NDict([(k.val, v.val) for k, v in pairs], default.val if has else None, has)
    return T("d", "{%s}" % body, val, None, tuple(pairs))


NUMERIC = ("int", "bigint", "hugeint", "float", "rational", "complex", "nancomplex")
# violation keys speak about coarse numeric levels: every int representation is "int"
COARSE = {"int": "int", "bigint": "int", "hugeint": "int", "float": "float", "rational": "rational",
          "complex": "complex", "nancomplex": "nancomplex"}
PRIORITY = ["float~rational", "int~rational", "complex~rational", "complex~int", "complex~float",
            "nancomplex~nancomplex", "complex~nancomplex", "float~nancomplex"]


def pairname(a, b, fine=False):
    if fine:
        return "~".join(sorted([a, b]))
    return "~".join(sorted([COARSE.get(a, a), COARSE.get(b, b)]))


def leafdiff(a, b, out, fine=False):
    """For two model-equal terms: collect the pairs of numeric levels at leaves where they differ (coarse levels:
    every int representation is "int"; fine: int / bigint / hugeint kept apart)."""
    if a.kind == "a" and b.kind == "a":
        la, lb = a.lev, b.lev
        if not fine:
            la, lb = COARSE.get(la, la), COARSE.get(lb, lb)
        if la != lb:
            out.add(pairname(la, lb, True))
    elif a.kind == b.kind and a.kind in ("l", "v"):
        for x, y in zip(a.kids, b.kids):
            leafdiff(x, y, out, fine)
    elif a.kind == b.kind == "d":
        mb = {}
        for k, v in b.kids:
            mb[k.ck] = (k, v)
        for k, v in a.kids:
            if k.ck in mb:
                leafdiff(k, mb[k.ck][0], out, fine)
                leafdiff(v, mb[k.ck][1], out, fine)
    return out


def diff_label(a, b):
    """Violation-key label for two model-equal terms: the (coarse) pair of numeric levels in which they differ,
    the representation pair (e.g. bigint~int) if only that differs, else "same"."""
    lab = pick_label(leafdiff(a, b, set()))
    if lab == "same":
        lab = pick_label(leafdiff(a, b, set(), True))
    return lab


def pick_label(pairs):
    if not pairs:
        return "same"
    for p in PRIORITY:
        if p in pairs:
            return p
    return sorted(pairs)[0]


def shape(t):
    if t.kind == "a":
        return "n" if t.lev in NUMERIC else t.lev
    if t.kind == "d":
        return "d(%s)" % ",".join(sorted(shape(k) + ":" + shape(v) for k, v in t.kids))
    return "%s(%s)" % (t.kind, ",".join(shape(k) for k in t.kids))


def toptag(t):
    if t.kind == "a":
        return t.lev
    return {"l": "list", "v": "vector", "d": "dict"}[t.kind]


# ---------------------------------------------------------------- scalar classes (all members model-equal)

P63 = 1 << 63
P64 = 1 << 64
P53 = 1 << 53

CLASSES = collections.OrderedDict([
    ("one", [A("1", 1, "int"), A("1.0", 1.0, "float"), A("(2/2)", Fraction(1), "rational"),
             A("rational(1)", Fraction(1), "rational"), A("(1+0i)", complex(1, 0), "complex"),
             A("(7 // 7)", 1, "bigint")]),
    ("zero", [A("0", 0, "int"), A("0.0", 0.0, "float"), A("(-0.0)", -0.0, "float"),
              A("rational(0)", Fraction(0), "rational"), A("(0 // 1)", 0, "bigint"), A("0i", complex(0, 0), "complex")]),
    ("two", [A("2", 2, "int"), A("2.0", 2.0, "float"), A("rational(2)", Fraction(2), "rational"),
             A("(2+0i)", complex(2, 0), "complex"), A("(2^1)", 2, "bigint")]),
    ("minus1", [A("(-1)", -1, "int"), A("(-1.0)", -1.0, "float"), A("rational(-1)", Fraction(-1), "rational"),
                A("((-1) + 0i)", complex(-1, 0), "complex"), A("((-7) // 7)", -1, "bigint")]),
    ("half", [A("(1/2)", Fraction(1, 2), "rational"), A("0.5", 0.5, "float"), A("(0.5+0i)", complex(0.5, 0), "complex"),
              A("(2/4)", Fraction(1, 2), "rational")]),
    ("third", [A("(1/3)", Fraction(1, 3), "rational"), A("(2/6)", Fraction(1, 3), "rational")]),
    ("fthird", [A("(1.0/3.0)", 1.0 / 3.0, "float")]),
    ("p64", [A("18446744073709551616", P64, "hugeint"), A("(2.0^64)", 2.0 ** 64, "float"),
             A("rational(2^64)", Fraction(P64), "rational"), A("(2.0^64 + 0i)", complex(2.0 ** 64, 0), "complex"),
             A("(2^64)", P64, "hugeint")]),
    ("p53", [A("9007199254740992", P53, "int"), A("(2.0^53)", 2.0 ** 53, "float"), A("rational(2^53)", Fraction(P53), "rational"),
             A("(2^53)", P53, "bigint")]),
    ("p53p", [A("9007199254740993", P53 + 1, "int"), A("rational(9007199254740993)", Fraction(P53 + 1), "rational"),
              A("(2^53 + 1)", P53 + 1, "bigint")]),
    ("p63", [A("9223372036854775808", P63, "hugeint"), A("(2.0^63)", 2.0 ** 63, "float"),
             A("rational(2^63)", Fraction(P63), "rational")]),
    ("m63", [A("(0 - 9223372036854775807 - 1)", -P63, "int"), A("(-(2.0^63))", -(2.0 ** 63), "float"),
             A("((-(2^63)) // 1)", -P63, "bigint"), A("rational(-(2^63))", Fraction(-P63), "rational")]),
    ("f1e300", [A("1e300", 1e300, "float")]),
    ("i1e300", [A("(10^300)", 10 ** 300, "hugeint")]),
    ("inf", [A("(1.0/0.0)", INF, "float"), A("((1.0/0.0) + 0i)", complex(INF, 0), "complex")]),
    ("minf", [A("(0.0 - 1.0/0.0)", -INF, "float")]),
    ("nan", [A("(0.0/0.0)", NAN, "float"), A("(-(0.0/0.0))", NAN, "float"),
             A("((0.0/0.0) + 0i)", complex(NAN, 0), "complex")]),
    ("i", [A("1i", complex(0, 1), "complex"), A("(0 + 1i)", complex(0, 1), "complex")]),
    ("nan1i", [A("((0.0/0.0) + 1i)", complex(NAN, 1), "nancomplex")]),
    ("nan2i", [A("((0.0/0.0) + 2i)", complex(NAN, 2), "nancomplex")]),
    ("nannani", [A("((0.0/0.0) * 1i)", complex(NAN, NAN), "nancomplex")]),
    ("s_a", [A('"a"', "a", "str")]),
    ("s_1", [A('"1"', "1", "str")]),
    ("s_1.0", [A('"1.0"', "1.0", "str")]),
    ("s_", [A('""', "", "str")]),
    ("s_u", [A('"hé"', "hé", "str")]),
    ("b_a", [A("B[97]", b"a", "bytes")]),
    ("b_", [A("B[]", b"", "bytes")]),
    ("b_1", [A("B[1]", b"\x01", "bytes")]),
    ("null", [A("null", None, "null")]),
])
# complex-with-NaN classes collide nondeterministically in real HashMaps: hashlaw only
HASHLAW_ONLY = {"nan1i", "nan2i", "nannani"}
EMPTIES = [L(), V(), D([]), D([], default=A("0", 0, "int"))]     # [] V() {} {:0}

STR_T = A('"t"', "t", "str")
STR_K = A('"k"', "k", "str")
ONE_V = A("1", 1, "int")
TWO_I = A("2", 2, "int")
NULL_A = A("null", None, "null")

NESTINGS = [
    # (name, numeric-only, number of leaves, builder)
    ("x", False, 1, lambda x: x),
    ("[x]", False, 1, lambda x: L(x)),
    ("[x,t]", False, 1, lambda x: L(x, STR_T)),
    ("[[x],[]]", False, 1, lambda x: L(L(x), L())),
    ("V(x)", True, 1, lambda x: V(x)),
    ("V(2,x)", True, 1, lambda x: V(TWO_I, x)),
    ("{x:1}", False, 1, lambda x: D([(x, ONE_V)])),
    ("{k:x}", False, 1, lambda x: D([(STR_K, x)])),
    ("{x:[y]}", False, 2, lambda x, y: D([(x, L(y))])),
    ("[{x:null},y]", False, 2, lambda x, y: L(D([(x, NULL_A)]), y)),
]


def fixed_pool():
    out = []
    for _cname, atoms in CLASSES.items():
        for a in atoms:
            for _n, numonly, leaves, f in NESTINGS:
                if numonly and a.lev not in NUMERIC:
                    continue
                out.append(f(a) if leaves == 1 else f(a, a))
    out.extend(EMPTIES)
    out.append(L(L()))
    out.append(D([(L(), V())]))
    # mixed-level members inside one container
    one, half = CLASSES["one"], CLASSES["half"]
    out.append(L(one[0], half[0]))
    out.append(L(one[1], half[1]))
    out.append(L(one[2], half[2]))
    out.append(V(one[0], half[0]))
    out.append(V(one[1], half[1]))
    out.append(D([(one[0], half[0]), (half[0], one[0])]))
    out.append(D([(half[1], one[1]), (one[1], half[1])]))
    out.append(D([(one[2], half[2]), (half[3], one[3])]))
    seen = set()
    uniq = []
    for t in out:
        if t.src not in seen:
            seen.add(t.src)
            uniq.append(t)
    return uniq


# ---------------------------------------------------------------- model equality of `==` (NaN unequal)

def strict_eq(a, b):
    """Model of the interpreter's `==` on two terms: numbers by value (NaN unequal to everything), lists and
    vectors element-wise, dicts as maps (keys by key equality, values by ==)."""
    return a.ck == b.ck and not a.nanx and not b.nanx


# ---------------------------------------------------------------- hashlaw monitor

PER_KEY = 3


def viol(sh, key, what, replay):
    """Record at most PER_KEY examples per key and shard (the shard keeps 400 in all); count every one."""
    seen = sh.__dict__.setdefault("_c09_perkey", {})
    seen[key] = seen.get(key, 0) + 1
    if seen[key] <= PER_KEY:
        sh.violation(key, what, replay)
    else:
        sh.count("violations_total")


def differing_leaves(a, b):
    """Parallel walk of two terms of the same shape: the pairs of atoms that are model-unequal, or None when the
    shapes differ (dicts are only walked when they have a single entry)."""
    out = []

    def walk(x, y):
        if x.kind == "a" and y.kind == "a":
            if x.ck != y.ck:
                out.append((x, y))
            return True
        if x.kind != y.kind or len(x.kids) != len(y.kids):
            return False
        if x.kind == "d":
            if len(x.kids) != 1:
                return False
            return walk(x.kids[0][0], y.kids[0][0]) and walk(x.kids[0][1], y.kids[0][1])
        return all(walk(p, q) for p, q in zip(x.kids, y.kids))
    return out if walk(a, b) else None


def unequal_label(a, b):
    """Label for two model-unequal terms: the levels of the leaves that differ when the shapes agree."""
    dl = differing_leaves(a, b)
    if dl:
        return pick_label(set(pairname(x.lev, y.lev) for x, y in dl))
    return pairname(toptag(a), toptag(b))


def leaf_false_eq(w, a, b):
    """Is a wrong 'equal' verdict on the unequal terms a, b explained by the interpreter's key equality calling
    their differing leaves equal (observed with a hashlaw job on the leaves)?  Such a verdict through a HashMap
    (dict ==, lookup) needs a hash-tag collision and is nondeterministic; it is reported under the key of the
    deterministic leaf-level observation."""
    dl = differing_leaves(a, b)
    if not dl:
        return False
    for x, y in dl[:4]:
        r = w.run({"kind": "hashlaw", "id": "c09leaf", "prelude": [], "exprs": [x.src, y.src]})
        keq = (r.get("result") or {}).get("keq")
        if not keq or keq[0][1] != "1":
            return False
    return True


def demo_job(a, b):
    """An ordinary eval job showing what a pair of keys does to dictionaries (for replays)."""
    return {"kind": "eval", "fresh_each": True,
            "stmts": ["%s == %s" % (a.src, b.src), "{%s: 1} !? %s" % (a.src, b.src),
                      "len({%s: 1, %s: 2})" % (a.src, b.src), "count_distinct([%s, %s])" % (a.src, b.src)]}


def demo_expected(a, b):
    if a.ck == b.ck:
        return {"==": 0 if (a.nanx or b.nanx) else 1, "!?": 1, "len": 1, "count_distinct": 1,
                "why": "the keys are equal (NaN equal to itself): one entry, same hash"}
    return {"==": 0, "!?": None, "len": 2, "count_distinct": 2, "why": "the keys are unequal: two entries, every time"}


def run_hashlaw(sh, w, terms, tag, rows=None, check_hash=True, cross_eq=True):
    """terms in the order given; `rows`: indices whose matrix rows / == rows this call is responsible for."""
    n = len(terms)
    job = {"kind": "hashlaw", "id": "c09h", "prelude": [], "exprs": [t.src for t in terms]}
    r = w.run(job)
    res = r.get("result") or {}
    if "keq" not in res:
        sh.inconc("hashlaw-job:" + str(res.get("crashed", {}).get("o", "error")), tag)
        return
    canon, hashes, keq, found = res["canon"], res["hash"], res["keq"], res["found"]
    cid = {}
    cids = []
    for t in terms:
        cids.append(cid.setdefault(t.ck, len(cid)))
    usable = [True] * n
    for i, t in enumerate(terms):
        c = canon[i]
        if isinstance(c, dict) and c.get("failed"):
            usable[i] = False
            sh.inconc("expr-failed", t.src)
            continue
        if norm(c) != to_canon(t.val):
            usable[i] = False
            viol(sh, "C09|construct|" + toptag(t), "key expression %s evaluated to %s, model expects %s" % (
                t.src, json.dumps(norm(c))[:200], json.dumps(to_canon(t.val))[:200]),
                {"job": {"kind": "eval", "stmts": [t.src]}, "expected": to_canon(t.val)})
            continue
        if hashes[i] is None:
            usable[i] = False
            viol(sh, "C09|hashlaw|notkey|" + toptag(t), "%s is not accepted as a dictionary key" % t.src,
                 {"job": {"kind": "eval", "stmts": ["{%s: 1}" % t.src]}, "expected": "a dictionary"})
    rowset = range(n) if rows is None else rows
    shapes = [shape(t) for t in terms]
    # (1) model-equal <=> key-equal
    for i in rowset:
        if not usable[i]:
            continue
        ti = terms[i]
        ci = cids[i]
        row = keq[i]
        for j in range(n):
            if not usable[j]:
                continue
            tj = terms[j]
            meq = cids[j] == ci
            if i != j:
                sh.seen(ti.src + " ~ " + tj.src, meq or shapes[i] == shapes[j])
            ch = row[j]
            if (ch == "1") == meq:
                continue
            if meq:
                lab = diff_label(ti, tj)
                viol(sh, "C09|hashlaw|keq|missed|" + lab,
                     "keys %s and %s are == in the model but the interpreter's key equality says unequal" % (ti.src, tj.src),
                     {"job": demo_job(ti, tj), "hashlaw_job": {"kind": "hashlaw", "exprs": [ti.src, tj.src]},
                      "expected": demo_expected(ti, tj)})
            else:
                lab = unequal_label(ti, tj)
                viol(sh, "C09|hashlaw|keq|false-eq|" + lab,
                     "keys %s and %s are unequal but the interpreter's key equality says equal" % (ti.src, tj.src),
                     {"job": demo_job(ti, tj), "hashlaw_job": {"kind": "hashlaw", "exprs": [ti.src, tj.src]},
                      "expected": demo_expected(ti, tj)})
    sh.count("hashlaw:pairs_" + tag, len(rowset) * n)
    # (2) key-equal => equal hashes (judged on the interpreter's own key equality)
    if check_hash:
        for i in range(n):
            if not usable[i]:
                continue
            row = keq[i]
            for j in range(i + 1, n):
                if row[j] == "1" and usable[j] and hashes[i] != hashes[j]:
                    ti, tj = terms[i], terms[j]
                    if cids[i] == cids[j]:
                        lab = diff_label(ti, tj)
                    else:
                        lab = unequal_label(ti, tj)
                    sh.count("hashlaw:hash_mismatch")
                    viol(sh, "C09|hashlaw|hash|" + lab,
                         "keys %s and %s are key-equal but hash differently (%s vs %s)" % (ti.src, tj.src, hashes[i], hashes[j]),
                         {"job": demo_job(ti, tj), "hashlaw_job": {"kind": "hashlaw", "exprs": [ti.src, tj.src]},
                          "expected": demo_expected(ti, tj)})
        # (3) the real HashMap lookup: finds the first earlier member of the class, and nothing else
        first = {}
        for i in range(n):
            if not usable[i]:
                continue
            exp = first.get(cids[i])
            got = found[i]
            if exp is None:
                first[cids[i]] = i
            if got == exp:
                continue
            ti = terms[i]
            if got is not None and cids[got] != cids[i]:
                tj = terms[got]
                sh.count("hashlaw:lookup_false_hit")
                # a hit on a key the interpreter's key equality (wrongly) calls equal is the false-eq defect
                # seen through a HashMap (it needs a 7-bit tag collision: nondeterministic), same key
                kind = "keq|false-eq" if keq[i][got] == "1" or leaf_false_eq(w, ti, tj) else "lookup|false-hit"
                viol(sh, "C09|hashlaw|%s|%s" % (kind, unequal_label(ti, tj)),
                     "HashMap lookup of %s found the unequal key %s" % (ti.src, tj.src),
                     {"job": demo_job(tj, ti), "expected": demo_expected(tj, ti)})
            elif got is None:
                tj = terms[exp]
                lab = diff_label(ti, tj)
                sh.count("hashlaw:lookup_miss")
                viol(sh, "C09|hashlaw|lookup|miss|" + lab,
                     "HashMap lookup of %s did not find the equal key %s inserted earlier" % (ti.src, tj.src),
                     {"job": demo_job(tj, ti), "expected": demo_expected(tj, ti)})
            # got is another member of the same class: an earlier miss (already reported) inserted it
        sh.count("hashlaw:lookups_" + tag, n)
    # (4) the model's equality against the interpreter's ==
    if cross_eq:
        prelude = ["p%d := %s" % (i, t.src if usable[i] else "null") for i, t in enumerate(terms)]
        ris = [i for i in rowset if usable[i]]
        stmts = ["[%s]" % ", ".join("p%d == p%d" % (i, j) for j in range(n)) for i in ris]
        evs = []
        for k in range(0, len(stmts), 60):
            evs += core.eval_all(w, stmts[k:k + 60], prelude=prelude, fresh_each=True, child_each=True,
                                 fuel=5_000_000, jid="c09eq")
        for i, ev in zip(ris, evs):
            ti = terms[i]
            o = ev.get("o")
            if o != "ok" or "l" not in (ev.get("v") or {}):
                sh.inconc("eqrow:" + str(o), ti.src)
                continue
            vals = ev["v"]["l"]
            for j in range(n):
                if not usable[j]:
                    continue
                tj = terms[j]
                got = vals[j].get("i") if isinstance(vals[j], dict) else None
                want = "1" if strict_eq(ti, tj) else "0"
                if got == want:
                    continue
                if cids[i] == cids[j]:
                    lab = diff_label(ti, tj)
                else:
                    lab = unequal_label(ti, tj)
                kind = "C09|eq|missed" if want == "1" else "C09|eq|false-eq"
                if want == "0" and (keq[i][j] == "1" or leaf_false_eq(w, ti, tj)):
                    kind = "C09|hashlaw|keq|false-eq"      # the same defect seen through == (nondeterministically)
                viol(sh, "%s|%s" % (kind, lab),
                     "%s == %s gives %s, the model of == says %s" % (ti.src, tj.src, got, want),
                     {"job": {"kind": "eval", "stmts": ["%s == %s" % (ti.src, tj.src)]}, "expected": {"i": want}})
            sh.count("eq:comparisons", n)
    return


# ---------------------------------------------------------------- random terms

def usable_atoms(cname, profile):
    atoms = CLASSES[cname]
    if profile == "plain":
        keep = [a for a in atoms if a.lev not in ("rational", "complex")]
        if keep:
            return keep
    return atoms


HIST_CLASSES = [c for c in CLASSES if c not in HASHLAW_ONLY]
NUM_CLASSES = [c for c in HIST_CLASSES if CLASSES[c][0].lev in NUMERIC]
WEIGHTED = (["one"] * 5 + ["zero"] * 3 + ["two"] * 3 + ["half"] * 5 + ["minus1"] * 2 + ["p64"] * 3 + ["p53"] * 2 +
            ["p53p", "p63", "m63", "third", "fthird", "nan", "nan", "inf", "i", "f1e300", "i1e300", "minf"] +
            ["s_a", "s_1", "s_1.0", "s_", "s_u", "b_a", "b_", "b_1", "null"])


def rand_atom(r, cname, profile):
    return r.choice(usable_atoms(cname, profile))


class Shape:
    """A value-equality class of nested keys: a tree over scalar class names; `render` picks a random
    representation of every leaf (and a random entry order in dicts)."""

    def __init__(self, kind, kids=(), cname=None):
        self.kind = kind
        self.kids = kids
        self.cname = cname

    def render(self, r, profile):
        if self.kind == "a":
            return rand_atom(r, self.cname, profile)
        if self.kind == "l":
            return L(*[k.render(r, profile) for k in self.kids])
        if self.kind == "v":
            return V(*[k.render(r, profile) for k in self.kids])
        pairs = [(k.render(r, profile), v.render(r, profile)) for k, v in self.kids]
        r.shuffle(pairs)
        return D(pairs)

    def leaves(self, out):
        if self.kind == "a":
            out.append(self)
        elif self.kind == "d":
            for k, v in self.kids:
                k.leaves(out)
                v.leaves(out)
        elif self.kind in ("l", "v"):
            for k in self.kids:
                k.leaves(out)
        return out

    def clone(self):
        if self.kind == "a":
            return Shape("a", (), self.cname)
        if self.kind == "d":
            return Shape("d", tuple((k.clone(), v.clone()) for k, v in self.kids))
        return Shape(self.kind, tuple(k.clone() for k in self.kids))


def rand_shape(r, depth, classes=None, numeric=False):
    pool = classes or WEIGHTED
    k = r.random()
    if depth <= 0 or k < 0.35 or numeric:
        if numeric:
            cs = [c for c in pool if c in NUM_CLASSES] or NUM_CLASSES
            return Shape("a", (), r.choice(cs))
        return Shape("a", (), r.choice(pool))
    if k < 0.6:
        return Shape("l", tuple(rand_shape(r, depth - 1, classes) for _ in range(r.choice([0, 1, 1, 2, 2, 3]))))
    if k < 0.72:
        return Shape("v", tuple(rand_shape(r, 0, classes, numeric=True) for _ in range(r.choice([0, 1, 1, 2, 3]))))
    nent = r.choice([0, 1, 1, 2, 2, 3])
    ents = []
    for _ in range(nent):
        ents.append((rand_shape(r, depth - 1, classes), rand_shape(r, depth - 1, classes)))
    return Shape("d", tuple(ents))


def render_ok(r, shp, profile):
    """Render, rejecting dict terms whose own keys would be duplicates by equality (their construction is the
    business of the history monitor, not of a key expression)."""
    for _ in range(8):
        try:
            t = shp.render(r, profile)
        except Exception:
            return None
        if _dict_keys_distinct(t):
            return t
    return None


def _dict_keys_distinct(t):
    if t.kind == "a":
        return True
    if t.kind == "d":
        cks = [k.ck for k, _v in t.kids]
        if len(set(cks)) != len(cks):
            return False
        return all(_dict_keys_distinct(k) and _dict_keys_distinct(v) for k, v in t.kids)
    return all(_dict_keys_distinct(k) for k in t.kids)


def mutate_shape(r, shp):
    """Same shape, one leaf moved to another scalar class (an unequal but similar key)."""
    m = shp.clone()
    ls = m.leaves([])
    if not ls:
        return None
    leaf = r.choice(ls)
    numeric = leaf.cname in NUM_CLASSES
    cands = [c for c in (NUM_CLASSES if numeric else HIST_CLASSES) if c != leaf.cname]
    leaf.cname = r.choice(cands)
    return m


def random_batch(r, nbase):
    terms = []
    seen = set()

    def add(t):
        if t is not None and t.src not in seen and len(t.src) < 400:
            seen.add(t.src)
            terms.append(t)
    for _ in range(nbase):
        shp = rand_shape(r, 3, WEIGHTED + ["nan1i", "nan2i"] if r.random() < 0.15 else None)
        add(render_ok(r, shp, "full"))
        add(render_ok(r, shp, "full"))
        add(render_ok(r, shp, r.choice(["full", "plain"])))
        m = mutate_shape(r, shp)
        if m is not None:
            add(render_ok(r, m, "full"))
    r.shuffle(terms)
    return terms


# ---------------------------------------------------------------- history monitor: the model

NODEF = object()


class MD:
    """Model dictionary: class key -> [stored representative term, value]."""

    def __init__(self):
        self.m = {}
        self.dflt = NODEF

    def copy(self):
        c = MD()
        c.m = {k: [t, v] for k, (t, v) in self.m.items()}
        c.dflt = self.dflt
        return c

    def put(self, t, v):
        if t.ck in self.m:
            self.m[t.ck][1] = v       # like a hash map: the old key object stays (not compared anyway)
        else:
            self.m[t.ck] = [t, v]

    def reps(self):
        return [t for t, _v in self.m.values()]

    def show(self):
        body = ", ".join("%s: %s" % (t.src, vsrc(v)) for t, v in self.m.values())
        if self.dflt is not NODEF:
            body = ":%s%s" % (vsrc(self.dflt), ", " + body if body else "")
        return "{%s}" % body


def cjson(c):
    return json.dumps(c, sort_keys=True)


def cmp_dict(obs, md):
    """Observed canonical dict against the model: keys up to ==, values exactly. -> symptom text or None."""
    if not isinstance(obs, dict) or "d" not in obs:
        return "not a dictionary: %s" % json.dumps(obs)[:120]
    seen = {}
    for kc, vc in obs["d"]:
        try:
            ck = ckey(from_canon(kc))
        except TypeError:
            return "unexpected key %s" % json.dumps(kc)[:80]
        if ck in seen:
            return "two entries with equal keys: %s and %s" % (json.dumps(norm(seen[ck][0])), json.dumps(norm(kc)))
        seen[ck] = (kc, vc)
    for ck, (t, v) in md.m.items():
        if ck not in seen:
            return "entry for key %s missing (%d entries, model has %d)" % (t.src, len(seen), len(md.m))
        if norm(seen[ck][1]) != to_canon(v):
            return "value at key %s is %s, model has %s" % (t.src, json.dumps(norm(seen[ck][1]))[:80], vsrc(v))
    for ck, (kc, _vc) in seen.items():
        if ck not in md.m:
            return "unexpected entry with key %s" % json.dumps(norm(kc))[:80]
    return None


def key_multiset(lst):
    return collections.Counter(ckey(from_canon(x)) for x in lst)


def check_result(exp, ev):
    """-> symptom text or None"""
    o = ev.get("o")
    kind = exp[0]
    if kind == "any":
        return None if o in ("ok", "throw") else "outcome %s" % o
    if kind == "throw":
        return None if o == "throw" else "expected an error, got %s %s" % (o, json.dumps(norm(ev.get("v")))[:80])
    if o != "ok":
        return "raised %s" % (ev.get("err") or o)[:160]
    if kind == "ok":
        return None
    v = ev.get("v")
    if kind == "val":
        want = to_canon(exp[1])
        return None if norm(v) == want else "result %s, model %s" % (json.dumps(norm(v))[:100], json.dumps(want)[:100])
    if kind == "dict":
        return cmp_dict(v, exp[1])
    if not isinstance(v, dict) or "l" not in v:
        return "result is not a list: %s" % json.dumps(norm(v))[:100]
    lst = v["l"]
    try:
        if kind == "keys":
            got = key_multiset(lst)
            want = collections.Counter(exp[1])
            return None if got == want else "keys differ: %d observed (%d classes), model %d" % (len(lst), len(got), len(exp[1]))
        if kind == "ukeys":
            got = [ckey(from_canon(x)) for x in lst]
            return None if got == exp[1] else "%d elements observed %s, model has %d classes" % (
                len(got), json.dumps(norm(lst))[:120], len(exp[1]))
        if kind == "vals":
            got = collections.Counter(cjson(norm(x)) for x in lst)
            want = collections.Counter(cjson(to_canon(x)) for x in exp[1])
            return None if got == want else "values differ: %s" % json.dumps(norm(lst))[:120]
        if kind == "items":
            got = collections.Counter()
            for it in lst:
                k, x = it["l"]
                got[(ckey(from_canon(k)), cjson(norm(x)))] += 1
            want = collections.Counter((ck, cjson(to_canon(x))) for ck, x in exp[1])
            return None if got == want else "items differ: %s" % json.dumps(norm(lst))[:160]
        if kind == "groups":
            got = collections.Counter(cjson(norm(g)) for g in lst)
            want = collections.Counter(cjson({"l": [to_canon(x) for x in g]}) for g in exp[1])
            return None if got == want else "groups differ: %s" % json.dumps(norm(lst))[:200]
    except (TypeError, KeyError, ValueError):
        return "malformed result %s" % json.dumps(norm(v))[:120]
    raise KeyError(kind)


# ---------------------------------------------------------------- history monitor: the generator

PRELUDE = ["d := {}", "e := {}", "cnt := 0", "m := memoize(\\x -> (cnt += 1; cnt))",
           "m2 := memoize(\\x, y -> (cnt += 1; cnt))"]
OPF = {"+": lambda a, b: a + b, "*": lambda a, b: a * b, "max": max, "min": min, "-": lambda a, b: a - b}
GROUP = {
    "lit": "literal", "lit_e": "literal", "setlit": "literal", "splat": "literal",
    "index": "read", "safe": "read", "in": "read",
    "assign": "write", "opassign": "write", "opassign_lhs_default": "write", "remove": "write",
    "add": "write", "discard": "write", "insert": "write",
    "union": "merge", "inter": "merge", "diff": "merge", "addmerge": "merge",
    "set": "build", "dict": "build", "unique": "build", "frequencies": "build", "count_distinct": "build",
    "group_all": "build",
    "keys": "view", "values": "view", "items": "view", "len": "view",
    "eqdict": "eqdict", "memoize": "memoize", "bulk": "write", "bulk_memo": "memoize",
}
OPS = [("lit", 3), ("lit_e", 4), ("setlit", 1), ("splat", 2), ("index", 6), ("safe", 4), ("in", 5), ("assign", 7),
       ("opassign", 5), ("opassign_lhs_default", 3), ("remove", 4), ("add", 3), ("discard", 3), ("insert", 4),
       ("union", 4), ("inter", 3), ("diff", 3), ("addmerge", 3), ("set", 3), ("dict", 3), ("unique", 3),
       ("frequencies", 3), ("count_distinct", 3), ("group_all", 3), ("keys", 2), ("values", 2), ("items", 2),
       ("len", 2), ("eqdict", 4), ("memoize", 5), ("bulk", 2), ("bulk_memo", 0.4)]
OP_NAMES = [o for o, _w in OPS]
OP_WEIGHTS = [w for _o, w in OPS]


class Hist:
    def __init__(self, r, profile):
        self.r = r
        self.profile = profile
        ncls = r.choice([2, 3, 3, 4, 5])
        scal = []
        while len(scal) < ncls:
            c = r.choice(WEIGHTED)
            if c not in HASHLAW_ONLY and c not in scal:
                scal.append(c)
        shapes = []
        cks = set()
        want = r.choice([4, 5, 6, 7, 8])
        tries = 0
        while len(shapes) < want and tries < 60:
            tries += 1
            k = r.random()
            if k < 0.5:
                shp = Shape("a", (), r.choice(scal))
            else:
                shp = rand_shape(r, r.choice([1, 1, 2]), scal)
            t = render_ok(r, shp, profile)
            if t is None or t.ck in cks or len(t.src) > 120:
                continue
            cks.add(t.ck)
            shapes.append(shp)
        self.shapes = shapes
        self.d = MD()
        self.e = MD()
        self.memo1 = {}
        self.memo2 = {}
        self.cnt = 0
        self.cross = 0          # statements addressing an entry through a key of other numeric levels

    def key(self):
        for _ in range(20):
            t = render_ok(self.r, self.r.choice(self.shapes), self.profile)
            if t is not None:
                return t
        return ONE_V

    def val(self):
        k = self.r.random()
        if k < 0.72:
            return self.r.randint(0, 60)
        if k < 0.82:
            return None
        if k < 0.92:
            return "s%d" % self.r.randint(0, 5)
        return [self.r.randint(0, 9) for _ in range(self.r.randint(0, 2))]

    def note_cross(self, md, k):
        ent = md.m.get(k.ck)
        if ent is not None and leafdiff(ent[0], k, set(), True):
            self.cross += 1

    def keylist(self, lo, hi):
        return [self.key() for _ in range(self.r.randint(lo, hi))]

    def entries_src(self, ents):
        return ", ".join("%s: %s" % (k.src, vsrc(v)) for k, v in ents)

    # each generator returns (stmt, expectation, involved terms) and updates the model, or None to re-pick
    def step(self, op):
        r, d, e = self.r, self.d, self.e
        if op in ("lit", "lit_e"):
            ents = [(self.key(), self.val()) for _ in range(r.choice([0, 1, 2, 3, 3, 4, 5, 6]))]
            md = MD()
            for k, v in ents:
                md.put(k, v)
            body = self.entries_src(ents)
            if r.random() < 0.3:
                md.dflt = r.randint(0, 9)
                body = ":%d%s" % (md.dflt, ", " + body if body else "")
            if op == "lit":
                self.d = md
                return "d = {%s}" % body, ("ok",), [k for k, _v in ents]
            self.e = md
            return "e = {%s}" % body, ("ok",), [k for k, _v in ents]
        if op == "setlit":
            ks = self.keylist(1, 5)
            md = MD()
            for k in ks:
                md.put(k, None)
            self.e = md
            return "e = {%s}" % ", ".join(k.src for k in ks), ("ok",), ks
        if op == "splat":
            k, v = self.key(), self.val()
            md = d.copy()
            md.dflt = NODEF
            self.note_cross(d, k)
            md.put(k, v)
            return "{...d, %s: %s}" % (k.src, vsrc(v)), ("dict", md), [k] + d.reps()
        if op in ("index", "safe", "in"):
            k = self.key()
            self.note_cross(d, k)
            ent = d.m.get(k.ck)
            inv = [k] + d.reps()
            if op == "in":
                return "%s in d" % k.src, ("val", 1 if ent else 0), inv
            if ent:
                exp = ("val", ent[1])
            elif d.dflt is not NODEF:
                exp = ("val", d.dflt)
            else:
                exp = ("throw",) if op == "index" else ("val", None)
            return ("d[%s]" % k.src if op == "index" else "d !? %s" % k.src), exp, inv
        if op == "assign":
            k, v = self.key(), self.val()
            self.note_cross(d, k)
            inv = [k] + d.reps()
            d.put(k, v)
            return "d[%s] = %s" % (k.src, vsrc(v)), ("ok",), inv
        if op in ("opassign", "opassign_lhs_default"):
            k = self.key()
            f = r.choice(sorted(OPF))
            x = r.randint(1, 9)
            ent = d.m.get(k.ck)
            inv = [k] + d.reps()
            if ent is not None and not (isinstance(ent[1], int) and abs(ent[1]) < 10 ** 12):
                return None
            if op == "opassign":
                stmt = "d[%s] %s= %d" % (k.src, f, x)
                if ent is None and d.dflt is NODEF:
                    return stmt, ("throw",), inv
                base = ent[1] if ent else d.dflt
            else:
                if d.dflt is not NODEF:
                    return None
                c = r.randint(0, 5)
                stmt = "(d[%s] = %d) %s= %d" % (k.src, c, f, x)
                base = ent[1] if ent else c
            self.note_cross(d, k)
            d.put(k, OPF[f](base, x))
            return stmt, ("ok",), inv
        if op == "remove":
            k = self.key()
            self.note_cross(d, k)
            inv = [k] + d.reps()
            ent = d.m.get(k.ck)
            if ent is None:
                return "remove d[%s]" % k.src, ("any",), inv
            del d.m[k.ck]
            return "remove d[%s]" % k.src, ("val", ent[1]), inv
        if op in ("add", "discard", "insert"):
            k = self.key()
            self.note_cross(d, k)
            inv = [k] + d.reps()
            md = d.copy()
            if op == "add":
                md.put(k, None)
                expr = "d |. %s" % k.src
                short = "d |.= %s" % k.src
            elif op == "discard":
                md.m.pop(k.ck, None)
                expr = "d -. %s" % k.src
                short = "d -.= %s" % k.src
            else:
                v = self.val()
                md.put(k, v)
                expr = "d insert [%s, %s]" % (k.src, vsrc(v))
                short = "d insert= [%s, %s]" % (k.src, vsrc(v))
            form = r.random()
            if form < 0.35:
                return expr, ("dict", md), inv
            self.d = md
            return (short if form < 0.6 else "d = " + expr), ("ok",), inv
        if op in ("union", "inter", "diff", "addmerge"):
            a, b, an, bn = d, e, "d", "e"
            if op != "addmerge" and r.random() < 0.25:
                a, b, an, bn = e, d, "e", "d"
            inv = a.reps() + b.reps()
            md = a.copy()
            if op == "union":
                for ck, (t, v) in b.m.items():
                    md.put(t, v)
                sym = "||"
            elif op == "inter":
                md.m = {ck: tv for ck, tv in md.m.items() if ck in b.m}
                sym = "&&"
            elif op == "diff":
                md.m = {ck: tv for ck, tv in md.m.items() if ck not in b.m}
                sym = "--"
            else:
                for ck, (t, v) in b.m.items():
                    if ck in md.m:
                        old = md.m[ck][1]
                        if not (isinstance(old, int) and isinstance(v, int)):
                            return None
                        md.m[ck][1] = old + v
                    else:
                        md.put(t, v)
                sym = "||+"
            for ck, (t, _v) in b.m.items():
                if ck in a.m and leafdiff(a.m[ck][0], t, set(), True):
                    self.cross += 1
                    break
            expr = "%s %s %s" % (an, sym, bn)
            if an == "d" and r.random() < 0.5:
                self.d = md
                return "d = " + expr, ("ok",), inv
            return expr, ("dict", md), inv
        if op in ("set", "dict"):
            md = MD()
            if op == "set":
                ks = self.keylist(0, 6)
                for k in ks:
                    md.put(k, None)
                expr = "set([%s])" % ", ".join(k.src for k in ks)
            else:
                ents = [(self.key(), self.val()) for _ in range(r.randint(0, 5))]
                ks = [k for k, _v in ents]
                for k, v in ents:
                    md.put(k, v)
                expr = "dict([%s])" % ", ".join("[%s, %s]" % (k.src, vsrc(v)) for k, v in ents)
            form = r.random()
            if form < 0.4:
                return expr, ("dict", md), ks
            if form < 0.8:
                self.e = md
                return "e = " + expr, ("ok",), ks
            self.d = md
            return "d = " + expr, ("ok",), ks
        if op in ("unique", "frequencies", "count_distinct", "group_all"):
            ks = self.keylist(1, 7)
            lst = "[%s]" % ", ".join(k.src for k in ks)
            order = []
            groups = collections.OrderedDict()
            for k in ks:
                if k.ck not in groups:
                    order.append(k.ck)
                groups.setdefault(k.ck, []).append(k)
            if any(len(set(x.src for x in g)) > 1 and leafdiff(g[0], x, set(), True) for g in groups.values() for x in g):
                self.cross += 1
            if op == "unique":
                return "unique(%s)" % lst, ("ukeys", order), ks
            if op == "frequencies":
                md = MD()
                for ck, g in groups.items():
                    md.m[ck] = [g[0], len(g)]
                return "frequencies(%s)" % lst, ("dict", md), ks
            if op == "count_distinct":
                form = r.choice(["count_distinct(%s)", "count_distinct(%s, \\x -> [x, 0])", "len(set(%s))"])
                return form % lst, ("val", len(groups)), ks
            fsrc = r.choice(["\\x -> x", "\\x -> [x, 1]", "\\x -> {x: 0}", "\\x -> 0"])
            if fsrc == "\\x -> 0":
                want = [[k.val for k in ks]]
            else:
                want = [[k.val for k in g] for g in groups.values()]
            return "%s group_all (%s)" % (lst, fsrc), ("groups", want), ks
        if op in ("keys", "values", "items", "len"):
            md, name = (d, "d") if r.random() < 0.75 else (e, "e")
            if op == "keys":
                return "keys(%s)" % name, ("keys", list(md.m.keys())), md.reps()
            if op == "values":
                return "values(%s)" % name, ("vals", [v for _t, v in md.m.values()]), md.reps()
            if op == "items":
                return "items(%s)" % name, ("items", [(ck, v) for ck, (_t, v) in md.m.items()]), md.reps()
            return "len(%s)" % name, ("val", len(md.m)), md.reps()
        if op == "eqdict":
            if r.random() < 0.25:
                same = set(d.m) == set(e.m) and all(to_canon(d.m[ck][1]) == to_canon(e.m[ck][1]) for ck in d.m)
                for ck in d.m:
                    if ck in e.m and leafdiff(d.m[ck][0], e.m[ck][0], set(), True):
                        self.cross += 1
                        break
                return r.choice(["d == e", "e == d"]), ("val", 1 if same else 0), d.reps() + e.reps()
            ents = []
            inv = d.reps()
            for ck, (t, v) in d.m.items():
                alt = self.alt_of(t)
                if leafdiff(alt, t, set(), True):
                    self.cross += 1
                inv.append(alt)
                ents.append((alt, v))
            r.shuffle(ents)
            want = 1
            if r.random() < 0.4:
                want = 0
                how = r.random()
                if ents and how < 0.4:
                    ents.pop()
                elif ents and how < 0.7:
                    k, v = ents[0]
                    ents[0] = (k, (v + 1) if isinstance(v, int) else 77)
                else:
                    fresh = [s for s in (self.key() for _ in range(6)) if s.ck not in d.m]
                    if not fresh:
                        want = 1
                    else:
                        ents.append((fresh[0], 1))
                        inv.append(fresh[0])
            lit = "{%s}" % self.entries_src(ents)
            return (("d == %s" if r.random() < 0.5 else "%s == d") % lit), ("val", want), inv
        if op == "bulk":
            # many filler entries at once (tables beyond the sizes a literal reaches: size-dependent paths of the
            # merge operators), written through int or float spellings of the same keys; d and e get overlapping
            # ranges with different values
            md, name = (d, "d") if r.random() < 0.5 else (e, "e")
            if len(md.m) > 260:
                return None
            n = r.choice([30, 33, 40, 64, 70, 130])
            lo = 1000 + r.choice([0, 16, 35])
            flt = r.random() < 0.4
            sign = 1 if name == "d" else -1
            for i in range(lo, lo + n):
                if ckey(i) in md.m and isinstance(md.m[ckey(i)][0].val, float) != flt:
                    self.cross += 1
                md.put(A("%d.0" % i, float(i), "float") if flt else A(str(i), i, "int"), sign * i)
            key = "i + 0.0" if flt else "i"
            val = "i" if sign > 0 else "0 - i"
            return "for (i <- %d til %d) %s[%s] = %s" % (lo, lo + n, name, key, val), ("ok",), md.reps()[:8]
        if op == "bulk_memo":
            # more distinct arguments than a bounded cache would hold: everything remembered before must still
            # be remembered afterwards
            if len(self.memo1) > 1500:
                return None
            n = r.choice([300, 1030, 1100])
            lo = 5000 + len(self.memo1)
            for i in range(lo, lo + n):
                t = A(str(i), i, "int")
                if t.ck not in self.memo1:
                    self.cnt += 1
                    self.memo1[t.ck] = (t, self.cnt)
            return "for (i <- %d til %d) m(i)" % (lo, lo + n), ("ok",), []
        if op == "memoize":
            if r.random() < 0.7:
                k = self.key()
                prev = [t for t, _n in itertools.islice(self.memo1.values(), 40)]
                if k.ck in self.memo1:
                    if leafdiff(self.memo1[k.ck][0], k, set(), True):
                        self.cross += 1
                else:
                    self.cnt += 1
                    self.memo1[k.ck] = (k, self.cnt)
                return "m(%s)" % k.src, ("val", self.memo1[k.ck][1]), [k] + prev
            k1, k2 = self.key(), self.key()
            ck = (k1.ck, k2.ck)
            prev = [t for ts, _n in self.memo2.values() for t in ts]
            if ck in self.memo2:
                (p1, p2), _n = self.memo2[ck]
                if leafdiff(p1, k1, set(), True) or leafdiff(p2, k2, set(), True):
                    self.cross += 1
            else:
                self.cnt += 1
                self.memo2[ck] = ((k1, k2), self.cnt)
            return "m2(%s, %s)" % (k1.src, k2.src), ("val", self.memo2[ck][1]), [k1, k2] + prev
        raise KeyError(op)

    def alt_of(self, t):
        """Another representation of the class of t (falls back to t)."""
        for shp in self.shapes:
            for _ in range(3):
                a = render_ok(self.r, shp, self.profile)
                if a is None or a.ck != t.ck:
                    break
                if a.src != t.src or self.r.random() < 0.3:
                    return a
        return t


def culprit(involved):
    by = {}
    for t in involved:
        by.setdefault(t.ck, {}).setdefault(t.src, t)
    pairs = set()
    fine = set()
    for g in by.values():
        ts = list(g.values())[:8]
        for i in range(len(ts)):
            for j in range(i + 1, len(ts)):
                leafdiff(ts[i], ts[j], pairs)
                leafdiff(ts[i], ts[j], fine, True)
    return pick_label(pairs) if pairs else pick_label(fine)


RESET = ("d = {}; e = {}; cnt = 0; m = memoize(\\x -> (cnt += 1; cnt)); "
         "m2 = memoize(\\x, y -> (cnt += 1; cnt)); null")
HIST_PER_JOB = 8


def gen_history(r, nsteps):
    profile = "full" if r.random() < 0.5 else "plain"
    h = Hist(r, profile)
    steps = []
    first = h.step("lit")
    steps.append(("lit",) + first + (h.d.copy(), h.e.copy()))
    while len(steps) < nsteps + 1:
        op = r.choices(OP_NAMES, OP_WEIGHTS)[0]
        before_cross = h.cross
        res = h.step(op)
        if res is None:
            h.cross = before_cross
            continue
        steps.append((op,) + res + (h.d.copy(), h.e.copy()))
    return h, steps


def run_histories(sh, w, r, nsteps, count, idx0):
    """Several histories per harness job; each starts by resetting d, e, the counter and the memoised
    functions, so the histories are independent (a replay runs one of them alone after PRELUDE)."""
    hs = [gen_history(r, nsteps) for _ in range(count)]
    stmts = []
    for _h, steps in hs:
        stmts.append(RESET)
        stmts.extend(s[1] for s in steps)
    evs = core.eval_all(w, stmts, prelude=PRELUDE, fresh_each=False, fuel=2_000_000, jid="c09-%d" % idx0,
                        observe=["d", "e"])
    pos = 0
    for k, (h, steps) in enumerate(hs):
        reset_ev = evs[pos]
        hev = evs[pos + 1:pos + 1 + len(steps)]
        pos += 1 + len(steps)
        if reset_ev.get("o") != "ok":
            sh.inconc("reset:" + str(reset_ev.get("o")), RESET)
            continue
        judge_history(sh, h, steps, hev, idx0 + k)


def judge_history(sh, h, steps, evs, idx):
    profile = h.profile
    stmts = [s[1] for s in steps]
    text = "\n".join(stmts)
    sh.seen(profile + "\n" + text, h.cross > 0)
    sh.count("hist:profile_" + profile)
    sh.count("hist:cross_level_addressings", h.cross)
    levs = set()
    for shp in h.shapes:
        for lf in shp.leaves([]):
            for a in usable_atoms(lf.cname, profile):
                levs.add(a.lev)
    for lv in levs:
        sh.count("hist:histories_with_level_" + lv)
    completed = 0
    for i, (st, ev) in enumerate(zip(steps, evs)):
        op, stmt, exp, involved, md, me = st
        o = ev.get("o")
        if o in STOP or o == "panic" or o == "parse":
            sh.inconc(o if o != "crash" else "crash:" + str(ev.get("why")), stmt[:200])
            break
        sh.count("op:" + op)
        sym = check_result(exp, ev)
        if sym is None:
            vars_ = ev.get("vars") or {}
            sym = cmp_dict(vars_.get("d"), md)
            if sym is not None:
                sym = "d afterwards: " + sym
            else:
                sym = cmp_dict(vars_.get("e"), me)
                if sym is not None:
                    sym = "e afterwards: " + sym
        if sym is not None:
            lab = culprit(involved)
            key = "C09|hist|%s" % lab if lab != "same" else "C09|hist|same|%s" % op
            before = steps[i - 1][4].show() if i else "{}"
            sh.count("hist:first_divergence_at_op_" + op)
            sh.count("hist:first_divergence_%s_%s" % (GROUP[op], lab))
            viol(sh, key, "%s `%s` (step %d; d before = %s): %s" % (op, stmt[:160], i, before[:200], sym[:260]),
                 {"job": {"kind": "eval", "prelude": PRELUDE, "stmts": stmts[:i + 1], "observe": ["d", "e"],
                          "fuel": 2_000_000},
                  "expected": {"step": i, "result": _exp_text(exp), "d": md.show(), "e": me.show()}})
            break
        completed += 1
    sh.count("hist:steps_checked", completed)
    if completed == len(steps):
        sh.count("hist:completed_histories")
        if idx % 400 == 0:
            sh.sample({"profile": profile, "history": stmts[:12], "final_d_model": h.d.show()[:300],
                       "final_d_observed": (evs[-1].get("vars") or {}).get("d")})


def _exp_text(exp):
    if exp[0] == "val":
        return to_canon(exp[1])
    if exp[0] == "dict":
        return exp[1].show()
    if exp[0] in ("ok", "throw", "any"):
        return exp[0]
    return "%s (order-insensitive, keys up to ==): %d elements" % (exp[0], len(exp[1]))


# ---------------------------------------------------------------- shard

def shard(ctx, si, n):
    sh = core.Shard("C09")
    plan = ctx.plan
    w = core.Worker()
    try:
        # fixed pool: every shard runs the job in its own order (the lookup check depends on the order), the
        # matrix / == rows are divided between the shards, the hash groups are judged by every shard's run
        pool = fixed_pool()
        order = list(range(len(pool)))
        if si:
            core.rng_for("C09", 0, si, "order").shuffle(order)
        terms = [pool[i] for i in order]
        rows = [pos for pos, i in enumerate(order) if i % n == si]
        run_hashlaw(sh, w, terms, "fixed", rows=rows, check_hash=True, cross_eq=True)
        if si == 0:
            sh.count("hashlaw:fixed_pool_size", len(pool))
            sh.sample({"hashlaw_fixed_pool_first": [t.src for t in pool[:14]], "size": len(pool)})
        r = core.rng_for("C09", ctx.seed, si)
        for _b in range(plan["rand_batches"]):
            terms = random_batch(r, plan["batch_terms"])
            run_hashlaw(sh, w, terms, "random", rows=None, check_hash=True, cross_eq=True)
            sh.count("hashlaw:random_batches")
        total = plan["histories"] // n + (1 if si < plan["histories"] % n else 0)
        hidx = 0
        while hidx < total:
            k = min(HIST_PER_JOB, total - hidx)
            run_histories(sh, w, r, plan["steps"], k, hidx)
            hidx += k
    finally:
        w.close()
    return sh
