"""C15  Lexing and parsing are total; number/string literals decode exactly.

Sub-monitors
  fuzz      `parse` (only parse, nothing is evaluated) on token soups, mutated corpus programs,
            truncations, splices and pathological shapes, under catch_unwind with write-ahead
            attribution: the outcome must be ok / parse error, never a panic or a crash; a per-input
            CPU budget (20 s, >= 400x the normal cost) detects non-termination: an input that exceeds
            it is re-run alone with 120 s and only then reported as a hang
  scaling   pathological families at sizes n, 2n, 4n: CPU-time ratio recorded (reported, not a verdict)
  literals  Python renders random values in every literal syntax; the evaluated canonical value must be
            the value the digits/escapes spell; out-of-range escapes must be parse errors
"""
import glob
import os
import re
from fractions import Fraction
from .. import core
from ..values import norm, to_canon, f2bits

RULE = ("fuzz cases = input texts (<= 64 KiB, bracket nesting <= 150) from: random token soups over the real token "
        "alphabet, char/word-level mutations, truncations and splices of the corpus (tests/test.rs programs, examples, "
        "noulib, README code), pathological shapes; literal cases = (value, literal syntax) pairs; distinct = distinct "
        "input text; non-trivial = the input contains at least 2 tokens (fuzz) / every literal case")
ASSUMPTIONS = ["parse has no step hook: non-termination is decided by CPU time of the worker (20 s then 120 s alone), inputs are <= 64 KiB",
               "nesting deeper than 150 brackets is outside the explored space (recursive-descent parser, 1 GiB stack in the harness)",
               "Python float()/int() are the reference for decimal->binary conversion (both correctly rounded)"]
PLAN = {"quick": {"fuzz": 1000000, "literals": 60000, "shards": 32},
        "thorough": {"fuzz": 12000000, "literals": 500000, "shards": 128}}
REG = dict(level="exploration", min_nontrivial=20000,
           technique="panic/abort/CPU-budget monitor with write-ahead attribution over seeded grammar/mutation fuzzing of parse(), plus reference-model monitor (Python renders literals, decoded value compared)",
           claim="parse() returned a tree or a parse error on every generated text (no panic, no crash, no CPU-budget overrun) and every rendered literal evaluated to exactly the intended value; exploration over generated texts only.",
           note="Trusts catch_unwind/write-ahead attribution and CPython's int/float parsing as reference; nesting > 150 and inputs > 64 KiB not explored; termination judged by CPU time with a >= 400x margin because parse has no logical-step hook.")

KEYWORDS = ["if", "else", "while", "for", "yield", "into", "switch", "case", "null", "and", "or", "coalesce", "break", "try",
            "catch", "throw", "continue", "return", "consume", "pop", "remove", "swap", "every", "struct", "freeze", "import",
            "literally", "_", "__internal_frame", "__internal_push", "__internal_pop", "__internal_peek", "__internal_0",
            "__internal_while", "__internal_for", "__internal_call", "__internal_lambda"]
PUNCT = ["(", ")", "[", "]", "{", "}", "`", "\\", "\\\\", ",", ";", ":", "::", "!", "...", "<-", "->", "<<-", "=", ":=", "?",
         "+", "-", "*", "/", "%", "^", "<", ">", "<=", ">=", "==", "!=", "+=", "++", "**", "&&", "||", "|.", ".+", "$", "~", ".",
         "..", "=>", "//", "%%", "<=>", "∧", "∨", "×", "∘", "≤", "#", "#(", "'", '"', "F\"", "B\"", "R\"", "B[", "F'", "R'", "@", "🐉",
         " ", "\n", "\t", "\r"]
ATOMS = ["0", "1", "42", "3.5", "1e5", "1e-5", "2.", "0x1F", "0b101", "0o17", "36rZZ", "64rAb+/", "7q", "2i", "1.5j", "3f", "99r1",
         "1r1", "0r", "1e", "x", "y", "f", "foo", "a'", "b?", "len", "print", "V", "B", "F", "R", "é", "λ", "\"abc\"", "'x'",
         "\"a\\nb\"", "\"\\u{41}\"", "\"\\x41\"", "F\"{x}\"", "F\"{x #x}\"", "F\"{{}}\"", "F\"{x:5}\"", "B\"ab\"", "R\"a\\b\"",
         "\"\\", "\"\\u", "\"\\u{", "\"\\x", "\"\\x4", "F\"{", "F\"{x", "F\"}", "F\"{}\"", "F\"{#x}\"", "F\"{x #}\"", "#(", "#( ( )", "# c\n",
         "1\u00b2", "7\u0663", "3\u00bd", "2\u2461", "\u0663", "\u00b2", "x\u00b2", "1\u0967", "0x\u0663", "12r\u0661", "1\u00b2.5", "\uff11\uff12", "5\u2082"]


def load_corpus():
    texts = []
    try:
        t = open("/repo/tests/test.rs", encoding="utf-8").read()
        for m in re.finditer(r'simple_eval\(\s*"((?:[^"\\]|\\.)*)"', t, re.S):
            s = m.group(1)
            s = re.sub(r'\\\n\s*', '', s)
            s = s.replace('\\"', '"').replace("\\\\", "\\").replace("\\n", "\n").replace("\\t", "\t")
            texts.append(s)
    except Exception:
        pass
    for pat in ("/repo/examples/*.noul", "/repo/noulib/*.noul"):
        for f in sorted(glob.glob(pat)):
            try:
                texts.append(open(f, encoding="utf-8").read())
            except Exception:
                pass
    try:
        readme = open("/repo/README.md", encoding="utf-8").read()
        for m in re.finditer(r"```\w*\n(.*?)```", readme, re.S):
            texts.append(m.group(1))
    except Exception:
        pass
    texts = [t for t in texts if t.strip()]
    return texts


WORD = re.compile(r"\s+|\w+|[^\w\s]+", re.U)


def depth_ok(s):
    d = 0
    mx = 0
    for ch in s:
        if ch in "([{":
            d += 1
            mx = max(mx, d)
        elif ch in ")]}":
            d = max(0, d - 1)
    # keyword-driven nesting (if/else/lambda chains) also recurses: bound those by count
    kw = s.count("if") + s.count("\\") + s.count("switch") + s.count("for") + s.count("while") + s.count("try") + s.count("else")
    return mx <= 150 and kw <= 4000


def gen_soup(r):
    n = r.choice([1, 2, 3, 5, 8, 13, 21, 40, 80])
    parts = []
    for _ in range(n):
        k = r.random()
        if k < 0.35:
            parts.append(r.choice(PUNCT))
        elif k < 0.55:
            parts.append(r.choice(KEYWORDS))
        else:
            parts.append(r.choice(ATOMS))
        if r.random() < 0.5:
            parts.append(" ")
    return "".join(parts)


def mutate(r, corpus):
    s = r.choice(corpus)
    if len(s) > 3000:
        a = r.randrange(0, len(s) - 1500)
        s = s[a:a + r.randint(50, 1500)]
    words = WORD.findall(s)
    k = r.random()
    if not words:
        return s
    if k < 0.15:     # truncate at a random byte
        return s[:r.randrange(0, len(s) + 1)]
    if k < 0.30:     # delete a token
        i = r.randrange(len(words))
        del words[i]
    elif k < 0.45:   # duplicate a token
        i = r.randrange(len(words))
        words.insert(i, words[i])
    elif k < 0.60:   # swap two tokens
        i, j = r.randrange(len(words)), r.randrange(len(words))
        words[i], words[j] = words[j], words[i]
    elif k < 0.75:   # insert a foreign token
        words.insert(r.randrange(len(words) + 1), r.choice(PUNCT + KEYWORDS + ATOMS))
    elif k < 0.85:   # unbalance one delimiter
        idx = [i for i, w_ in enumerate(words) if any(c in w_ for c in "()[]{}\"'")]
        if idx:
            i = r.choice(idx)
            words[i] = words[i][:-1]
    elif k < 0.93:   # splice two programs
        t = r.choice(corpus)
        return s[:r.randrange(0, len(s) + 1)] + t[r.randrange(0, len(t) + 1):][:2000]
    else:            # replace a char by a random one
        i = r.randrange(len(s))
        return s[:i] + r.choice(["\\", "\"", "'", "{", "}", "(", ")", "#", "\u00e9", "0", "e", "r", ".", "\x00", "\u2028", "🐉",
                                 "\u00b2", "\u0663", "\u00bd", "\u2461", "\uff11", "\u2082", "\u0967"]) + s[i + 1:]
    return "".join(words)


def pathological(r):
    k = r.randrange(32)
    n = r.choice([1, 2, 10, 100, 1000, 20000])
    d = r.choice([1, 5, 50, 150])
    if k == 0:
        return "9" * n
    if k == 1:
        return "\"" + "a" * n
    if k == 2:
        return "#(" + "(" * min(n, 60000)
    if k == 3:
        return "F\"{" + "x" * min(n, 5000)
    if k == 4:
        return "\"\\u" + r.choice(["", "{", "(", "[", "<"]) + "f" * r.randint(0, 14) + r.choice(["", "}", ")", "]", ">", "\""]) + "\""
    if k == 5:
        return "(" * d + "1" + ")" * d
    if k == 6:
        return "[" * d + "]" * d
    if k == 7:
        return "{" * d + "1" + "}" * d
    if k == 8:
        return "if (1) " * d + "2"
    if k == 9:
        return "\\x -> " * d + "x"
    if k == 10:
        return "switch (1) case 1 -> " * d + "2"
    if k == 11:
        return "1 + " * min(n, 3000) + "1"
    if k == 12:
        return "f(" * d + ")" * r.randint(0, d)
    if k == 13:
        return "0x" + "f" * n
    if k == 14:
        return str(r.randint(0, 99)) + "r" + "z" * r.randint(0, 40)
    if k == 15:
        return "1." + "0" * n + r.choice(["", "e", "e-", "e5", "f", "i", "e99999999"])
    if k == 16:
        return "x" + "'" * min(n, 1000)
    if k == 17:
        return "a" + " b" * min(n, 3000)
    if k == 18:
        return "F\"" + "{x}" * min(n, 2000) + "\""
    if k == 19:
        return "F\"{" + "{" * d + "}" * r.randint(0, d + 1) + "\""
    if k == 20:
        return "B\"" + "\\x" + r.choice(["", "f", "ff", "gg", "f\""])
    if k == 21:
        return "x" + "[0]" * min(n, 2000)
    if k == 22:
        return "1" + r.choice(["e", "E", "r", "q", "f", "i", "x", "b", "o"]) * r.randint(1, 4) + r.choice(["", "1", "-", "-1"])
    if k == 23:
        return "a " + "=" * r.randint(1, 5) + r.choice(["", " 1", "="])
    if k == 24:
        return ", " * min(n, 1000)
    if k == 26:
        # format flags (parsed at parse time out of the `#...` comment of a format expression)
        digits = r.choice(["0", "9", "1", "18446744073709551615", "18446744073709551616"]) if r.random() < 0.4 else "9" * r.choice([1, 5, 19, 20, 21, 40, 400])
        flag = r.choice(["", "x", "X", "b", "o", "d", "<", ">", "^", "0", " ", "-", ".", "e", "r"])
        return "F\"{x #" + r.choice(["", flag]) + digits + r.choice(["", flag, "." + digits]) + "}\""
    if k == 27:
        return "F\"{x " + r.choice([":", "::", "$", "#", "# #", "#(", "#)"]) + "9" * r.choice([1, 20, 40]) + "}\""
    if k == 28:
        # radix literals of every base at lengths around the machine-word boundaries
        b = r.randint(2, 36)
        digs = "0123456789abcdefghijklmnopqrstuvwxyz"[:b]
        return "%dr%s" % (b, "".join(r.choice(digs) for _ in range(r.choice([1, 12, 13, 14, 15, 16, 17, 20, 33, 64, 65, 70, 200]))))
    if k in (30, 31):
        # characters that are numeric / alphabetic for Unicode but not ASCII digits, glued to number tokens
        odd = r.choice(["\u00b2", "\u0663", "\u00bd", "\u2461", "\uff11", "\u2082", "\u0967", "\u216b", "\u3007"])
        head = r.choice(["1", "42", "0x1f", "36rz", "7", "1.5", "2e3", "0b1", "9q", "3i"])
        return r.choice([head + odd, head + odd + "1", odd + head, head + odd + " + 1", "[" + head + odd + "]", head + "r" + odd])
    if k == 29:
        return r.choice(["0x", "0b", "0o", "0X"]) + "".join(r.choice("01") for _ in range(r.choice([1, 31, 32, 63, 64, 65, 128, 129, 1000])))
    return "try " * d + "1" + " catch x -> 2" * r.randint(0, d)


def run_fuzz(sh, w, r, count, corpus):
    done = 0
    while done < count:
        batch = []
        while len(batch) < 500:
            k = r.random()
            if k < 0.40:
                s = gen_soup(r)
                cat = "soup"
            elif k < 0.85 and corpus:
                s = mutate(r, corpus)
                cat = "mutant"
            else:
                s = pathological(r)
                cat = "patho"
            if len(s.encode("utf-8", "replace")) > 65536 or not depth_ok(s):
                continue
            s = s.encode("utf-8", "replace").decode("utf-8")
            batch.append((s, cat))
        done += len(batch)
        res = w.run({"id": "fz", "kind": "parse", "srcs": [b[0] for b in batch]})
        evs = res["events"]
        for (s, cat), ev in zip(batch, evs):
            judge_parse(sh, w, s, cat, ev)
        for s, cat in batch[len(evs):]:
            sh.inconc("lost", s[:80])


def judge_parse(sh, w, s, cat, ev, alone=False):
    o = ev.get("o")
    nontriv = len(WORD.findall(s)) >= 2
    if not alone:
        sh.seen(s, nontriv)
        sh.count("fuzz:" + cat)
    replay = {"job": {"kind": "parse", "srcs": [s]}}
    if o in ("ok", "err", "empty"):
        sh.count("parse:" + o)
        us = ev.get("us", 0)
        if us > sh.counters.get("max_parse_us", 0):
            sh.counters["max_parse_us"] = us
        if o == "err":
            sh.sample({"input": s[:120], "outcome": "parse error", "err": ev.get("err", "")[:80]}, cap=2)
        return
    if o == "panic":
        p = ev.get("panic") or {}
        msg = re.sub(r"\d+", "N", p.get("msg", ""))[:100]
        fn = p.get("fn", "")[:80]
        sh.violation("parse-panic|%s|%s" % (fn, msg), "parse(%r) panics: %s [%s %s]" % (s[:100], p.get("msg", "")[:100], fn, p.get("loc", "").split("/")[-1]), replay)
        return
    if o == "timeout":
        if alone:
            sh.violation("parse-hang", "parse did not return within 120 s CPU on a %d-byte input: %r" % (len(s), s[:80]), replay)
            return
        # re-run alone with the large budget before calling it a hang
        w2 = core.Worker(cpu_budget=120.0)
        try:
            r2 = w2.run({"id": "fz1", "kind": "parse", "srcs": [s]})
        finally:
            w2.close()
        ev2 = (r2["events"] or [{"o": "lost"}])[0]
        if ev2.get("o") == "timeout":
            judge_parse(sh, w, s, cat, ev2, alone=True)
        else:
            sh.inconc("slow-once", s[:80])
            judge_parse(sh, w, s, cat, ev2, alone=True)
        return
    if o == "crash":
        why = ev.get("why")
        if why == "stack":
            sh.violation("parse-stack-overflow", "parse overflowed a 1 GiB stack on a %d-byte input with nesting <= 150: %r" % (len(s), s[:80]), replay)
        elif why in ("alloc", "killed"):
            sh.inconc("crash:" + why, s[:80])
        else:
            sh.violation("parse-crash|%s" % ev.get("rc"), "parse killed the process (rc=%s) on %r: %s" % (ev.get("rc"), s[:80], ev.get("stderr", "")[-120:]), replay)
        return
    sh.inconc(str(o), s[:80])


def run_scaling(sh, w):
    fams = {
        "digits": lambda n: "9" * n,
        "string": lambda n: "\"" + "a" * n + "\"",
        "comment": lambda n: "#(" + "x" * n + ")",
        "chain": lambda n: "1 + " * (n // 4) + "1",
        "fmt": lambda n: "F\"" + "{x}" * (n // 3) + "\"",
        "index": lambda n: "x" + "[0]" * (n // 3),
        "list": lambda n: "[" + "1, " * (n // 3) + "1]",
        "seq": lambda n: "a; " * (n // 3) + "a",
    }
    for name, f in fams.items():
        n = 4000
        srcs = [f(n), f(2 * n), f(4 * n)]
        res = w.run({"id": "sc", "kind": "parse", "srcs": srcs})
        evs = res["events"]
        if len(evs) == 3 and all(e.get("o") in ("ok", "err") for e in evs):
            t = [max(1, e.get("us", 1)) for e in evs]
            sh.counters["scaling_x100:%s" % name] = int(100 * t[2] / t[0])
        for s, ev in zip(srcs, evs):
            judge_parse(sh, w, s, "scaling", ev)


# ---------------------------------------------------------------- literals

DIG = "0123456789abcdefghijklmnopqrstuvwxyz"
B64 = "ABCDEFGHIJKLMNOPQRSTUVWXYZabcdefghijklmnopqrstuvwxyz0123456789+/"


def to_base(n, b, alphabet=DIG):
    if n == 0:
        return alphabet[0]
    out = []
    while n:
        n, d = divmod(n, b)
        out.append(alphabet[d])
    return "".join(reversed(out))


def rand_case(r, s):
    return "".join(c.upper() if r.random() < 0.5 else c for c in s)


def gen_literal(r):
    """-> (source, expectation) where expectation is ("v", canonical) or ("parse-error",)"""
    k = r.randrange(20)
    if k <= 5:
        bits = r.choice([1, 8, 31, 32, 62, 63, 64, 65, 128, 1000, 16000])
        n = r.getrandbits(bits)
        form = r.choice(["dec", "hex", "bin", "oct", "radix", "radix", "b64", "q"])
        if form == "dec":
            return str(n), ("v", to_canon(n))
        if form == "hex":
            return r.choice(["0x", "0X"]) + rand_case(r, to_base(n, 16)), ("v", to_canon(n))
        if form == "bin":
            return r.choice(["0b", "0B"]) + to_base(n, 2), ("v", to_canon(n))
        if form == "oct":
            return r.choice(["0o", "0O"]) + to_base(n, 8), ("v", to_canon(n))
        if form == "radix":
            b = r.randint(2, 36)
            return "%d%s%s" % (b, r.choice("rR"), rand_case(r, to_base(n, b))), ("v", to_canon(n))
        if form == "b64":
            s = to_base(n, 64, B64)
            s = "".join({"+": r.choice("+-"), "/": r.choice("/_")}.get(c, c) for c in s)
            return "64%s%s" % (r.choice("rR"), s), ("v", to_canon(n))
        return "%d%s" % (n, r.choice("qQ")), ("v", to_canon(Fraction(n)))
    if k <= 9:
        ip = str(r.getrandbits(r.choice([1, 8, 30, 64, 200])))
        fp = "".join(r.choice("0123456789") for _ in range(r.choice([0, 1, 3, 17, 40])))
        e = r.choice(["", "", "e%d" % r.randint(0, 320), "e-%d" % r.randint(0, 340), "E%d" % r.randint(0, 30)])
        form = r.choice(["dot", "dot", "exp", "f", "imag"])
        if form == "dot":
            text = ip + "." + fp + e
            return text, ("v", to_canon(float(text)))
        if form == "exp":
            if not e:
                e = "e3"
            text = ip + e
            return text, ("v", to_canon(float(text)))
        if form == "f":
            text = ip + ("." + fp if r.random() < 0.5 else "")
            return text + r.choice("fF"), ("v", to_canon(float(text)))
        text = ip + ("." + fp if r.random() < 0.5 else "")
        return text + r.choice("iIjJ"), ("v", to_canon(complex(0.0, float(text))))
    if k <= 15:
        # string / bytes / raw literals
        kind = r.choice(["str", "str", "bytes", "raw", "blist"])
        delim = r.choice("\"'")
        if kind == "blist":
            bs = bytes(r.getrandbits(8) for _ in range(r.randint(0, 12)))
            return "B[%s]" % ", ".join(str(b) for b in bs), ("v", to_canon(bs))
        if kind == "raw":
            chars = [r.choice(["a", "Z", " ", "\\", "\\n", "{", "}", "é", "\u4e2d", "\"" if delim == "'" else "'", "#", "\t"]) for _ in range(r.randint(0, 12))]
            body = "".join(chars)
            return "R" + delim + body + delim, ("v", to_canon(body))
        out_src, out_val = [], []
        for _ in range(r.randint(0, 14)):
            t = r.randrange(14)
            if t == 0:
                out_src.append("\\n"); out_val.append("\n")
            elif t == 1:
                out_src.append("\\r"); out_val.append("\r")
            elif t == 2:
                out_src.append("\\t"); out_val.append("\t")
            elif t == 3:
                out_src.append("\\0"); out_val.append("\0")
            elif t == 4:
                out_src.append("\\\\"); out_val.append("\\")
            elif t == 5:
                out_src.append("\\'"); out_val.append("'")
            elif t == 6:
                out_src.append("\\\""); out_val.append("\"")
            elif t == 7:
                v = r.randrange(0, 128 if kind == "bytes" and r.random() < 0.7 else 256)
                out_src.append("\\x" + rand_case(r, "%02x" % v)); out_val.append(chr(v))
            elif t == 8 and kind == "str":
                cp = r.choice([r.randrange(0x20, 0x7f), r.randrange(0xa0, 0xd800), r.randrange(0xe000, 0x110000), 0x10ffff, 0])
                op, cl = r.choice(["{}", "()", "[]", "<>"])
                # any number of leading zeros spells the same scalar value
                hx = "%x" % cp
                if r.random() < 0.35:
                    hx = hx.rjust(r.choice([4, 6, 8, 9, 10, 12, 16, 17, 33, 70]), "0")
                out_src.append("\\u" + op + rand_case(r, hx) + cl); out_val.append(chr(cp))
            elif t == 9 and kind == "str":
                cp = r.choice([r.randrange(0x20, 0x7f), r.randrange(0xa0, 0xd800), r.randrange(0xe000, 0x10000)])
                # unbraced form reads every following hex digit: follow it by a non-hex character
                out_src.append("\\u" + "%04x" % cp + "~"); out_val.append(chr(cp) + "~")
            else:
                # (raw line breaks and tabs are ordinary characters of a literal: CR, LF and CR LF stay what they are)
                c = r.choice(["a", "Z", " ", "é", "\u4e2d", "🐉", "{", "}", "#", "0", "x", "u", "\"" if delim == "'" else "'",
                              "\n", "\r", "\r\n", "\t", "\n\r"])
                out_src.append(c); out_val.append(c)
        body = "".join(out_src)
        val = "".join(out_val)
        if kind == "str":
            return delim + body + delim, ("v", to_canon(val))
        # bytes literal: the escapes spell bytes; \xHH spells the single byte HH, other characters their UTF-8 bytes
        bs = b"".join(bytes([ord(v)]) if s.startswith("\\x") else v.encode("utf-8") for s, v in zip(out_src, out_val))
        return "B" + delim + body + delim, ("v", to_canon(bs), to_canon(val.encode("utf-8")))
    # escapes that must be rejected
    bad = r.choice(["\"\\u{110000}\"", "\"\\u{d800}\"", "\"\\u{dfff}\"", "\"\\u{100000041}\"", "\"\\u{ffffffff}\"",
                    "\"\\u{1000000000000041}\"", "\"\\q\"", "\"\\xg1\"", "\"\\x4\"", "\"\\u{41\"", "\"\\u(41}\"", "\"abc",
                    "\"\\", "'\\u{ffffffffff}'", "\"\\u123456789\"", "B\"\\u{110000}\"", "F\"\\u{110000}\""])
    return bad, ("parse-error",)


def run_literals(sh, w, r, count):
    done = 0
    while done < count:
        cases = [gen_literal(r) for _ in range(300)]
        done += len(cases)
        evs = core.eval_all(w, [c[0] for c in cases], fresh_each=False, fuel=10000, jid="lit")
        for (text, exp), ev in zip(cases, evs):
            sh.seen("lit:" + text, True)
            form = lit_form(text)
            sh.count("literal:" + form)
            o = ev.get("o")
            replay = {"job": {"kind": "eval", "stmts": [text]}, "expected": exp[1] if exp[0] == "v" else "parse error"}
            if o in ("crash", "timeout", "skipped", "fuel", "depth", "lost"):
                sh.inconc("lit:" + o, text[:80])
                continue
            if o == "panic":
                p = ev.get("panic") or {}
                sh.violation("literal-panic|%s|%s" % (form, re.sub(r"\d+", "N", p.get("msg", ""))[:80]),
                             "literal %s panics (%s): %s" % (text[:80], p.get("phase"), p.get("msg", "")[:100]), replay)
                continue
            if exp[0] == "parse-error":
                if o != "parse":
                    sh.violation("literal-accepted|%s" % text[:24], "out-of-range/ill-formed literal %s was accepted: %s %s" % (text, o, str(ev.get("v"))[:60]), replay)
                continue
            if o != "ok":
                sh.violation("literal-rejected|%s" % form, "literal %s -> %s %s" % (text[:100], o, ev.get("err", "")[:80]), replay)
                continue
            got = norm(ev.get("v"))
            if got != exp[1]:
                sub = ""
                if form == "bytes" and len(exp) > 2 and got == exp[2]:
                    # exactly the known defect: \xHH with HH >= 0x80 inside B"..." is stored as the
                    # UTF-8 encoding of U+00HH instead of the single byte HH
                    sub = "|x-escape-ge-0x80-stored-as-utf8"
                sh.violation("literal-wrong|%s%s" % (form, sub), "literal %s decoded to %s, expected %s" % (text[:100], str(got)[:80], str(exp[1])[:80]), replay)
            else:
                sh.sample({"literal": text[:80], "decoded": got if len(str(got)) < 200 else "..."}, cap=4)


def lit_form(text):
    t = text.lower()
    if t.startswith("b[") or t.startswith("b\"") or t.startswith("b'"):
        return "bytes"
    if t.startswith("r\"") or t.startswith("r'"):
        return "raw"
    if t.startswith("f\""):
        return "fmt"
    if t[0] in "\"'":
        return "string"
    if t.startswith("0x"):
        return "hex"
    if t.startswith("0b"):
        return "bin"
    if t.startswith("0o"):
        return "oct"
    if re.match(r"^\d+r", t):
        return "radix64" if t.startswith("64r") else "radix"
    if t.endswith("q"):
        return "rational"
    if t[-1] in "ij":
        return "imaginary"
    if "." in t or "e" in t or t.endswith("f"):
        return "float"
    return "decimal"


def shard(ctx, si, n):
    sh = core.Shard("C15")
    r = core.rng_for("C15", ctx.seed, si)
    w = core.Worker(cpu_budget=20.0)
    try:
        corpus = load_corpus()
        sh.count("corpus_programs", len(corpus) if si == 0 else 0)
        if si == 0:
            run_scaling(sh, w)
            # the corpus itself must parse without panicking
            res = w.run({"id": "corp", "kind": "parse", "srcs": corpus})
            for s, ev in zip(corpus, res["events"]):
                judge_parse(sh, w, s, "corpus", ev)
        run_fuzz(sh, w, r, ctx.plan["fuzz"] // n, corpus)
        run_literals(sh, w, r, ctx.plan["literals"] // n)
    finally:
        w.close()
    return sh
