"""C03  Infix chains group by the operators' runtime precedence and associativity.

Monitor: reference-model monitor.  Every generated chain `e0 f1 e1 ... fn en` is run by the real
interpreter in three surface forms

  direct    the chain itself
  logged    operands wrapped as `(log append= i; e_i)`, operators as `` `(log append= "o_i"; f_i)` ``;
            the value AND the evaluation-order log are compared
  section   `_` at a subset of operand positions, the section applied later to the missing operands
            (also: section bound to a variable and applied twice, with the log watched)

and compared with an oracle that shares no structure with ChainEvaluator: a *recursive* operator-
precedence parser (`parse_chain`) parameterised by the relation "left operator reduces before right
operator" (p_l > p_r, or tie / NaN and the left operator is left-associative) and a chains-with table
(merged applications keep the left operator's precedence and identity), followed by evaluation of the
resulting tree with Python versions of the operators (`APPLY`).

Sub-monitors
  generic   user tree-builders (left-assoc) and aliases of `.+` (right-assoc, `a .+ b == [a] ++ b`) at
            runtime-assigned precedences; ALL chains of 1..4 operators over the 8-value palette
            {L,R} x {4 precedence ranks} are enumerated (quick and thorough); thorough samples 5..7
            operators over random tables with ties, NaN and +-inf precedences
  families  chainable builtins mixed with generic operators at reassigned precedences:
            cmp (comparisons), list (zip/with, **), fold (fold|scan ... from), range (til|to ... by),
            fn (&&&, ***, >>>), str (replace ... with)
  reassign  a chain inside a closure is re-run after `f::precedence = p`, `swap f::precedence, g::precedence`,
            `swap f, g` (user operators and the builtins + - * ^): precedence must be read when the
            chain runs, not when it was parsed
"""
import itertools
import math

from .. import core

RULE = ("cases = (operator table: name -> (function, precedence, associativity) assigned at run time; chain of "
        "1..7 operators over that table; distinct operands; surface form direct / logged / underscore section). "
        "generic: every chain of 1..4 operators over the palette {left-assoc user tree-builder, right-assoc alias "
        "of .+} x {4 precedence ranks} is enumerated, each in the direct form, the logged form, as a section for "
        "every non-empty set of `_` positions and as a logged section applied twice; thorough adds sampled chains "
        "of 5..7 operators over random tables (ties, NaN, +-inf). families: sampled chains mixing chainable "
        "builtins (comparisons, zip/with, **, fold|scan/from, til|to/by, &&&, ***, replace/with) with generic "
        "operators at random precedences. distinct = distinct (table, chain, form); non-trivial = at least two "
        "operators in the chain (grouping is a decision)")
ASSUMPTIONS = ["the Python models of the operators used in the workload (tree builders, .+, comparisons on ints, zip, **, "
               "fold, scan, til, to, &&&, ***, >>>, replace on literal patterns) are right on the generated operand universe",
               "errors are compared by kind only (throw / no throw), never by message",
               "for a merged application the merged operator keeps the identity of the left operator "
               "(e.g. `a zip b with f zip c` is one zip application)",
               "the `len` field of lazy ranges is not compared (C11 owns Range::len)",
               "generic sub-monitor: the direct form's value is compared structurally with the oracle; the other forms of the same "
               "chain are compared with the direct value by the interpreter's own `==` on nested lists of ints/strings"]
PLAN = {
    "quick": {"maxlen": 4, "sample": 30000, "fam_cases": 4000, "fam_maxlen": 5, "reassign": 96, "nan": False, "shards": 16},
    "thorough": {"maxlen": 4, "sample": 800_000, "fam_cases": 40_000, "fam_maxlen": 7, "reassign": 1200, "nan": True,
                 "shards": 64},
}
EXHAUSTIVE = {"quick": True, "thorough": True}

REG = dict(level="exploration", min_nontrivial=9000, min_nontrivial_thorough=400000,
           technique="runtime reference-model monitor: recursive operator-precedence oracle (relation 'left reduces before "
                     "right' + chains-with table) and Python operator models against the stack-based ChainEvaluator, over an "
                     "exhaustive grid of chains (1..4 operators, 8-value palette, all hole sets) and sampled longer/mixed chains, "
                     "each in direct, logged (evaluation-order) and underscore-section form",
           claim="Every executed chain evaluated to the value of the tree obtained by operator-precedence grouping with the "
                 "operators' current (precedence, associativity), chainable operators merged exactly when the left one was "
                 "about to be reduced, and the evaluation-order log was each operand/operator expression once, left to right; "
                 "exhaustive for chains of up to 4 operators over the generic palette, exploration beyond.",
           note="Trusts the Python operator models and the harness's structural value dump; error messages are not compared.")

NAN = float("nan")
INF = math.inf


# ---------------------------------------------------------------- model values

class Throw(Exception):
    """The model predicts a catchable error."""


class Decline(Exception):
    """The model does not predict this case (outside the modelled subset / too large)."""


class Fn:
    __slots__ = ("name", "call")

    def __init__(self, name, call):
        self.name = name
        self.call = call          # list of args -> value (may raise Throw / Decline)


class Rng:
    __slots__ = ("r",)

    def __init__(self, a, b, c):
        self.r = range(a, b, c)


def is_int(v):
    return isinstance(v, int) and not isinstance(v, bool)


def is_seq(v):
    return isinstance(v, (list, str, Rng))


def elems(v):
    if isinstance(v, list):
        return v
    if isinstance(v, str):
        return list(v)
    if isinstance(v, Rng):
        if len(v.r) > 3000:
            raise Decline("long range")
        return list(v.r)
    raise Throw("not iterable")


def size(v, cap=20000):
    """Rough node count with an early exit."""
    n = 0
    stack = [v]
    while stack:
        x = stack.pop()
        n += 1
        if n > cap:
            raise Decline("value too large")
        if isinstance(x, list):
            stack.extend(x)
    return n


def canon(v):
    """Model value -> normalised canonical form (see onorm)."""
    if isinstance(v, bool):
        return {"i": str(int(v))}
    if isinstance(v, int):
        return {"i": str(v)}
    if isinstance(v, str):
        return {"s": v}
    if isinstance(v, list):
        return {"l": [canon(x) for x in v]}
    if isinstance(v, Fn):
        return {"fn": "?"}
    if isinstance(v, Rng):
        return {"st": {"head": [{"i": str(x)} for x in v.r[:64]], "more": len(v.r) > 64, "err": None}}
    raise TypeError(v)


def onorm(c):
    """Observed canonical value -> the comparable part: no representation flags, functions opaque, streams by
    their first 64 elements."""
    if c is None or isinstance(c, (bool, int, float, str)):
        return c
    if "i" in c:
        return {"i": c["i"]}
    if "l" in c:
        return {"l": [onorm(x) for x in c["l"]]}
    if "fn" in c:
        return {"fn": "?"}
    if "st" in c:
        st = c["st"]
        return {"st": {"head": [onorm(x) for x in st.get("head", [])], "more": st.get("more", False), "err": st.get("err")}}
    return c


# ---------------------------------------------------------------- operators

class Op:
    __slots__ = ("src", "kind", "prec", "assoc", "arg")

    def __init__(self, src, kind, prec, assoc="L", arg=None):
        self.src = src        # Noulith name
        self.kind = kind      # semantic key into APPLY / CHAINS
        self.prec = prec      # float (may be NaN / inf)
        self.assoc = assoc    # "L" | "R"
        self.arg = arg        # tag of a tree builder / comparison symbol

    def sig(self):
        return "%s=%s%s@%r" % (self.src, self.kind, self.assoc, self.prec)


def reduces_before(l, r):
    """The property's relation: would the left operator be applied before the right one?"""
    if l.prec > r.prec:
        return True
    if l.prec < r.prec:
        return False
    return l.assoc == "L"          # tie or NaN: the left operator's associativity decides


CHAINS = {"cmp": {"cmp"}, "zip": {"zip", "with"}, "cart": {"cart"}, "fan": {"fan"}, "par": {"par"},
          "til": {"by"}, "to": {"by"}, "fold": {"from"}, "scan": {"from"}, "replace": {"with"}}


def chains_with(l, r):
    return r.kind in CHAINS.get(l.kind, ())


def parse_chain(ops, reduces=reduces_before, chains=chains_with):
    """Recursive operator-precedence grouping of operands 0..n with operators ops[0..n-1] (ops[i] stands
    between operand i and i+1).  Returns a tree: ("leaf", i) | ("app", [op, merged ops...], [subtrees])."""
    n = len(ops)

    def rhs(guard, pos):
        # parse operand `pos` and everything that binds to it before `guard` may be applied
        x = ("leaf", pos)
        while pos < n:
            if guard is not None and reduces(guard, ops[pos]):
                break
            x, pos = application(x, pos)
        return x, pos

    def application(left, pos):
        head = ops[pos]
        names = [head]
        args = [left]
        while True:
            y, pos = rhs(head, pos + 1)
            args.append(y)
            # rhs came back before the end only because `head` is about to be applied before ops[pos]:
            # exactly then a chainable pair merges (and keeps head's precedence)
            if pos < n and chains(head, ops[pos]):
                names.append(ops[pos])
                continue
            return ("app", names, args), pos

    t, pos = rhs(None, 0)
    assert pos == n
    return t


def show_tree(t, srcs):
    if t[0] == "leaf":
        return srcs[t[1]]
    names, args = t[1], t[2]
    out = [show_tree(args[0], srcs)]
    for nm, a in zip(names, args[1:]):
        out.append(nm.src)
        out.append(show_tree(a, srcs))
    return "(" + " ".join(out) + ")"


def n_merged(t):
    if t[0] == "leaf":
        return 0
    return (1 if len(t[1]) > 1 else 0) + sum(n_merged(a) for a in t[2])


def eval_tree(t, vals):
    if t[0] == "leaf":
        return vals[t[1]]
    args = [eval_tree(a, vals) for a in t[2]]
    return APPLY[t[1][0].kind](t[1], args)


# --- Python versions of the operators

def call(f, args):
    if not isinstance(f, Fn):
        raise Decline("calling a non-function")
    return f.call(args)


def a_tree(names, args):
    a, b = args
    return [names[0].arg, a, b]


def a_rp(names, args):
    a, b = args
    if isinstance(b, list):
        return [a] + b
    raise Throw("prepend")


def a_gi(names, args):
    a, b = args
    if is_int(a) and is_int(b):
        return a * 3 + b
    raise Throw("gi")


def a_gs(names, args):
    a, b = args
    if isinstance(a, str) and isinstance(b, str):
        if len(a) + len(b) > 400:
            raise Decline("long string")
        return a + "-" + b
    raise Throw("gs")


def a_arith(names, args):
    a, b = args
    if not (is_int(a) and is_int(b)):
        raise Decline("arith on non-int")
    k = names[0].arg
    if k == "+":
        return a + b
    if k == "-":
        return a - b
    if k == "*":
        return a * b
    if k == "max":
        return max(a, b)
    if k == "^":
        if b < 0 or b > 12 or abs(a) > 200:
            raise Decline("pow out of the modelled range")
        return a ** b
    raise KeyError(k)


CMP = {"<": lambda a, b: a < b, "<=": lambda a, b: a <= b, "==": lambda a, b: a == b,
       ">": lambda a, b: a > b, ">=": lambda a, b: a >= b, "!=": lambda a, b: a != b}


def a_cmp(names, args):
    if not all(is_int(a) for a in args):
        raise Decline("comparison of non-ints")
    for i, nm in enumerate(names):
        if not CMP[nm.arg](args[i], args[i + 1]):
            return 0
    return 1


def a_zip(names, args):
    func = None
    its = []
    for a in args:
        if isinstance(a, Fn):
            if func is not None:
                raise Throw("zip: more than one function")
            func = a
        elif is_seq(a):
            its.append(elems(a))
        else:
            raise Throw("zip: not iterable")
    if not its:
        raise Throw("zip: zero iterables")
    out = []
    for i in range(min(len(x) for x in its)):
        batch = [x[i] for x in its]
        out.append(func.call(batch) if func else batch)
    return out


def a_cart(names, args):
    seqs = []
    scalar = None
    for a in args:
        if is_seq(a):
            seqs.append(elems(a))
        elif is_int(a):
            if scalar is not None:
                raise Throw("**: two integers")
            scalar = a
        else:
            raise Throw("**: non-sequence")
    if scalar is not None and len(seqs) == 1:
        if scalar * len(seqs[0]) > 2000:
            raise Decline("long repeat")
        return seqs[0] * max(scalar, 0)
    if scalar is None and len(seqs) >= 2:
        total = 1
        for s in seqs:
            total *= len(s)
        if total > 1500:
            raise Decline("large product")
        return [list(t) for t in itertools.product(*seqs)]
    raise Throw("**: bad combination")


def a_prep(names, args):
    raise Throw("preposition called")


def a_fold(names, args, scan=False):
    if len(args) not in (2, 3):
        raise Throw("fold: arity")
    s, f = args[0], args[1]
    if not is_seq(s):
        raise Throw("fold: not iterable")
    if not isinstance(f, Fn):
        raise Throw("fold: not callable")
    es = elems(s)
    if len(args) == 2:
        if not es:
            if scan:
                return []
            raise Throw("fold: empty")
        cur, rest = es[0], es[1:]
    else:
        cur, rest = args[2], es
    acc = [cur]
    for e in rest:
        cur = f.call([cur, e])
        acc.append(cur)
    return acc if scan else cur


def a_scan(names, args):
    return a_fold(names, args, scan=True)


def a_range(names, args, inclusive=False):
    if any(isinstance(a, str) for a in args):
        raise Decline("string range")
    if len(args) not in (2, 3) or not all(is_int(a) for a in args):
        raise Throw("til/to: types")
    a, b = args[0], args[1]
    c = args[2] if len(args) == 3 else 1
    if c == 0:
        raise Decline("zero step")
    if inclusive:
        b = b - 1 if c < 0 else b + 1
    return Rng(a, b, c)


def a_to(names, args):
    return a_range(names, args, inclusive=True)


def _all_fn(args):
    if not all(isinstance(a, Fn) for a in args):
        raise Throw("functions only")


def a_fan(names, args):
    _all_fn(args)
    fs = list(args)
    return Fn("fanout", lambda xs: [f.call(list(xs)) for f in fs])


def a_par(names, args):
    _all_fn(args)
    fs = list(args)

    def run(xs):
        if len(xs) == 0:
            raise Throw("parallel: no args")
        if len(xs) == 1:
            if not is_seq(xs[0]):
                raise Throw("parallel: one non-seq")
            es = elems(xs[0])
            if len(es) != len(fs):
                raise Throw("parallel: wrong length")
            return [f.call([e]) for f, e in zip(fs, es)]
        return [f.call([e]) for f, e in zip(fs, xs)]
    return Fn("parallel", run)


def a_co(names, args):          # f >>> g
    _all_fn(args)
    f, g = args
    return Fn("comp", lambda xs: g.call([f.call(list(xs))]))


def a_fo(names, args):          # fo := \f, g -> \x -> ["fo", f(x), g(x)]
    f, g = args

    def run(xs):
        if len(xs) != 1:
            raise Throw("arity")
        return ["fo", call(f, [xs[0]]), call(g, [xs[0]])]
    return Fn("fo", run)


def a_replace(names, args):
    if len(args) == 3 and all(isinstance(a, str) for a in args):
        s, pat, rep = args
        if not pat or not all(ch.isalnum() or ch == "-" for ch in pat) or "$" in rep:
            raise Decline("non-literal pattern")
        out = s.replace(pat, rep)
        if len(out) > 600:
            raise Decline("long string")
        return out
    if len(args) == 3 and isinstance(args[0], str) and isinstance(args[1], str) and isinstance(args[2], Fn):
        raise Decline("replace with callback")
    if len(args) == 2 and all(isinstance(a, str) for a in args):
        def run(xs):
            raise Decline("partial replace called")
        return Fn("replace-partial", run)
    raise Throw("replace: types")


APPLY = {"tree": a_tree, "rp": a_rp, "gi": a_gi, "gs": a_gs, "arith": a_arith, "cmp": a_cmp, "zip": a_zip,
         "cart": a_cart, "with": a_prep, "by": a_prep, "from": a_prep, "fold": a_fold, "scan": a_scan,
         "til": a_range, "to": a_to, "fan": a_fan, "par": a_par, "co": a_co, "fo": a_fo, "replace": a_replace}


def fn_unary(tag):
    def run(xs):
        if len(xs) != 1:
            raise Throw("arity")
        return [tag, xs[0]]
    return Fn(tag, run)


def fn_binary(tag):
    def run(xs):
        if len(xs) != 2:
            raise Throw("arity")
        return [tag, xs[0], xs[1]]
    return Fn(tag, run)


FN_WF = Fn("wf", lambda xs: ["w"] + list(xs))


# ---------------------------------------------------------------- source rendering

def psrc(p):
    """Noulith source for a precedence number."""
    if p != p:
        return "(0.0/0.0)"
    if p == INF:
        return "(1.0/0.0)"
    if p == -INF:
        return "(0.0 - 1.0/0.0)"
    a = abs(p)
    s = str(int(a)) if a == int(a) else repr(a)
    return s if p >= 0 else "(0 - %s)" % s


def direct_src(ops, osrc, holes=()):
    out = ["_" if 0 in holes else osrc[0]]
    for i, op in enumerate(ops):
        out.append(op.src)
        out.append("_" if (i + 1) in holes else osrc[i + 1])
    return " ".join(out)


def logged_src(ops, osrc, holes=()):
    out = ["_" if 0 in holes else "(log append= 0; %s)" % osrc[0]]
    for i, op in enumerate(ops):
        out.append('`(log append= "o%d"; %s)`' % (i + 1, op.src))
        out.append("_" if (i + 1) in holes else "(log append= %d; %s)" % (i + 1, osrc[i + 1]))
    return " ".join(out)


def expected_log(n, holes=()):
    out = [] if 0 in holes else [{"i": "0"}]
    for i in range(1, n + 1):
        out.append({"s": "o%d" % i})
        if i not in holes:
            out.append({"i": str(i)})
    return {"l": out}


def section_src(ops, osrc, holes, logged=False):
    body = (logged_src if logged else direct_src)(ops, osrc, holes)
    return "(%s)" % body, "(%s)" % ", ".join(osrc[h] for h in sorted(holes))


# ---------------------------------------------------------------- shared checking helpers

INCONC = ("crash", "timeout", "skipped", "lost", "fuel", "depth", "panic")


def inconclusive(sh, ev, text):
    o = ev.get("o")
    if o in INCONC:
        sh.inconc(o + (":" + str(ev.get("why")) if ev.get("why") else ""), text[:300])
        return True
    return False


def order_class(ops):
    """Shape of the weak order of the chain's precedences, for the evidence counters."""
    ps = [op.prec for op in ops]
    if any(p != p for p in ps):
        return "nan"
    d = len(set(ps))
    if d == len(ps):
        return "strict"
    if d == 1:
        return "all-tied"
    return "partial-ties"


def count_case(sh, fam, ops, tree):
    sh.count("%s:len%d" % (fam, len(ops)))
    if len(ops) > 1:
        sh.count("%s:order:%s" % (fam, order_class(ops)))
        sh.count("%s:assoc:%s" % (fam, "mixed" if len({o.assoc for o in ops}) > 1 else ops[0].assoc))
    m = n_merged(tree)
    if m:
        sh.count("%s:merged-applications" % fam, m)


# ---------------------------------------------------------------- (a) generic operators

PREC_POOL = [-1000000.0, -3.0, -1.0, -0.5, 0.0, 0.25, 0.5, 1.0, 2.0, 3.0, 4.0, 4.5, 5.0, 6.0, 7.0, 8.0, 100.0, 1e9]
PERMS4 = list(itertools.permutations(range(4)))
EQV = 'eqv := \\x, y -> if (x == y) 1 else ["DIFF", x]'


def generic_env(r):
    """Operator table for the exhaustive grid: user tree builders f1..f4 (left-assoc) and aliases r1..r4 of `.+`
    (right-assoc); each rank 0..3 is carried by exactly one f and one r; which name carries which rank and the
    four numbers are chosen per batch.  Returns (prelude, {("L"|"R", rank): Op})."""
    nums = sorted(r.sample(PREC_POOL, 4))
    pf = r.choice(PERMS4)
    pr = r.choice(PERMS4)
    prelude = [EQV]
    pal = {}
    for j in range(4):
        name = "f%d" % (j + 1)
        prelude.append('%s := \\a, b -> ["%s", a, b]' % (name, name))
        prelude.append("%s::precedence = %s" % (name, psrc(nums[pf[j]])))
        pal[("L", pf[j])] = Op(name, "tree", nums[pf[j]], "L", name)
    for j in range(4):
        name = "r%d" % (j + 1)
        prelude.append("%s := .+" % name)
        prelude.append("%s::precedence = %s" % (name, psrc(nums[pr[j]])))
        pal[("R", pr[j])] = Op(name, "rp", nums[pr[j]], "R")
    return prelude, pal


PALETTE8 = [(a, k) for a in ("L", "R") for k in range(4)]


def grid_sequences(maxlen):
    for n in range(1, maxlen + 1):
        for seq in itertools.product(PALETTE8, repeat=n):
            yield seq


def all_hole_sets(n):
    pos = list(range(n + 1))
    for k in range(1, n + 2):
        for hs in itertools.combinations(pos, k):
            yield hs


def generic_statement(ops, hole_sets, logged_holes):
    """One statement evaluating the chain in every form; none of the sub-expressions can raise because tree
    builders are total and the right operand of `.+` is always a list.  Returns (text, labels)."""
    n = len(ops)
    osrc = ["[%d]" % i for i in range(n + 1)]
    sec, args = section_src(ops, osrc, logged_holes, logged=True)
    parts = ["log := []", "a := %s" % direct_src(ops, osrc), "b := %s" % logged_src(ops, osrc), "l1 := log", "log = []",
             "s := %s" % sec, "l2 := log", "c := s%s" % args, "d := s%s" % args]
    labels = ["direct", "logged", "log", "seclog-created", "seclog-applied", "section-var", "section-var-again"]
    # only the direct value is dumped structurally; every other form is compared with it by the interpreter's own
    # `==` on nested lists (eqv gives 1 or ["DIFF", value]) to keep the event small
    items = ["a", "eqv(b, a)", "l1", "l2", "log", "eqv(c, a)", "eqv(d, a)"]
    for hs in hole_sets:
        s, ar = section_src(ops, osrc, hs)
        items.append("eqv(%s%s, a)" % (s, ar))
        labels.append("section" + "".join(str(h) for h in hs))
    parts.append("[%s]" % ", ".join(items))
    return "; ".join(parts), labels


def check_generic(sh, fam, prelude, ops, text, labels, logged_holes, ev, tablesig):
    n = len(ops)
    vals = [[i] for i in range(n + 1)]
    tree = parse_chain(ops)
    want = canon(eval_tree(tree, vals))
    sh.seen(tablesig + "|" + text, nontrivial=n >= 2)
    count_case(sh, fam, ops, tree)
    replay = {"job": {"kind": "eval", "prelude": prelude, "stmts": [text], "fresh_each": True},
              "expected": {"grouping": show_tree(tree, ["[%d]" % i for i in range(n + 1)]), "value": want},
              "table": [o.sig() for o in ops]}
    if inconclusive(sh, ev, text):
        return
    if ev.get("o") != "ok" or not isinstance(ev.get("v"), dict) or "l" not in ev["v"] or len(ev["v"]["l"]) != len(labels):
        sh.violation("C03|%s|chain|%s" % (fam, ev.get("o")),
                     "generic chain %s over %s ended as %s %s (tree builders and .+ on lists cannot fail)" % (
                         direct_src(ops, ["[%d]" % i for i in range(n + 1)]), [o.sig() for o in ops], ev.get("o"),
                         str(ev.get("err"))[:100]), replay)
        return
    got = [onorm(x) for x in ev["v"]["l"]]
    for lab, g in zip(labels, got):
        sh.count("%s:form:%s" % (fam, lab.rstrip("0123456789")))
        if lab == "log":
            w = expected_log(n)
        elif lab in ("seclog-created", "seclog-applied"):
            w = expected_log(n, logged_holes)
        elif lab == "direct":
            w = want
        else:
            w = {"i": "1"}          # eqv(form, direct)
        if g != w:
            kind = "order" if lab in ("log", "seclog-created", "seclog-applied") else "value"
            if w == {"i": "1"}:
                w = ["same as the direct form", got[0]]
            form = lab.rstrip("0123456789")
            sh.violation("C03|%s|%s|%s" % (fam, form, kind),
                         "%s form of `%s` with %s: got %s, expected %s (grouping %s)" % (
                             lab, direct_src(ops, ["[%d]" % i for i in range(n + 1)]), [o.sig() for o in ops],
                             str(g)[:160], str(w)[:160], replay["expected"]["grouping"]), replay)
    sh.sample({"table": [o.sig() for o in ops], "stmt": text[:400], "grouping": replay["expected"]["grouping"],
               "observed": ev.get("v")}, cap=2)


def run_generic_grid(sh, w, ctx, si, nshards):
    r = core.rng_for("C03", ctx.seed, si, "grid")
    seqs = [s for i, s in enumerate(grid_sequences(ctx.plan["maxlen"])) if i % nshards == si]
    for b0 in range(0, len(seqs), 64):
        chunk = seqs[b0:b0 + 64]
        prelude, pal = generic_env(r)
        tablesig = ",".join(sorted(o.sig() for o in pal.values()))
        cases = []
        for seq in chunk:
            ops = [pal[k] for k in seq]
            n = len(ops)
            hole_sets = list(all_hole_sets(n))
            logged_holes = hole_sets[(b0 + len(cases)) % len(hole_sets)]
            text, labels = generic_statement(ops, hole_sets, logged_holes)
            cases.append((ops, text, labels, logged_holes))
        evs = core.eval_all(w, [c[1] for c in cases], prelude=prelude, fresh_each=True, child_each=True, jid="c03g")
        for (ops, text, labels, lh), ev in zip(cases, evs):
            check_generic(sh, "generic", prelude, ops, text, labels, lh, ev, tablesig)


def sampled_env(r, nan):
    """Random table for the sampled long chains: 6..10 operator values, precedences drawn from a set of 2..5 numbers
    (so ties are frequent), NaN / +-inf in the thorough tier."""
    k = r.randint(7, 10)
    pool = list(PREC_POOL)
    distinct = r.random() < 0.3            # every operator value its own precedence: strict orders stay frequent
    nums = r.sample(pool, k if distinct else r.randint(2, 5))
    if nan:
        if r.random() < 0.35:
            nums.append(NAN)
        if r.random() < 0.15:
            nums.append(r.choice([INF, -INF]))
    prelude = [EQV]
    ops = []
    for j in range(k):
        p = nums[j] if distinct and j < len(nums) else r.choice(nums)
        if r.random() < 0.55:
            name = "f%d" % (j + 1)
            prelude.append('%s := \\a, b -> ["%s", a, b]' % (name, name))
            ops.append(Op(name, "tree", p, "L", name))
        else:
            name = "r%d" % (j + 1)
            prelude.append("%s := .+" % name)
            ops.append(Op(name, "rp", p, "R"))
        prelude.append("%s::precedence = %s" % (name, psrc(p)))
    return prelude, ops, distinct


def run_generic_sampled(sh, w, ctx, si, nshards):
    total = ctx.plan["sample"] // nshards
    if total <= 0:
        return
    r = core.rng_for("C03", ctx.seed, si, "sampled")
    done = 0
    while done < total:
        prelude, table, distinct = sampled_env(r, ctx.plan["nan"])
        tablesig = ",".join(o.sig() for o in table)
        cases = []
        for _ in range(128):
            n = r.randint(5, 7)
            if distinct and len(table) >= n and r.random() < 0.6:
                ops = r.sample(table, n)          # strict order of the chain's precedences
            else:
                ops = [r.choice(table) for _ in range(n)]
            if len(cases) % 32 == 31:
                # long chains that keep many operators pending at once (the evaluator's operator stack grows with the
                # run of operators that do not reduce before their successor): 24..80 operators, as a run of one
                # right-associative operator, a non-decreasing staircase of precedences, or an arbitrary mixture
                n = r.choice([24, 31, 32, 33, 34, 40, 48, 64, 65, 80])
                shape = r.random()
                rops = [o for o in table if o.assoc == "R"]
                if shape < 0.35 and rops:
                    ops = [r.choice(rops)] * n
                elif shape < 0.7:
                    ops = sorted((r.choice(rops or table) if r.random() < 0.8 else r.choice(table) for _ in range(n)),
                                 key=lambda o: (o.prec != o.prec, o.prec))
                else:
                    ops = [r.choice(table) for _ in range(n)]
                sh.count("sampled:long-chains")
            allh = list(range(n + 1))
            hole_sets = [tuple(sorted(r.sample(allh, r.randint(1, n + 1)))) for _ in range(2)] + [(r.randrange(n + 1),)]
            logged_holes = tuple(sorted(r.sample(allh, r.randint(1, 3))))
            text, labels = generic_statement(ops, hole_sets, logged_holes)
            cases.append((ops, text, labels, logged_holes))
        done += len(cases)
        evs = core.eval_all(w, [c[1] for c in cases], prelude=prelude, fresh_each=True, child_each=True, jid="c03s")
        for (ops, text, labels, lh), ev in zip(cases, evs):
            check_generic(sh, "sampled", prelude, ops, text, labels, lh, ev, tablesig)


# ---------------------------------------------------------------- (b) families of chainable operators

def pick_precs(r, nan):
    nums = r.sample(PREC_POOL, r.randint(2, 4))
    if nan and r.random() < 0.2:
        nums.append(NAN)
    return nums


def alias(prelude, name, target, p):
    prelude.append("%s := %s" % (name, target))
    prelude.append("%s::precedence = %s" % (name, psrc(p)))


class Family:
    """name; setup(r, nan) -> prelude, state; gen(r, state, n) -> (ops, [(src, value)], apply or None)"""
    name = "?"
    wrap = None

    def weights(self, state):
        raise NotImplementedError


def wchoice(r, pairs):
    tot = sum(w for _, w in pairs)
    x = r.random() * tot
    for v, w in pairs:
        x -= w
        if x <= 0:
            return v
    return pairs[-1][0]


class ListFamily(Family):
    name = "list"

    def setup(self, r, nan):
        ps = pick_precs(r, nan)
        pre = ['wf := \\...xs -> ["w"] ++ xs']
        ops = {}
        for nm in ("t1", "t2"):
            p = r.choice(ps)
            pre.append('%s := \\a, b -> ["%s", a, b]' % (nm, nm))
            pre.append("%s::precedence = %s" % (nm, psrc(p)))
            ops[nm] = Op(nm, "tree", p, "L", nm)
        for nm, target, kind, assoc in (("rp1", ".+", "rp", "R"), ("z1", "zip", "zip", "L"), ("z2", "zip", "zip", "L"),
                                        ("w1", "with", "with", "L"), ("c1", "**", "cart", "L"),
                                        # the builtin's second registered spelling: the same operator value
                                        ("c2", "\u00d7", "cart", "L")):
            p = r.choice(ps)
            alias(pre, nm, target, p)
            ops[nm] = Op(nm, kind, p, assoc)
        return pre, ops

    def gen(self, r, st, n):
        ops = []
        mode = r.random()
        for i in range(n):
            prev = ops[-1].kind if ops else None
            if prev == "zip" and r.random() < 0.3:
                ops.append(st["w1"])
                continue
            if mode < 0.4:
                pairs = [("t1", 2), ("t2", 1), ("rp1", 2), ("z1", 4), ("z2", 3), ("w1", 0.4)]
            elif mode < 0.8:
                pairs = [("t1", 2), ("t2", 1), ("rp1", 2), ("c1", 4), ("c2", 3)]
            else:
                pairs = [("t1", 2), ("t2", 1), ("rp1", 2), ("z1", 2), ("z2", 2), ("w1", 0.5), ("c1", 2), ("c2", 1)]
            ops.append(st[wchoice(r, pairs)])
        opnds = []
        for i in range(n + 1):
            if i > 0 and ops[i - 1].kind == "with" and r.random() < 0.9:
                opnds.append(("wf", FN_WF))
            else:
                k = r.choice([1, 2, 2, 3])
                v = [10 * i + j for j in range(1, k + 1)]
                opnds.append(("[%s]" % ", ".join(map(str, v)), v))
        return ops, opnds, None


class FoldFamily(Family):
    name = "fold"

    def setup(self, r, nan):
        ps = pick_precs(r, nan)
        pre = ['tg := \\a, b -> ["g", a, b]']
        ops = {}
        p = r.choice(ps)
        pre.append('t1 := \\a, b -> ["t1", a, b]')
        pre.append("t1::precedence = %s" % psrc(p))
        ops["t1"] = Op("t1", "tree", p, "L", "t1")
        for nm, target, kind, assoc in (("rp1", ".+", "rp", "R"), ("fo1", "fold", "fold", "L"), ("fo2", "fold", "fold", "L"),
                                        ("sc1", "scan", "scan", "L"), ("fr1", "from", "from", "L"), ("fr2", "from", "from", "L")):
            p = r.choice(ps)
            alias(pre, nm, target, p)
            ops[nm] = Op(nm, kind, p, assoc)
        return pre, ops

    def gen(self, r, st, n):
        ops = []
        for i in range(n):
            prev = ops[-1].kind if ops else None
            if prev in ("fold", "scan") and r.random() < 0.65:
                ops.append(st[r.choice(["fr1", "fr2"])])
                continue
            ops.append(st[wchoice(r, [("t1", 3), ("rp1", 2.5), ("fo1", 2), ("fo2", 1.5), ("sc1", 2), ("fr1", 0.3)])])
        opnds = []
        for i in range(n + 1):
            if i > 0 and ops[i - 1].kind in ("fold", "scan") and r.random() < 0.92:
                opnds.append(("tg", fn_binary("g")))
            else:
                k = r.choice([1, 2, 2, 3])
                v = [10 * i + j for j in range(1, k + 1)]
                opnds.append(("[%s]" % ", ".join(map(str, v)), v))
        return ops, opnds, None


class RangeFamily(Family):
    name = "range"

    def setup(self, r, nan):
        ps = pick_precs(r, nan)
        pre = []
        ops = {}
        for nm in ("gi1", "gi2"):
            p = r.choice(ps)
            pre.append('%s := \\a, b -> if (a is int and b is int) a * 3 + b else throw "gi"' % nm)
            pre.append("%s::precedence = %s" % (nm, psrc(p)))
            ops[nm] = Op(nm, "gi", p, "L")
        for nm, target, kind in (("ti1", "til", "til"), ("ti2", "til", "til"), ("to1", "to", "to"),
                                 ("by1", "by", "by"), ("by2", "by", "by")):
            p = r.choice(ps)
            alias(pre, nm, target, p)
            ops[nm] = Op(nm, kind, p, "L")
        return pre, ops

    def gen(self, r, st, n):
        ops = []
        if r.random() < 0.7:
            # one range constructor (a lazy range can only be the final value), optionally followed by `by`
            ops = [st[r.choice(["gi1", "gi1", "gi2"])] for _ in range(n)]
            j = r.randrange(n)
            ops[j] = st[r.choice(["ti1", "ti2", "to1"])]
            if j + 1 < n and r.random() < 0.75:
                ops[j + 1] = st[r.choice(["by1", "by2"])]
        else:
            for i in range(n):
                prev = ops[-1].kind if ops else None
                if prev in ("til", "to") and r.random() < 0.6:
                    ops.append(st[r.choice(["by1", "by2"])])
                    continue
                ops.append(st[wchoice(r, [("gi1", 3), ("gi2", 2), ("ti1", 2), ("ti2", 1.5), ("to1", 2), ("by1", 0.3)])])
        opnds = []
        for i in range(n + 1):
            v = r.randint(1, 9)
            opnds.append((str(v), v))
        return ops, opnds, None


class CmpFamily(Family):
    name = "cmp"

    def setup(self, r, nan):
        ps = pick_precs(r, nan)
        pre = []
        ops = {}
        kinds = r.sample(sorted(CMP), 4)
        for j, sym in enumerate(kinds):
            nm = "q%d" % (j + 1)
            p = r.choice(ps)
            # every other comparison through its second registered spelling where it has one
            alias(pre, nm, {"<=": "\u2264", ">=": "\u2265"}.get(sym, sym) if j % 2 else sym, p)
            ops[nm] = Op(nm, "cmp", p, "L", sym)
        p = r.choice(ps)
        pre.append('gi1 := \\a, b -> if (a is int and b is int) a * 3 + b else throw "gi"')
        pre.append("gi1::precedence = %s" % psrc(p))
        ops["gi1"] = Op("gi1", "gi", p, "L")
        p = r.choice(ps)
        alias(pre, "mi1", "-", p)
        ops["mi1"] = Op("mi1", "arith", p, "L", "-")
        p = r.choice(ps)
        alias(pre, "pw1", "^", p)
        ops["pw1"] = Op("pw1", "arith", p, "R", "^")
        return pre, ops

    def gen(self, r, st, n):
        ops = [st[wchoice(r, [("q1", 3), ("q2", 3), ("q3", 2), ("q4", 2), ("gi1", 1.5), ("mi1", 1.5), ("pw1", 1)])]
               for _ in range(n)]
        opnds = []
        for i in range(n + 1):
            v = r.randint(0, 4)
            opnds.append((str(v), v))
        return ops, opnds, None


ARG_SHAPES = ["7", "[1, 2]", "[1, 2, 3]", "[[1, 2], 3]", "[1, [2, 3]]", "[[1, 2], [3, 4]]", "[1, 2, 3, 4]",
              "[[1, 2, 3], 4]", "[[[1, 2], 3], 4]", "[1, [2, [3, 4]]]", "[[1, 2], 3, 4]", "[1, 2, [3, 4]]"]


class FnFamily(Family):
    name = "fn"

    def setup(self, r, nan):
        ps = pick_precs(r, nan)
        pre = ['u1 := \\x -> ["u1", x]', 'u2 := \\x -> ["u2", x]', 'u3 := \\x -> ["u3", x]']
        ops = {}
        p = r.choice(ps)
        pre.append('fo1 := \\f, g -> \\x -> ["fo", f(x), g(x)]')
        pre.append("fo1::precedence = %s" % psrc(p))
        ops["fo1"] = Op("fo1", "fo", p, "L")
        for nm, target, kind in (("fa1", "&&&", "fan"), ("fa2", "&&&", "fan"), ("pa1", "***", "par"), ("pa2", "***", "par"),
                                 ("co1", ">>>", "co")):
            p = r.choice(ps)
            alias(pre, nm, target, p)
            ops[nm] = Op(nm, kind, p, "L")
        return pre, ops

    def gen(self, r, st, n):
        mode = r.random()
        if mode < 0.4:
            pairs = [("fa1", 4), ("fa2", 3), ("co1", 2), ("fo1", 2)]
        elif mode < 0.8:
            pairs = [("pa1", 4), ("pa2", 3), ("fo1", 1), ("fa1", 1)]
        else:
            pairs = [("fa1", 2), ("fa2", 1), ("pa1", 2), ("pa2", 1), ("co1", 1.5), ("fo1", 1.5)]
        ops = [st[wchoice(r, pairs)] for _ in range(n)]
        opnds = []
        for i in range(n + 1):
            u = r.choice(["u1", "u2", "u3"])
            opnds.append((u, fn_unary(u)))
        arg = r.choice(ARG_SHAPES)
        return ops, opnds, arg


class StrFamily(Family):
    name = "str"

    def setup(self, r, nan):
        ps = pick_precs(r, nan)
        pre = []
        ops = {}
        for nm in ("gs1", "gs2"):
            p = r.choice(ps)
            pre.append('%s := \\a, b -> if (a is str and b is str) a $ "-" $ b else throw "gs"' % nm)
            pre.append("%s::precedence = %s" % (nm, psrc(p)))
            ops[nm] = Op(nm, "gs", p, "L")
        for nm, target, kind in (("re1", "replace", "replace"), ("re2", "replace", "replace"), ("wi1", "with", "with"),
                                 ("wi2", "with", "with")):
            p = r.choice(ps)
            alias(pre, nm, target, p)
            ops[nm] = Op(nm, kind, p, "L")
        return pre, ops

    def gen(self, r, st, n):
        ops = []
        for i in range(n):
            prev = ops[-1].kind if ops else None
            if prev == "replace" and r.random() < 0.7:
                ops.append(st[r.choice(["wi1", "wi2"])])
                continue
            ops.append(st[wchoice(r, [("gs1", 3), ("gs2", 2), ("re1", 2.5), ("re2", 2), ("wi1", 0.3)])])
        opnds = []
        for i in range(n + 1):
            v = r.choice(["a", "b", "ab", "ba", "aa", "bb", "aba", "c"])
            opnds.append(('"%s"' % v, v))
        return ops, opnds, None


FAMILIES = [ListFamily(), FoldFamily(), RangeFamily(), CmpFamily(), FnFamily(), StrFamily()]


def eval_arg(text):
    return eval(text, {"__builtins__": {}})      # ARG_SHAPES are literals valid in both languages


def family_expect(ops, opnds, arg, chains=chains_with):
    """-> (tree, ("v", canon) | ("throw",)) or raises Decline."""
    tree = parse_chain(ops, chains=chains)
    try:
        v = eval_tree(tree, [x[1] for x in opnds])
        if arg is not None:
            v = call(v, [eval_arg(arg)])
        size(v)
        return tree, ("v", canon(v))
    except Throw:
        return tree, ("throw",)
    except RecursionError:
        raise Decline("deep")


def no_chains(l, r):
    return False


def family_statements(r, ops, opnds, arg):
    """-> list of (form, text, holes)"""
    n = len(ops)
    osrc = [x[0] for x in opnds]
    post = "(%s)" % arg if arg is not None else ""
    out = []
    d = direct_src(ops, osrc)
    out.append(("direct", ("(%s)%s" % (d, post)) if arg is not None else d, ()))
    lg = logged_src(ops, osrc)
    out.append(("logged", "log := []; [(%s)%s, log]" % (lg, post), ()))
    allh = list(range(n + 1))
    hs = tuple(sorted(r.sample(allh, r.randint(1, min(3, n + 1)))))
    s, ar = section_src(ops, osrc, hs)
    out.append(("section", s + ar + post, hs))
    hs2 = (r.randrange(n + 1),)
    s, ar = section_src(ops, osrc, hs2, logged=True)
    out.append(("seclog", "log := []; s := %s; l2 := log; c := s%s%s; [c, l2, log]" % (s, ar, post), hs2))
    return out


def run_families(sh, w, ctx, si, nshards):
    total = ctx.plan["fam_cases"] // nshards
    if total <= 0:
        return
    for fam in FAMILIES:
        r = core.rng_for("C03", ctx.seed, si, "fam:" + fam.name)
        done = 0
        while done < total:
            prelude, st = fam.setup(r, ctx.plan["nan"])
            tablesig = ",".join(sorted(o.sig() for o in st.values()))
            batch = []
            tries = 0
            while len(batch) < min(48, total - done) and tries < 400:
                tries += 1
                n = wchoice(r, [(1, 1), (2, 3), (3, 4), (4, 3), (5, 2)] + ([(6, 1.5), (7, 1)] if ctx.plan["fam_maxlen"] >= 7 else []))
                ops, opnds, arg = fam.gen(r, st, n)
                try:
                    tree, exp = family_expect(ops, opnds, arg)
                except Decline:
                    sh.excluded += 1
                    sh.count("excluded:model-declined:" + fam.name)
                    continue
                # evidence: would the result differ if nothing merged?
                differs = None
                if n_merged(tree):
                    try:
                        _, exp2 = family_expect(ops, opnds, arg, chains=no_chains)
                        differs = exp2 != exp
                    except Decline:
                        differs = None
                batch.append((ops, opnds, arg, tree, exp, differs, family_statements(r, ops, opnds, arg)))
            done += len(batch)
            stmts = [t for c in batch for (_, t, _) in c[6]]
            evs = core.eval_all(w, stmts, prelude=prelude, fresh_each=True, child_each=True, jid="c03f")
            k = 0
            for ops, opnds, arg, tree, exp, differs, forms in batch:
                n = len(ops)
                osrc = [x[0] for x in opnds]
                count_case(sh, fam.name, ops, tree)
                sh.count("%s:expected-%s" % (fam.name, "value" if exp[0] == "v" else "throw"))
                if differs is not None:
                    sh.count("%s:merge-%s" % (fam.name, "observable" if differs else "not-observable"))
                grouping = show_tree(tree, osrc)
                for form, text, holes in forms:
                    ev = evs[k]
                    k += 1
                    sh.seen(tablesig + "|" + text, nontrivial=n >= 2)
                    sh.count("%s:form:%s" % (fam.name, form))
                    replay = {"job": {"kind": "eval", "prelude": prelude, "stmts": [text], "fresh_each": True},
                              "expected": {"grouping": grouping, "outcome": exp}, "table": [o.sig() for o in ops]}
                    if inconclusive(sh, ev, text):
                        continue
                    o = ev.get("o")
                    desc = "%s form `%s` with %s (expected grouping %s)" % (form, text[:200], [o_.sig() for o_ in ops], grouping)
                    if exp[0] == "throw":
                        if o != "throw":
                            sh.violation("C03|%s|%s|value-instead-of-error" % (fam.name, form),
                                         "%s: got %s %s, expected an error" % (desc, o, str(ev.get("v"))[:120]), replay)
                        continue
                    if o != "ok":
                        sh.violation("C03|%s|%s|%s-instead-of-value" % (fam.name, form, o),
                                     "%s: got %s %s, expected %s" % (desc, o, str(ev.get("err"))[:100], str(exp[1])[:160]), replay)
                        continue
                    got = onorm(ev.get("v"))
                    if form == "direct" or form == "section":
                        if got != exp[1]:
                            sh.violation("C03|%s|%s|value" % (fam.name, form),
                                         "%s: got %s, expected %s" % (desc, str(got)[:160], str(exp[1])[:160]), replay)
                        else:
                            sh.sample({"family": fam.name, "table": [o_.sig() for o_ in ops], "stmt": text, "grouping": grouping,
                                       "observed": ev.get("v")}, cap=4)
                        continue
                    parts = got.get("l") if isinstance(got, dict) else None
                    want_parts = [exp[1], expected_log(n)] if form == "logged" else \
                        [exp[1], expected_log(n, holes), expected_log(n, holes)]
                    if not isinstance(parts, list) or len(parts) != len(want_parts):
                        sh.violation("C03|%s|%s|shape" % (fam.name, form), "%s: got %s" % (desc, str(got)[:160]), replay)
                        continue
                    if parts[0] != want_parts[0]:
                        sh.violation("C03|%s|%s|value" % (fam.name, form),
                                     "%s: got %s, expected %s" % (desc, str(parts[0])[:160], str(exp[1])[:160]), replay)
                    if parts[1:] != want_parts[1:]:
                        sh.violation("C03|%s|%s|order" % (fam.name, form),
                                     "%s: evaluation log %s, expected %s" % (desc, str(parts[1:])[:200], str(want_parts[1:])[:200]), replay)


# ---------------------------------------------------------------- (c) precedence is read when the chain runs

class Rec:
    """What a name currently denotes in the model environment."""
    __slots__ = ("kind", "arg", "prec", "assoc")

    def __init__(self, kind, arg, prec, assoc):
        self.kind, self.arg, self.prec, self.assoc = kind, arg, prec, assoc


def reassign_history(r, nan, builtin):
    """A shared-environment history: closures holding chains, then rounds of precedence/value reassignment, each
    followed by calling every closure.  Returns (stmts, checks) where checks[i] is None or a list of expected
    canonical values (or None for declined) for statement i."""
    stmts = []
    checks = []
    env = {}
    if builtin:
        names = ["+", "-", "*", "^", "max"]
        env["+"] = Rec("arith", "+", 4.0, "L")
        env["-"] = Rec("arith", "-", 4.0, "L")
        env["*"] = Rec("arith", "*", 5.0, "L")
        env["^"] = Rec("arith", "^", 6.0, "R")
        env["max"] = Rec("arith", "max", 0.0, "L")
        if core.script_mode():
            # the static pass of the script pipeline resolves a builtin's name to its current value wherever
            # the script has not (yet) written to that name; the later `swap +, *` of this history is only
            # visible to the closures if the names count as variables of the script before the closures are
            # defined, which a self-swap achieves without changing anything
            stmts.append("; ".join("swap %s, %s" % (nm, nm) for nm in names))
            checks.append(None)
    else:
        names = []
        for j in range(3):
            nm = "f%d" % (j + 1)
            stmts.append('%s := \\a, b -> ["%s", a, b]' % (nm, nm))
            checks.append(None)
            env[nm] = Rec("tree", nm, 0.0, "L")
            names.append(nm)
        for j in range(3):
            nm = "r%d" % (j + 1)
            stmts.append("%s := .+" % nm)
            checks.append(None)
            env[nm] = Rec("rp", None, 4.0, "R")
            names.append(nm)
    chains = []
    for k in range(6):
        n = r.randint(2, 6)
        cn = [r.choice(names) for _ in range(n)]
        if builtin:
            vals = [r.randint(1, 3) for _ in range(n + 1)]
            osrc = [str(v) for v in vals]
        else:
            vals = [[i] for i in range(n + 1)]
            osrc = ["[%d]" % i for i in range(n + 1)]
        text = osrc[0] + "".join(" %s %s" % (nm, o) for nm, o in zip(cn, osrc[1:]))
        stmts.append("h%d := \\ -> %s" % (k, text))
        checks.append(None)
        chains.append((cn, vals, text))
    # builtin mode: `-` itself may have been swapped away, so no negative literals there
    pool = (PREC_POOL[4:16] if builtin else PREC_POOL[1:16]) + ([NAN] if nan else [])
    for rnd in range(8):
        muts = []
        for _ in range(r.randint(0 if rnd == 0 else 1, 3)):
            k = r.random()
            a, b = r.sample(names, 2)
            if k < 0.5:
                p = r.choice(pool)
                muts.append("%s::precedence = %s" % (a, psrc(p)))
                env[a].prec = p
            elif k < 0.75:
                muts.append("swap %s::precedence, %s::precedence" % (a, b))
                env[a].prec, env[b].prec = env[b].prec, env[a].prec
            else:
                muts.append("swap %s, %s" % (a, b))
                env[a], env[b] = env[b], env[a]
        exp = []
        for cn, vals, text in chains:
            ops = [Op(nm, env[nm].kind, env[nm].prec, env[nm].assoc, env[nm].arg) for nm in cn]
            tree = parse_chain(ops)
            try:
                exp.append((canon(eval_tree(tree, vals)), show_tree(tree, [str(v) for v in vals]), [o.sig() for o in ops]))
            except (Decline, Throw):
                exp.append(None)
        # closures whose chain the model declines (e.g. huge powers) are not called in this round
        calls = ["h%d()" % k if exp[k] is not None else "null" for k in range(len(chains))]
        stmts.append("; ".join(muts + ["[%s]" % ", ".join(calls)]))
        checks.append(exp)
    return stmts, checks, [c[2] for c in chains]


def run_reassign(sh, w, ctx, si, nshards):
    total = max(2, ctx.plan["reassign"] // nshards)
    r = core.rng_for("C03", ctx.seed, si, "reassign")
    for h in range(total):
        builtin = (h + si) % 2 == 1
        stmts, checks, texts = reassign_history(r, ctx.plan["nan"], builtin)
        evs = core.eval_all(w, stmts, fresh_each=False, jid="c03r")
        fam = "reassign-builtin" if builtin else "reassign-user"
        for i, (s, chk, ev) in enumerate(zip(stmts, checks, evs)):
            replay = {"job": {"kind": "eval", "stmts": stmts[:i + 1]}, "expected": None}
            if chk is None:
                if ev.get("o") != "ok":
                    sh.inconc("setup:" + str(ev.get("o")), s)
                    break
                continue
            if inconclusive(sh, ev, s):
                break
            if ev.get("o") != "ok" or "l" not in (ev.get("v") or {}):
                sh.seen("|".join(stmts[:i + 1]))
                sh.violation("C03|%s|%s" % (fam, ev.get("o")), "history %s ... `%s` ended as %s %s" % (
                    stmts[:3], s, ev.get("o"), str(ev.get("err"))[:100]), replay)
                break
            got = [onorm(x) for x in ev["v"]["l"]]
            for k, (e, g) in enumerate(zip(chk, got)):
                if e is None:
                    sh.excluded += 1
                    sh.count("excluded:model-declined:" + fam)
                    continue
                sh.seen("|".join(stmts[:i + 1]) + "#%d" % k)
                sh.count(fam + ":closure-calls")
                if g != e[0]:
                    replay["expected"] = {"closure": k, "value": e[0], "grouping": e[1], "table": e[2]}
                    sh.violation("C03|%s|value" % fam,
                                 "closure h%d = `%s` after `%s`: got %s, expected %s (grouping %s with %s)" % (
                                     k, texts[k], s[:120], str(g)[:120], str(e[0])[:120], e[1], e[2]), replay)
        sh.sample({"history": stmts[-3:], "observed": evs[-1].get("v") if evs else None}, cap=5)


# ---------------------------------------------------------------- shard

def shard(ctx, si, n):
    sh = core.Shard("C03")
    w = core.Worker()
    try:
        run_generic_grid(sh, w, ctx, si, n)
        run_families(sh, w, ctx, si, n)
        run_reassign(sh, w, ctx, si, n)
        run_generic_sampled(sh, w, ctx, si, n)
    finally:
        w.close()
    return sh
