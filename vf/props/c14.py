"""C14  Every failure is a catchable error, never a crash, and try/catch contains it.

Monitors (all decide on outcome classification recorded by the harness, no value oracle):
  sweep      every non-excluded global callable x 0/1/2(/3) arguments from the hostile pool, each call
             in a fresh environment: outcome must be ok or throw (never panic / crash / logical hang),
             afterwards the probe statements must work and the argument variables must be unchanged
  templates  syntax-level operations (index, slice, assignment forms, destructuring, pop/remove,
             op-assign, switch, for, format strings) with pool operands
  contain    every call that raised is re-run as `try CALL catch e -> 77`: must evaluate to 77
  programs   programs of the C05 generator with planted faults, wrapped in try/catch: the catch must receive
             the error exactly when the reference interpreter says the program raises
  inject     fault injection through the fuel hook: the n-th evaluation step of a statement inside
             try/catch throws; the error must arrive at the catch and unnamed variables must survive
Hang detection is logical (fuel ticks), never wall-clock; CPU-watchdog kills and allocation-budget
aborts are inconclusive.
"""
import re
from .. import core
from .. import pool
from ..values import norm

RULE = ("cases = (callable or syntax template, argument tuple from the hostile pool), each evaluated in a fresh "
        "environment; distinct = distinct statement text; non-trivial = the call raised or returned normally after "
        "evaluating at least one hostile argument (0-argument calls are trivial); excluded = calls that receive an "
        "infinite stream and exhaust fuel/memory (the property excludes callees that must consume them)")
ASSUMPTIONS = ["resource exhaustion (allocation budget 96 MiB, RLIMIT_AS, CPU watchdog 1.5 s/call quick, 4 s thorough) bounds the exploration and is inconclusive",
               "a call with only finite arguments that burns 10^6 evaluation ticks is a logical hang"]
PLAN = {
    "quick": {"pairs_per_callable": 40, "quick_pool": True, "triples_per_callable": 20, "templates": 1, "inject": 250, "programs": 4000, "shards": 71},
    "thorough": {"pairs_per_callable": 100000, "triples_per_callable": 4000, "templates": 6, "inject": 6000, "programs": 200000, "shards": 142},
}

REG = dict(level="exploration", min_nontrivial=20000, max_inconc=0.02,
           technique="panic/abort/logical-hang monitor with write-ahead attribution over exhaustive callable x hostile-pool sweeps, syntax templates, try/catch containment re-runs and fuel-hook fault injection",
           claim="Every executed call/template ended as a value or an ordinary error, the error was received by an enclosing try/catch, probes and argument variables were intact afterwards; hangs are decided in logical steps (fuel), never wall-clock. Exploration over the pool, not a proof for all arguments.",
           note="Trusts the cfg-guarded fuel/depth/fault hooks and catch_unwind attribution; resource exhaustion (memory budget, CPU watchdog) is inconclusive, not a verdict; I/O, clock and randomness builtins excluded by name.")

PROBES = ["1 + 1 == 2", "(\\x -> x * 2)(21)", "{1: [2]}[1]"]
PROBE_EXPECT = [{"i": "1"}, {"i": "42"}, {"l": [{"i": "2"}]}]
FUEL = 1_000_000
FUEL_INF = 40_000

ZERO = {"i0", "b0", "f0", "fm0"}
_num = re.compile(r"-?\d+")


def norm_msg(m):
    return _num.sub("N", m or "")[:120]


TEMPLATES = [
    # (name, text with {a} {b} {c} placeholders, arity)
    ("index", "{a}[{b}]", 2), ("slice", "{a}[{b}:{c}]", 3), ("slice_lo", "{a}[{b}:]", 2), ("slice_hi", "{a}[:{b}]", 2),
    ("idx_assign", "x := {a}; x[{b}] = {c}; x", 3), ("idx_opassign", "x := {a}; x[{b}] += {c}; x", 3),
    ("idx_append", "x := {a}; x[{b}] append= {c}; x", 3),
    ("slice_assign", "x := {a}; x[{b}:{c}] = [9]; x", 3), ("every_slice", "x := {a}; every x[{b}:{c}] = 9; x", 3),
    ("every_all", "x := {a}; every x[:] = {b}; x", 2),
    ("str_elem_assign", "x := \"hello\"; x[1] = {a}; x", 1), ("bytes_elem_assign", "x := B[1, 2, 3]; x[1] = {a}; x", 1),
    ("vec_elem_assign", "x := V(1, 2, 3); x[1] = {a}; x", 1), ("str_elem_assign_at", "x := \"héllo\"; x[{a}] = \"Z\"; x", 1),
    ("str_elem_opassign", "x := \"hello\"; x[1] $= {a}; x", 1),
    ("adv_index", "(stream({a}) drop 1)[{b}]", 2), ("adv_tail_index", "tail(stream({a}))[{b}]", 2), ("adv_last", "last(stream({a}) drop {b})", 2),
    ("slice_then_index", "({a}[1:])[{b}]", 2), ("drop_then_index", "({a} drop 1)[{b}]", 2), ("slice_then_slice", "({a}[1:])[{b}:{c}]", 3),
    ("drop_then_last", "last({a} drop {b})", 2), ("uncons_then_index", "(uncons(stream({a})))[1][{b}]", 2),
    ("pop", "x := {a}; pop x", 1), ("pop_idx", "x := {a}; pop x[{b}]", 2), ("remove", "x := {a}; remove x[{b}]", 2),
    ("remove_slice", "x := {a}; remove x[{b}:{c}]", 3), ("consume", "x := {a}; consume x", 1),
    ("consume_idx", "x := {a}; consume x[{b}]", 2),
    ("swap", "x := {a}; y := {b}; swap x, y; [x, y]", 2), ("swap_idx", "x := {a}; swap x[0], x[{b}]; x", 2),
    ("unpack2", "p, q := {a}; [p, q]", 1), ("unpack_splat", "p, ...q := {a}; [p, q]", 1),
    ("unpack_splat_mid", "p, ...q, s := {a}; [p, q, s]", 1), ("unpack_splat3", "p, q, ...s, t := {a}; [p, q, s, t]", 1),
    ("unpack_splat_first", "...p, q := {a}; [p, q]", 1), ("unpack_nested", "[p, [q, s]] := {a}; [p, q, s]", 1),
    ("unpack_default", "f := \\p, q = 5 -> [p, q]; f(...{a})", 1),
    ("lambda_splat", "f := \\p, ...q -> [p, q]; f(...{a})", 1), ("lambda_splat0", "f := \\...q -> q; f(...{a})", 1),
    ("lambda_splat_mid", "f := \\p, ...q, s -> [p, q, s]; f(...{a})", 1),
    ("update", "x := {a}; x{{{b} = {c}}}", 3),
    ("opassign", "x := {a}; x += {b}; x", 2), ("opassign_f", "x := {a}; x {f}= {b}; x", 2),
    ("switch", "switch ({a}) case {b} -> 1 case _ -> 2", 2), ("switch_nomatch", "switch ({a}) case 12345 -> 1", 1),
    ("for", "for (e <- {a}) yield e", 1), ("for_kv", "for (k, v <<- {a}) yield [k, v]", 1),
    ("for_pat", "for (p, q <- {a}) yield p", 1), ("for_into", "for (e <- {a}) yield e into sum", 1),
    ("fmt", 'F"{{{a}}} {{{b}}}"', 2), ("fmt_x", 'F"{{{a} #x}}"', 1), ("fmt_pad", 'F"{{{a} :{n}}}"', 1), ("fmt_b", 'F"{{{a} #b}}"', 1),
    ("fmt_o", 'F"{{{a} #o}}"', 1), ("fmt_lpad", 'F"{{{a} <{n}}}"', 1), ("fmt_prec", 'F"{{{a} .{n}}}"', 1),
    ("str_concat", "{a} $ {b}", 2), ("is", "{a} is {b}", 2), ("annot", "x: {b} = {a}; x", 2),
    ("annot_assign", "x: int = 1; x = {a}; x", 1), ("call", "{a}({b})", 2), ("call2", "{a}({b}, {c})", 3), ("call0", "{a}()", 1),
    ("bang", "{a} ! {b}", 2), ("splat_call", "{a}(...{b})", 2), ("section", "({a} {f})({b})", 2), ("dot", "{a}.{f}", 1),
    ("and", "{a} and {b}", 2), ("or", "{a} or {b}", 2), ("coalesce", "{a} coalesce {b}", 2), ("not", "not {a}", 1),
    ("neg", "-{a}", 1), ("if", "if ({a}) 1 else 2", 1), ("while", "x := {a}; n := 0; while (x and n < 3) (n += 1); n", 1),
    ("literally", "literally {a} := {b}", 2), ("struct_new", "Foo({a}, {b})", 2), ("struct_field", "fa({a})", 1),
    ("struct_set", "x := ifoo; x[fb] = {a}; x", 1), ("struct_idx", "x := ifoo; x[fb][{a}] = 1; x", 1),
    ("struct_bad", "x := ifoo; x[{a}]", 1), ("dict_lit", "{{{a}: {b}}}", 2), ("dict_def", "{{:{a}}}[{b}]", 2),
    ("list_lit_splat", "[...{a}, ...{b}]", 2), ("vector_lit", "V({a}, {b})", 2), ("bytes_lit", "bytes([{a}, {b}])", 2),
    ("range_by", "{a} to {b} by {c}", 3), ("til_by", "list({a} til {b} by {c})", 3), ("chain_cmp", "{a} < {b} < {c}", 3),
    ("chain_eq", "{a} == {b} != {c}", 3), ("minmax_chain", "{a} max {b} min {c}", 3),
    ("try_catch_pat", "try throw {a} catch [p, q] -> 1", 1), ("throw", "throw {a}", 1),
    ("return_top", "return {a}", 1), ("break_top", "break {a}", 1), ("continue_top", "continue", 0),
    ("freeze", "(freeze \\p -> p + {a})({b})", 2), ("eval", "eval({a})", 1),
    # a second struct of the same name (declared in an inner scope) with fewer / more fields: accessors of one applied
    # to instances of the other must raise, whatever the field index
    ("struct_shadow_call", "struct P3 (px3, py3, pz3); g := pz3; mk := \\-> (struct P3 (px3); P3({a})); g(mk())", 1),
    ("struct_shadow_index", "struct P3 (px3, py3, pz3); g := pz3; mk := \\-> (struct P3 (px3); P3({a})); mk()[g]", 1),
    ("struct_shadow_assign", "struct P3 (px3, py3, pz3); g := py3; mk := \\-> (struct P3 (px3); P3({a})); q := mk(); q[g] = {b}; q", 2),
    ("struct_shadow_opassign", "struct P3 (px3, py3, pz3); g := pz3; mk := \\-> (struct P3 (px3); P3({a})); q := mk(); q[g] append= {b}; q", 2),
    ("struct_shadow_more", "struct P3 (px3); g := px3; mk := \\-> (struct P3 (px3, py3, pz3); P3({a}, 6, 7)); [g(P3({a})), try g(mk()) catch e -> \"E\"]", 1),
    ("struct_other_accessor", "struct A1 (u1, u2, u3); struct A2 (w1); [try u3(A2({a})) catch e -> \"E\", try A2({a})[u2] catch e -> \"E\"]", 1),
    ("struct_empty", "struct E0 (); struct A1 (u1); [E0(), try u1(E0()) catch e -> \"E\", try E0({a}) catch e -> \"E\"]", 1),
    # regular expressions with optional / alternative / named groups that do not take part in the match
    ("re_search_named", 'search({a}, R"(?P<sign>[-+])?(?P<digits>[0-9a-z]+)|(?P<other>.)")', 1),
    ("re_search_fixed", 'search("x = 42; y = -7", R"(?P<sign>[-+])?(?P<digits>\\d+)(?P<frac>\\.\\d+)?") $ str({a})', 1),
    ("re_search_all_opt", 'search_all({a} $ " a1 b22 -3", R"([a-z])?(?P<num>\\d+)(?P<t>x)?")', 1),
    ("re_replace_fn", 'replace(str({a}) $ " a1 b", R"(?P<w>[a-z])(?P<d>\\d)?", \\m -> "<" $ str(m) $ ">")', 1),
    ("re_replace_str", 'replace(str({a}), R"(.)(x)?", "$2$1")', 1),
    # operator patterns whose inverse divides: a zero factor / unusual literal must fail to match, not crash
    ("switch_mul0", "switch ({a}) case 0 * k -> k case k * 0 -> k case _ -> 2", 1),
    ("switch_mulk", "switch ({a}) case 3 * k -> k case k * (-2) -> k case _ -> 2", 1),
    ("declare_mul0", "try ((k * 0) := {a}; k) catch e -> \"E\"", 1),
    ("switch_plus_div", "switch ({a}) case k + 0 -> k case _ -> 2", 1),
    ("switch_ratio", "switch ({a}) case p / q -> [p, q] case _ -> 2", 1),
    ("backref", "\\1", 0), ("import_missing", 'import "/nonexistent/x.noul"', 0),
]
OPASSIGN_FUNCS = ["append", "++", "max", "$", "|.", "||", ".+", "-", "*", "//", "%", "^", "&", ">>", "!!", "zip", "**"]
DOT_FUNCS = ["len", "first", "last", "sort", "sum", "abs", "keys", "reverse", "int", "str", "list", "unique", "tail"]


def fill(r, tmpl, args):
    m = {"a": args[0] if len(args) > 0 else "", "b": args[1] if len(args) > 1 else "",
         "c": args[2] if len(args) > 2 else "", "f": r.choice(OPASSIGN_FUNCS) if "{f}=" in tmpl or "{f})" in tmpl else r.choice(DOT_FUNCS),
         "n": str(r.choice([0, 1, 5, 20]))}
    return tmpl.format(**m)


class _Dry:
    """Stand-in for a Shard during the cheap first pass: only notes whether anything would be reported."""
    def __init__(self):
        self.hit = False
        self.excluded = 0

    def violation(self, *a):
        self.hit = True

    def inconc(self, *a):
        self.hit = True

    def count(self, *a):
        pass


def classify(sh, text, ev, argnames, base_vars, callee, tier_key):
    """Decide one sweep/template event. Returns 'throw' if the call raised (for the containment pass)."""
    o = ev.get("o")
    ct = ev.get("canon_trouble")
    if o == "ok" and ct:
        # the call returned a lazy stream and drawing its first elements failed
        if "panic" in ct:
            ev = dict(ev, o="panic", panic=ct["panic"])
        else:
            ev = dict(ev, o="fuel")
        o = ev["o"]
    inf = any(a in pool.INFINITE for a in argnames)
    if callee in ("tmpl:til_by", "tmpl:range_by", "by", "til", "to") and any(a in ZERO for a in argnames):
        inf = True     # a zero-step range is an infinite stream
    huge = any("huge" in pool.BY_NAME[a][3] for a in argnames if a in pool.BY_NAME)
    replay = {"job": {"kind": "eval", "prelude": pool.PRELUDE, "stmts": [text], "fuel": FUEL, "probe": PROBES}}
    if o in ("timeout", "skipped", "lost") or (o == "crash" and ev.get("why") in ("alloc", "killed")):
        if inf or huge:
            sh.excluded += 1
            sh.count("excluded:%s-arg-%s" % ("infinite" if inf else "huge", o))
        else:
            sh.inconc(o + ":" + str(ev.get("why", "")), text)
        return None
    if o == "crash":
        if ev.get("why") == "stack":
            # unbounded native recursion on small finite input would be a crash; deep recursion driven
            # by a huge argument is a resource bound
            sh.violation("crash-stack|%s" % callee, "%s overflowed the native stack" % text, replay)
        else:
            sh.violation("crash|%s|%s" % (callee, ev.get("rc")), "%s killed the interpreter (rc=%s): %s" % (text, ev.get("rc"), ev.get("stderr", "")[-160:]), replay)
        return None
    if o == "panic" and "capacity overflow" in ((ev.get("panic") or {}).get("msg") or ""):
        # Vec::with_capacity refusing an absurd size: the same class as an allocation failure
        # (a result that cannot exist in memory) -> bound of the exploration, not a verdict
        sh.excluded += 1
        sh.count("excluded:capacity-overflow")
        return None
    if o == "panic":
        p = ev.get("panic") or {}
        key = "panic|%s|%s" % (callee, norm_msg(p.get("msg")))
        sh.violation(key, "%s panics: %s [%s %s]" % (text, p.get("msg", "")[:100], p.get("fn", "")[:80], p.get("loc", "").split("/")[-1]), replay)
        return None
    if o in ("fuel", "depth"):
        if inf:
            sh.excluded += 1
            sh.count("excluded:infinite-arg-" + o)
        elif huge and o == "fuel":
            # e.g. `2^53 ** xs`, `list(0 til 2^64 by 256)`: terminating but astronomically long
            sh.excluded += 1
            sh.count("excluded:huge-arg-fuel")
        elif o == "fuel":
            sh.violation("hang|%s" % callee, "%s did not terminate within %d evaluation ticks on finite arguments" % (text, FUEL), replay)
        else:
            sh.inconc("depth", text)
        return None
    # ok / throw / break / continue / return at top level are all "a value or an ordinary error"
    sh.count("outcome:" + o)
    # post-call probes
    pr = ev.get("probe") or []
    for i, (p, want) in enumerate(zip(pr, PROBE_EXPECT)):
        if p.get("o") != "ok" or norm(p.get("v")) != want:
            sh.violation("probe|%s" % callee, "after %s the interpreter failed probe %r: %s" % (text, PROBES[i], str(p)[:120]), replay)
            break
    # argument variables unchanged
    vars_ = ev.get("vars") or {}
    for a in argnames:
        if a in vars_ and a in base_vars and norm(vars_[a]) != base_vars[a]:
            sh.violation("argchanged|%s|%s" % (callee, pool.BY_NAME[a][2]),
                         "%s changed variable %s: %s -> %s" % (text, a, str(base_vars[a])[:80], str(norm(vars_[a]))[:80]), replay)
    return o


MEM = 96 << 20


def run_batch(sh, w, batch, base_vars, tier_key, fuel=None):
    fuel = fuel or FUEL
    """batch: list of (text, argnames, callee).  First pass: every statement in a fresh child scope of
    a shared base environment (cheap).  Anything that would be reported (or looks inconclusive) is then
    re-run alone in a completely fresh environment, and only that second observation is recorded."""
    if not batch:
        return
    if fuel == FUEL:
        # calls that receive an infinite stream are excluded when they run out of fuel anyway:
        # give them a small budget so that they do not dominate the run time
        inf_part = [b for b in batch if any(a in pool.INFINITE for a in b[1])]
        if inf_part:
            run_batch(sh, w, inf_part, base_vars, tier_key, fuel=FUEL_INF)
            batch = [b for b in batch if not any(a in pool.INFINITE for a in b[1])]
            if not batch:
                return
    observe = sorted({a for _, args, _ in batch for a in args})
    evs = core.eval_all(w, [b[0] for b in batch], prelude=pool.PRELUDE, child_each=True, fresh_each=True, fuel=fuel,
                        observe=observe, probe=PROBES, values=False, touch=True, mem=MEM, jid="c14")
    threw = []
    redo = []
    for (text, args, callee), ev in zip(batch, evs):
        dry = _Dry()
        res = classify(dry, text, ev, args, base_vars, callee, tier_key)
        if dry.hit:
            redo.append((text, args, callee))
            continue
        sh.seen(text, nontrivial=bool(args))
        sh.excluded += dry.excluded
        classify(sh, text, ev, args, base_vars, callee, tier_key)
        if res == "throw":
            threw.append((text, args, callee))
        if res in ("ok", "throw"):
            sh.sample({"stmt": text, "outcome": res, "ticks": ev.get("ticks"), "err": ev.get("err")}, cap=3)
    if redo:
        sh.count("confirm:rerun-in-fresh-env", len(redo))
        # few statements, and a panic among them pays for symbolising its backtrace (about a second of CPU, more on a
        # loaded machine): the confirming run gets a generous watchdog so that a real panic is not lost to a timeout
        saved_budget = w.cpu_budget
        w.cpu_budget = max(saved_budget, 12.0)
        try:
            evs = core.eval_all(w, [b[0] for b in redo], prelude=pool.PRELUDE, fresh_each=True, fuel=fuel,
                                observe=observe, probe=PROBES, values=False, touch=True, mem=MEM, jid="c14r")
        finally:
            w.cpu_budget = saved_budget
        for (text, args, callee), ev in zip(redo, evs):
            sh.seen(text, nontrivial=bool(args))
            res = classify(sh, text, ev, args, base_vars, callee, tier_key)
            if res == "throw":
                threw.append((text, args, callee))
    # containment pass: an error that the bare call raised must be received by try/catch
    if threw:
        stmts = ["try (%s) catch __e -> 77" % t for t, _, _ in threw]
        evs = core.eval_all(w, stmts, prelude=pool.PRELUDE, child_each=True, fresh_each=True, fuel=fuel, probe=PROBES[:1],
                            mem=MEM, jid="c14c")
        for (text, args, callee), s, ev in zip(threw, stmts, evs):
            sh.seen(s, nontrivial=True)
            sh.count("contain:checked")
            if ev.get("o") == "ok" and norm(ev.get("v")) == {"i": "77"}:
                continue
            if ev.get("o") in ("crash", "timeout", "skipped", "fuel", "depth"):
                sh.inconc("contain:" + ev.get("o"), s)
                continue
            # a call whose outcome depends on dict iteration order (random per map) may raise in one run
            # and not in the next: report only if the bare call raises and the wrapped one escapes in
            # each of three fresh repetitions
            rep = core.eval_all(w, [text, s] * 3, prelude=pool.PRELUDE, fresh_each=True, fuel=fuel, mem=MEM, jid="c14cc")
            bare_raise = all(e.get("o") == "throw" for e in rep[0::2])
            wrapped_bad = all(not (e.get("o") == "ok" and norm(e.get("v")) == {"i": "77"}) for e in rep[1::2])
            if not (bare_raise and wrapped_bad):
                sh.count("contain:nondeterministic-outcome")
                continue
            sh.violation("uncaught|%s" % callee, "%s raised, but `%s` gave %s %s" % (text, s, ev.get("o"), str(ev.get("v") or ev.get("err"))[:80]),
                         {"job": {"kind": "eval", "prelude": pool.PRELUDE, "stmts": [s]}})


# ---------------------------------------------------------------- fault injection through the fuel hook

INJECT_PROGRAMS = [
    # (prelude statements, the statement that runs under try/catch, variables it names)
    (["x := [1, 2, [3, 4]]", "y := x", "d := {1: [1], 2: [2]}", "s := \"abc\"", "k := 0"],
     "x[2][0] += (k = 5; 10)", ["x", "k"]),
    (["x := [1, 2, [3, 4]]", "y := x", "d := {1: [1], 2: [2]}", "s := \"abc\"", "k := 0"],
     "d[1] append= len(x)", ["d"]),
    (["x := [3, 1, 2]", "y := x", "d := {}", "s := \"abc\"", "k := 0"],
     "x = sort(x map (\\e -> e * 2)) ++ [len(s)]", ["x"]),
    (["x := [3, 1, 2]", "y := x", "d := {:0}", "s := \"abc\"", "k := 0"],
     "for (e <- x) d[e] += 1", ["d"]),
    (["x := [3, 1, 2]", "y := [x, x]", "d := {}", "s := \"abc\"", "k := 0"],
     "swap x[0], x[2]", ["x"]),
    (["x := [3, 1, 2]", "y := [x, x]", "d := {}", "s := \"abc\"", "k := 0"],
     "every x[1:] = k + 1", ["x"]),
    (["x := [3, 1, 2]", "y := x", "d := {\"a\": [1]}", "s := \"abc\"", "k := 0"],
     "k = (for (e <- x; if e > 1) yield e * 2) then sum", ["k"]),
    (["x := [3, 1, 2]", "y := x", "d := {\"a\": [1]}", "s := \"abc\"", "k := 0"],
     "s $= str(x fold +)", ["s"]),
    (["x := [3, 1, 2]", "y := x", "d := {\"a\": [1]}", "s := \"abc\"", "k := 0"],
     "x, k = [k, x]", ["x", "k"]),
    (["x := [[1], [2]]", "y := x", "d := {\"a\": [1]}", "s := \"abc\"", "k := 0"],
     "pop x[0]; x[0] append= pop d[\"a\"]", ["x", "d"]),
]
ALLV = ["x", "y", "d", "s", "k"]


def run_inject(sh, w, r, count):
    for _ in range(count):
        prelude, stmt, named = r.choice(INJECT_PROGRAMS)
        n = r.randint(2, 60)   # tick 1 is the `try` node itself, i.e. before the handler exists
        wrapped = "try (%s; \"done\") catch __e -> [\"caught\", __e]" % stmt
        job = {"id": "inj", "kind": "eval", "stmts": prelude + [wrapped, "1 + 1"], "observe": ALLV,
               "fail_at": {"stmt": len(prelude), "n": n}, "fuel": 100000}
        res = w.run(job)
        evs = res["events"]
        case = "%s @tick %d" % (stmt, n)
        if len(evs) < len(prelude) + 2:
            last = evs[-1] if evs else {}
            if last.get("o") == "panic":
                p = last.get("panic") or {}
                sh.seen(case)
                sh.violation("inject-panic|%s" % norm_msg(p.get("msg")), "injected error at tick %d of `%s` made the interpreter panic: %s" % (n, stmt, p.get("msg")), {"job": job})
            else:
                sh.inconc("inject:short", case)
            continue
        before = evs[len(prelude) - 1]["vars"]
        ev = evs[len(prelude)]
        after = ev["vars"]
        injected = ev.get("inj", False)
        sh.seen(case, nontrivial=injected)
        sh.count("inject:fired" if injected else "inject:past-end")
        replay = {"job": job}
        if ev.get("o") != "ok":
            sh.violation("inject-escape|%s" % ev.get("o"), "error injected at tick %d of `%s` was not contained by try/catch: outcome %s %s" % (n, stmt, ev.get("o"), ev.get("err")), replay)
            continue
        v = norm(ev.get("v"))
        if injected:
            ok = (isinstance(v, dict) and "l" in v and len(v["l"]) == 2 and v["l"][0] == {"s": "caught"}
                  and str(v["l"][1].get("s", "")).endswith("verif: injected"))   # builtins prefix their name
            if not ok:
                sh.violation("inject-swallowed", "error injected at tick %d of `%s` did not reach the catch: value %s" % (n, stmt, str(v)[:100]), replay)
                continue
            for name in ALLV:
                if name not in named and norm(after[name]) != norm(before[name]):
                    sh.violation("inject-collateral|%s" % name, "error injected at tick %d of `%s` changed unnamed variable %s" % (n, stmt, name), replay)
        else:
            if v != {"s": "done"}:
                sh.violation("inject-none", "`%s` without injection gave %s" % (stmt, str(v)[:80]), replay)
        last = evs[len(prelude) + 1]
        if last.get("o") != "ok" or norm(last.get("v")) != {"i": "2"}:
            sh.violation("inject-unusable", "after a caught injected error the interpreter is unusable: %s" % str(last)[:120], replay)


# ---------------------------------------------------------------- generated programs with planted faults

def run_programs(sh, w, r, count):
    """Programs from the C05 generator (which plants type errors, bad indices, arity errors, undeclared
    names, redeclarations, explicit throws) wrapped in try/catch: whenever the reference interpreter
    says the program raises, the enclosing catch must receive the error; no program may panic."""
    from . import c05, c05_model as M
    done = 0
    while done < count:
        batch = []
        while len(batch) < 150:
            g = c05.Gen(r, r.randint(15, 50))
            try:
                ast = g.program()
                res = M.run_program(ast)
                text = M.render(ast)
            except (M.Decline, RecursionError):
                continue
            batch.append(("try (%s; \"completed\") catch __e -> \"CAUGHT\"" % text, res))
        done += len(batch)
        evs = core.eval_all(w, [b[0] for b in batch], fresh_each=True, fuel=400000, probe=PROBES[:1], jid="c14p")
        for (text, res), ev in zip(batch, evs):
            sh.seen(text, nontrivial=res["o"] == "throw")
            o = ev.get("o")
            replay = {"job": {"kind": "eval", "stmts": [text]}}
            if o in ("crash", "timeout", "skipped", "lost", "fuel", "depth"):
                if o == "crash" and ev.get("why") not in ("alloc", "killed", "stack"):
                    sh.violation("program-crash|%s" % ev.get("rc"), "generated program killed the interpreter: %s" % text[:200], replay)
                else:
                    sh.inconc("program:" + o, text[:120])
                continue
            if o == "panic":
                p = ev.get("panic") or {}
                sh.violation("program-panic|%s" % norm_msg(p.get("msg")), "generated program panics (%s): %s" % (p.get("msg", "")[:80], text[:200]), replay)
                continue
            want = "CAUGHT" if res["o"] == "throw" else "completed"
            sh.count("program:" + want)
            if o != "ok" or norm(ev.get("v")) != {"s": want}:
                sh.violation("program-containment|%s" % want, "program expected to end as %s under try/catch gave %s %s: %s" % (want, o, str(ev.get("v") or ev.get("err"))[:60], text[:200]), replay)
                continue
            pr = (ev.get("probe") or [{}])[0]
            if pr.get("o") != "ok":
                sh.violation("program-unusable", "interpreter unusable after a caught error: %s" % text[:200], replay)


# ---------------------------------------------------------------- shard

def shard(ctx, si, n):
    sh = core.Shard("C14")
    r = core.rng_for("C14", ctx.seed, si)
    w = core.Worker(cpu_budget=1.5 if ctx.tier == "quick" else 4.0)
    try:
        names = sorted(x["name"] for x in core.global_names(w) if x["kind"] in ("builtin", "type"))
        callables = [x for x in names if x not in pool.EXCLUDED]
        sh.count("callables_total", 0)
        # canonical values of the pool variables in an untouched environment
        ev0 = core.eval_all(w, ["0"], prelude=pool.PRELUDE, fresh_each=True, observe=pool.NAMES)[0]
        base_vars = {k: norm(v) for k, v in ev0["vars"].items()}
        mine = [c for i, c in enumerate(callables) if i % n == si]
        P = pool.NAMES
        import time as _t

        def timed(cat, batch):
            t0 = _t.time()
            for i in range(0, len(batch), 400):
                run_batch(sh, w, batch[i:i + 400], base_vars, ctx.tier)
            sh.count("wall_ms:" + cat, int((_t.time() - t0) * 1000))

        for c in mine:
            _c0 = _t.time()
            sh.count("callables_swept")
            timed("singles", [("%s()" % c, [], c)] + [("%s(%s)" % (c, a), [a], c) for a in P])
            npairs = ctx.plan["pairs_per_callable"]
            if npairs >= len(P) ** 2:
                pairs = [(a, b) for a in P for b in P]
            else:
                pairs = [(r.choice(P), r.choice(P)) for _ in range(npairs)]
                if ctx.plan.get("quick_pool"):
                    # all pairs over the reduced pool (one or two representatives per kind)
                    qp = [(a, b) for a in pool.QUICK for b in pool.QUICK]
                    timed("quick_pairs", [("%s(%s, %s)" % (c, a, b), [a, b], c) for a, b in qp])
            timed("pairs", [("%s(%s, %s)" % (c, a, b), [a, b], c) for a, b in pairs])
            # infix spelling for a sample (goes through the chain evaluator and run2)
            timed("infix", [("%s %s %s" % (a, c, b), [a, b], c) for a, b in r.sample(pairs, min(len(pairs), max(40, len(pairs) // 12)))])
            tr = []
            for _ in range(ctx.plan["triples_per_callable"]):
                a, b, d = r.choice(P), r.choice(P), r.choice(P)
                tr.append(("%s(%s, %s, %s)" % (c, a, b, d), [a, b, d], c))
            timed("triples", tr)
            if _t.time() - _c0 > 4:
                sh.notes.append("slow callable %s: %.1fs" % (c, _t.time() - _c0))
        # syntax templates, split across shards; operands: all pool values for 1-argument templates,
        # random tuples otherwise
        reps = ctx.plan["templates"]
        batch = []
        for ti, (tname, tmpl, ar) in enumerate(TEMPLATES):
            if ti % n != si % n and n > 1:
                continue
            if ar == 0:
                combos = [[]]
            elif ar == 1:
                combos = [[a] for a in P]
            else:
                combos = [[r.choice(P) for _ in range(ar)] for _ in range(60 * reps)]
                if ar == 2:
                    # two-operand templates: all pairs over the reduced pool in every tier
                    combos += [[a, b] for a in pool.QUICK for b in pool.QUICK]
            for args in combos:
                batch.append((fill(r, tmpl, args), list(args), "tmpl:" + tname))
        timed("templates", batch)
        run_inject(sh, w, r, max(1, ctx.plan["inject"] // n))
        run_programs(sh, w, r, max(1, ctx.plan["programs"] // n))
    finally:
        w.close()
    return sh
