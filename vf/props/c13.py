"""C13  The sequence library matches its executable specification.

Monitor: reference-model monitor.  Every case is one call of one sequence builtin on a small input;
the real interpreter's canonical result is compared with a one-line Python definition written from
BUILTINS.md / README.md (and, where those are silent, from DESIGN.md Appendix A "Sequence library").

  grid     a fixed, seed-independent sweep: every operation x every applicable input kind (list,
           string, vector, bytes, dict keys, stream) x element profile x five fixed inputs of length
           0..5 (with duplicates) x every parameter/function variant of the operation
  random   seeded cases: random operation, kind, profile, input of length 0..8 drawn with replacement
           from a small pool (so duplicates and ==-equal-but-distinct values such as 1 / 1.0 are
           frequent), random variant (numeric parameter 0, 1, 2, len, len+1; function argument from
           the per-profile families: even, odd, (> 2), id, \\x -> x % 3, len, <=> on f, +, max, ..)

Expectation kinds: exact value, "one of" (max/min among ==-equal candidates), dictionary compared as
a map on ==-classes of keys, groups compared as a multiset (group_all: hash order), must-raise.
"""
import functools
import itertools
import json
from fractions import Fraction as Fr

from .. import core
from ..values import norm, to_canon, from_canon, src, ckey, Vec

RULE = ("cases = (operation, input kind, element profile, input elements, variant = numeric parameter or function "
        "argument, call spelling f(a, b) / a f b); inputs: list, string (elements = chars), vector, bytes, dict "
        "(treated as its key list) and stream (a range or lazy_map over a range, so any element sequence incl. "
        "duplicates), lengths 0..8, elements drawn with replacement from per-profile pools (ints, mixed numbers "
        "with 1/1.0 pairs, strings, nested lists, mixed types with null); a fixed grid (5 inputs of length 0..5 per "
        "profile x all variants) is run at every seed, the rest is seeded.  distinct = distinct statement text; "
        "non-trivial = the primary input has at least 2 elements.  Kind rule: filter/reject/partition/take/drop/"
        "sort/sort_on/reverse/unique keep the kind of list/string/vector/bytes, window/prefixes/suffixes/group/"
        "group_all give same-kind pieces (BUILTINS.md says 'same type'); for dict input the key list and for stream "
        "input a list is accepted (Appendix A; `drop` may also return a stream, it is read element-wise).  Dict "
        "inputs: only order-independent results are checked and compared as multisets; order-dependent operations "
        "get dicts of size 0/1 only.  group_all group order and every dict result are compared order-insensitively. "
        "max/min may return any of several ==-equal extremal elements, but max(xs) / min(xs) must be the same element in the same representation as fold(xs, max) / fold(xs, min) computed by the interpreter.  Left out as undocumented corners: window 0, "
        "group 0, negative counts, take/drop n on non-ASCII strings (byte slicing, C10), the value forms of find/"
        "locate on strings (byte offset), ++ on strings or mixed kinds, cross-type sort, join of non-int/non-string "
        "elements (Display format), count(xs, value), sum/product(xs, f) and the return value of each (documented nowhere), "
        "stream(seq) wrappers (C11 finding), the kind of `xs ** n` for non-lists "
        "(compared element-wise), group_all without function / with a binary relation (BUILTINS.md says relation, the "
        "implementation takes a key function: key functions are used).")
ASSUMPTIONS = [
    "Python's int/Fraction/float comparison and arithmetic on the small exact values used is the reference order/arithmetic (numeric tower itself is C07/C08)",
    "orders documented only in source comments / Appendix A are the documented orders: permutations and combinations lexicographic by index, subsequences big-endian binary over inclusion bits, ^^ and ** odometer order with the last coordinate fastest",
    "`\"abc\" split \"\"` follows Appendix A ([\"\", \"a\", \"b\", \"c\", \"\"]); transpose is ragged (Appendix A)",
    "rationals equal to an int or float are kept out of hash-based operations (unique, frequencies, group_all, dict keys): that defect belongs to C09",
    "fuel/depth/timeout/crash/panic outcomes are inconclusive here (C14 judges them)",
]
PLAN = {"quick": {"random": 100000}, "thorough": {"random": 960000}}
REG = dict(level="exploration", min_nontrivial=10000, min_nontrivial_thorough=100000,
           technique="runtime reference-model monitor: one-line Python definitions of ~70 sequence operations vs the real interpreter's structural result, fixed grid + seeded sweeps over input kind x profile x length 0..8 x parameter/function variants",
           claim="Every executed call returned the value (and sequence kind) the documented one-line definition gives, or raised where the definition has no value; sort/sort_on stability, unique first occurrences, kind preservation and the enumeration order of permutations/combinations/subsequences/^^/** are compared exactly. Exploration over small inputs, not a proof.",
           note="Trusts the Python reference definitions and the harness's structural value dump; dict iteration order is never assumed; undocumented corners listed in the rule are not asserted.")

FUEL = 3_000_000

# ---------------------------------------------------------------- model helpers


def truthy(v):
    if v is None:
        return False
    if isinstance(v, (bool, int, float, Fr)):
        return v != 0
    return len(v) > 0


def trem(a, b):
    q = abs(a) // abs(b)
    if (a >= 0) != (b >= 0):
        q = -q
    return a - b * q


def eq(a, b):
    return ckey(a) == ckey(b)


def ncmp(a, b):
    return (a > b) - (a < b)


def stable_sort(xs, cmp):
    return sorted(xs, key=functools.cmp_to_key(cmp))


def on(cmp, key):
    return lambda a, b: cmp(key(a), key(b))


def rev(cmp):
    return lambda a, b: -cmp(a, b)


# ---------------------------------------------------------------- pools, profiles, kinds

POOLS = {
    "int": [0, 1, 2, 3, 4, 5, -1, -2, 7, 9],
    "byte": [0, 1, 2, 3, 7, 65, 97, 255, 128],
    "num": [0, 1, 2, 3, -1, 10, 1.0, 2.0, 2.5, 0.0, -1.5, Fr(1, 3), Fr(-2, 3), Fr(5, 3)],
    "numf": [0, 1, 2, 3, -1, 1.0, 2.0, 2.5, 0.0, -1.5, 0.5],
    "numq": [0, 1, 2, 3, -1, Fr(1, 3), Fr(-2, 3), Fr(5, 3), Fr(1, 2)],
    "chr": ["a", "b", "c", "A", " ", "é", "中", "z"],
    "str": ["", "a", "b", "ab", "abc", "B", "a b", "ba"],
    "lst": [[], [1], [2], [1, 2], [2, 1], [1, 2, 3], [0], [3], [1, 1]],
    "mixed": [0, 1, 2, None, "", "a", "ab", [], [1], [1, 2], 1.0, 2.5, Fr(1, 3), [None], "1"],
    "txt": ["a", "b", ",", " ", " ", "\n", "\n", "\t", "é", "\r", "　", "c"],
    "seqs": [[], [1], [1, 2], "a", "ab", Vec([3]), Vec([1, 2.5]), b"\x05\x06", [[1], 2], [None]],
}
KIND_PROFILES = {
    "list": ["int", "num", "numf", "numq", "str", "lst", "mixed", "seqs"],
    "string": ["chr", "txt"],
    "vector": ["int", "num", "numf", "numq"],
    "bytes": ["byte"],
    "dict": ["int", "str", "mixed", "lst"],
    "stream": ["int", "mixed", "lst", "str", "numf", "seqs"],
}
KINDS = ["list", "string", "vector", "bytes", "dict", "stream"]
ALL = tuple(KINDS)
NODICT = ("list", "string", "vector", "bytes", "stream")

GRID = {
    "int": [[], [2], [3, 1], [1, 2, 1], [2, 0, 3, 2, -1], [1, 2, 3, 4]],
    "byte": [[], [2], [3, 1], [1, 2, 1], [255, 0, 3, 255, 65]],
    "num": [[], [1.0], [2, 1.0], [1, 1.0, 1], [2.5, 1, Fr(1, 3), 1.0, 0]],
    "numf": [[], [1.0], [2, 1.0], [1, 1.0, 1], [2.5, 1, -1.5, 1.0, 0]],
    "numq": [[], [Fr(1, 3)], [2, Fr(1, 3)], [1, Fr(1, 3), 1], [Fr(5, 3), 1, Fr(-2, 3), 1, 0]],
    "chr": [[], ["a"], ["b", "a"], ["a", "b", "a"], ["c", "a", "é", "c", "A"]],
    "txt": [[], ["a"], ["a", ","], ["a", " ", "b"], ["a", "\n", "b", "\n"], [" ", "a", ",", ",", "b", " "]],
    "str": [[], ["a"], ["b", "a"], ["ab", "", "ab"], ["ba", "a", "abc", "a", ""]],
    "lst": [[], [[1]], [[2], [1, 2]], [[1], [], [1]], [[2, 1], [1], [1, 2, 3], [1], []]],
    "mixed": [[], [None], [0, "a"], [1, 1.0, 1], [None, "", [1], 2.5, None]],
    "seqs": [[], [[1, 2]], ["ab", [1]], [[], "a", []], [Vec([1, 2.5]), "ab", b"\x05\x06", [], [None]]],
}


def gen_elems(r, prof, n, distinct=False):
    pool = POOLS[prof]
    k = r.choice([2, 3, 4, len(pool)])
    sub = r.sample(pool, min(k, len(pool)))
    if not distinct:
        return [r.choice(sub) for _ in range(n)]
    out, seen = [], set()
    cand = list(pool)
    r.shuffle(cand)
    for x in cand:
        if len(out) >= n:
            break
        if ckey(x) not in seen:
            seen.add(ckey(x))
            out.append(x)
    return out


def dedupe(xs):
    out, seen = [], set()
    for x in xs:
        if ckey(x) not in seen:
            seen.add(ckey(x))
            out.append(x)
    return out


def K(kind, elems):
    """Same-kind sequence holding elems (dict -> its key list, stream -> list: Appendix A)."""
    elems = list(elems)
    if kind == "string":
        return "".join(elems)
    if kind == "vector":
        return Vec(elems)
    if kind == "bytes":
        return bytes(elems)
    return elems


def render(kind, xs, r=None):
    if kind == "list":
        return src(list(xs))
    if kind == "string":
        return src("".join(xs))
    if kind == "vector":
        return "V(%s)" % ", ".join(src(x) for x in xs)
    if kind == "bytes":
        return "B[%s]" % ", ".join(str(x) for x in xs)
    if kind == "dict":
        if not xs:
            return "{}"
        if r is not None and r.random() < 0.4:
            return "{%s}" % ", ".join("%s: %d" % (src(x), i) for i, x in enumerate(xs))
        return "{%s}" % ", ".join(src(x) for x in xs)
    if kind == "stream":
        n = len(xs)
        if n == 0:
            return "(1 til 1)" if (r is None or r.random() < 0.5) else "lazy_map(0 til 0, \\i -> [][i])"
        if all(isinstance(x, int) and not isinstance(x, bool) for x in xs):
            step = xs[1] - xs[0] if n > 1 else 1
            if step > 0 and all(xs[i + 1] - xs[i] == step for i in range(n - 1)):
                if step == 1:
                    return "(%s to %s)" % (src(xs[0]), src(xs[-1]))
                return "(%s til %s by %d)" % (src(xs[0]), src(xs[-1] + 1), step)
        return "lazy_map(0 til %d, \\i -> %s[i])" % (n, src(list(xs)))
    raise KeyError(kind)


# ---------------------------------------------------------------- function families (source text, Python model)

def _b(x):
    return int(bool(x))


PRED = {
    "int": [("even", lambda x: x % 2 == 0), ("odd", lambda x: x % 2 == 1), ("(> 2)", lambda x: x > 2),
            ("(< 3)", lambda x: x < 3), ("(== 1)", lambda x: x == 1), ("(\\x -> x % 3)", lambda x: trem(x, 3)),
            ("id", lambda x: x), ("(\\x -> 0)", lambda x: 0), ("(\\x -> 1)", lambda x: 1)],
    "num": [("(> 1)", lambda x: x > 1), ("(< 2)", lambda x: x < 2), ("id", lambda x: x), ("(== 1)", lambda x: x == 1),
            ("(\\x -> 0)", lambda x: 0), ("(\\x -> 1)", lambda x: 1)],
    "str": [("(== \"a\")", lambda x: x == "a"), ("(!= \"a\")", lambda x: x != "a"), ("(< \"b\")", lambda x: x < "b"),
            ("(> \"a\")", lambda x: x > "a"), ("id", lambda x: x), ("(\\x -> 0)", lambda x: 0), ("(\\x -> 1)", lambda x: 1)],
    "lst": [("id", lambda x: x), ("(\\x -> len(x) > 1)", lambda x: len(x) > 1), ("(\\x -> x == [1])", lambda x: x == [1]),
            ("(\\x -> 0)", lambda x: 0), ("(\\x -> 1)", lambda x: 1)],
    "mixed": [("id", lambda x: x), ("(\\x -> x == null)", lambda x: x is None), ("(== 1)", lambda x: eq(x, 1)),
              ("(\\x -> 0)", lambda x: 0), ("(\\x -> 1)", lambda x: 1)],
}
PRED["seqs"] = [("id", lambda x: x), ("(\\x -> len(x) > 1)", lambda x: len(x) > 1), ("(\\x -> 0)", lambda x: 0)]
MAPF = {
    "int": [("(+ 1)", lambda x: x + 1), ("(* 2)", lambda x: x * 2), ("(\\x -> x % 3)", lambda x: trem(x, 3)), ("id", lambda x: x),
            ("(\\x -> [x, x])", lambda x: [x, x]), ("(\\x -> x .. 1)", lambda x: [x, 1]), ("even", lambda x: _b(x % 2 == 0)),
            ("str", lambda x: str(x)), ("(\\x -> x * x)", lambda x: x * x)],
    "num": [("id", lambda x: x), ("(\\x -> [x])", lambda x: [x]), ("(> 1)", lambda x: _b(x > 1)), ("(* 2)", lambda x: x * 2)],
    "str": [("id", lambda x: x), ("(\\x -> x $ x)", lambda x: x + x), ("(\\x -> [x])", lambda x: [x]),
            ("(== \"a\")", lambda x: _b(x == "a"))],
    "lst": [("len", len), ("id", lambda x: x), ("reverse", lambda x: x[::-1]), ("sum", sum), ("(\\x -> x +. 0)", lambda x: x + [0])],
    "mixed": [("id", lambda x: x), ("(\\x -> [x])", lambda x: [x]), ("(\\x -> x .. x)", lambda x: [x, x]),
              ("(\\x -> x == null)", lambda x: _b(x is None))],
}
MAPF["seqs"] = [("id", lambda x: x), ("len", len), ("(\\x -> [x])", lambda x: [x])]
SEQF = {   # sequence-valued, for flat_map
    "int": [("(\\x -> [x, x])", lambda x: [x, x]), ("(\\x -> [])", lambda x: []), ("(\\x -> 1 to x)", lambda x: list(range(1, x + 1))),
            ("(\\x -> [x] ** 2)", lambda x: [x, x]), ("(\\x -> str(x))", lambda x: list(str(x))), ("(\\x -> V(x, 1))", lambda x: [x, 1])],
    "num": [("(\\x -> [x, x])", lambda x: [x, x]), ("(\\x -> [])", lambda x: [])],
    "str": [("id", lambda x: list(x)), ("(\\x -> x $ x)", lambda x: list(x + x)), ("(\\x -> [x])", lambda x: [x])],
    "lst": [("id", lambda x: x), ("reverse", lambda x: x[::-1]), ("(\\x -> [x])", lambda x: [x])],
    "mixed": [("(\\x -> [x, x])", lambda x: [x, x]), ("(\\x -> [])", lambda x: []), ("(\\x -> [[x]])", lambda x: [[x]])],
}
KEYF = {
    "int": [("id", lambda x: x), ("(\\x -> x % 3)", lambda x: trem(x, 3)), ("(\\x -> 0 - x)", lambda x: -x),
            ("(\\x -> x // 2)", lambda x: x // 2), ("(\\x -> 0)", lambda x: 0), ("abs", abs)],
    "num": [("id", lambda x: x), ("(\\x -> 0 - x)", lambda x: 0 - x), ("(\\x -> x > 1)", lambda x: _b(x > 1)), ("(\\x -> 0)", lambda x: 0)],
    "str": [("id", lambda x: x), ("len", len), ("(\\x -> x == \"a\")", lambda x: _b(x == "a")), ("(\\x -> 0)", lambda x: 0)],
    "chr": [("id", lambda x: x), ("ord", ord), ("(\\x -> ord(x) % 3)", lambda x: ord(x) % 3), ("(\\x -> x == \"a\")", lambda x: _b(x == "a")),
            ("(\\x -> 0)", lambda x: 0)],
    "lst": [("len", len), ("id", lambda x: x), ("sum", sum), ("(\\x -> 0)", lambda x: 0)],
    "mixed": [("id", lambda x: x), ("(\\x -> x == null)", lambda x: _b(x is None)), ("(\\x -> 0)", lambda x: 0)],
}
BINF = {
    "int": [("+", lambda a, b: a + b), ("-", lambda a, b: a - b), ("*", lambda a, b: a * b), ("max", max), ("min", min),
            ("..", lambda a, b: [a, b]), ("(\\a, b -> a * 2 + b)", lambda a, b: a * 2 + b)],
    "num": [("..", lambda a, b: [a, b]), ("(\\a, b -> a)", lambda a, b: a), ("(\\a, b -> b)", lambda a, b: b)],
    "numf": [("+", lambda a, b: a + b), ("*", lambda a, b: a * b), ("-", lambda a, b: a - b)],
    "numq": [("+", lambda a, b: a + b), ("*", lambda a, b: a * b), ("-", lambda a, b: a - b)],
    "str": [("$$", lambda a, b: a + b), ("..", lambda a, b: [a, b]), ("max", max), ("min", min), ("(\\a, b -> b $ a)", lambda a, b: b + a)],
    "lst": [("++", lambda a, b: a + b), ("..", lambda a, b: [a, b]), ("max", max), ("min", min)],
    "mixed": [("..", lambda a, b: [a, b]), ("(\\a, b -> a)", lambda a, b: a), ("(\\a, b -> b)", lambda a, b: b),
              ("(\\a, b -> [b, a])", lambda a, b: [b, a])],
}
CMPF = {
    "int": [("<=>", ncmp), (">=<", rev(ncmp)), ("(<=> on (\\x -> x % 3))", on(ncmp, lambda x: trem(x, 3))), ("(>=< on abs)", on(rev(ncmp), abs)),
            ("(\\a, b -> (a % 2) <=> (b % 2))", on(ncmp, lambda x: trem(x, 2)))],
    "num": [("<=>", ncmp), (">=<", rev(ncmp)), ("(<=> on (\\x -> x > 1))", on(ncmp, lambda x: x > 1))],
    "str": [("<=>", ncmp), (">=<", rev(ncmp)), ("(<=> on len)", on(ncmp, len))],
    "chr": [("<=>", ncmp), (">=<", rev(ncmp)), ("(<=> on (\\x -> ord(x) % 3))", on(ncmp, lambda x: ord(x) % 3))],
    "lst": [("<=>", ncmp), (">=<", rev(ncmp)), ("(<=> on len)", on(ncmp, len)), ("(<=> on sum)", on(ncmp, sum))],
}
RELF = {
    "int": [("==", lambda a, b: a == b), ("<", lambda a, b: a < b), ("<=", lambda a, b: a <= b), ("!=", lambda a, b: a != b),
            ("(\\a, b -> b - a == 1)", lambda a, b: b - a == 1), ("(\\a, b -> a % 2 == b % 2)", lambda a, b: trem(a, 2) == trem(b, 2)),
            ("(\\a, b -> 1)", lambda a, b: 1), ("(\\a, b -> 0)", lambda a, b: 0)],
    "num": [("==", lambda a, b: a == b), ("<", lambda a, b: a < b), ("<=", lambda a, b: a <= b)],
    "str": [("==", lambda a, b: a == b), ("<", lambda a, b: a < b), ("!=", lambda a, b: a != b),
            ("(\\a, b -> len(a) == len(b))", lambda a, b: len(a) == len(b))],
    "chr": [("==", lambda a, b: a == b), ("<", lambda a, b: a < b), ("!=", lambda a, b: a != b), ("<=", lambda a, b: a <= b)],
    "lst": [("==", lambda a, b: a == b), ("<", lambda a, b: a < b), ("(\\a, b -> len(a) == len(b))", lambda a, b: len(a) == len(b))],
    "mixed": [("==", eq), ("!=", lambda a, b: not eq(a, b)), ("(\\a, b -> 1)", lambda a, b: 1), ("(\\a, b -> 0)", lambda a, b: 0)],
}
ALIAS = {"byte": "int", "numf": "num", "numq": "num", "chr": "str", "txt": "str"}
SEEDV = {"int": 10, "byte": 10, "num": 2.5, "numf": 2.5, "numq": Fr(1, 3), "str": "z", "chr": "z", "txt": "z", "lst": [9],
         "mixed": None, "seqs": [9]}
ORDERED = ("int", "byte", "num", "numf", "numq", "str", "chr", "lst")     # profiles with a total order on their pool
ARITH = ("int", "byte", "numf", "numq")
HASHSAFE = ("int", "byte", "num", "numf", "numq", "str", "chr", "lst", "mixed")  # no rational == int/float pairs ("numq" has 1/2 only vs ints: safe too)


def fam(table, prof):
    if prof in table:
        return table[prof]
    return table.get(ALIAS.get(prof, prof), [])


# ---------------------------------------------------------------- case context and operation registry

class C:
    """One input: kind, profile, elements xs, source S; a second element list ys of the same profile (S2 = same kind),
    and two unrelated other sequences o1, o2 = (kind, elems, source)."""
    __slots__ = ("kind", "prof", "xs", "n", "S", "ys", "S2", "o1", "o2", "infix")

    def K(self, elems):
        return K(self.kind, elems)

    def call(self, name, a, b):
        if self.infix:
            return "%s %s %s" % (a, name, b)
        return "%s(%s, %s)" % (name, a, b)


OPS = []


def op(name, kinds=ALL, profs=None, dict_mode=None, maxlen=8, text=False):
    def deco(fn):
        OPS.append({"name": name, "fn": fn, "kinds": kinds, "profs": profs, "dict_mode": dict_mode, "maxlen": maxlen, "text": text})
        return fn
    return deco


def V(x):
    return ("v", x)


THROW = ("throw",)
GENERAL = ("int", "byte", "num", "numf", "numq", "str", "chr", "lst", "mixed", "seqs")
NOSEQS = ("int", "byte", "num", "numf", "numq", "str", "chr", "lst", "mixed")


def small_ns(n):
    """numeric parameters 0, 1, 2, len, len+1 with their corner tags"""
    out = []
    for k, tag in ((0, "n=0"), (1, ""), (2, ""), (n, "n=len"), (n + 1, "n=len+1")):
        if all(k != kk for kk, _ in out):
            out.append((k, tag))
    return out


# ----- element-wise higher-order functions

@op("map", profs=GENERAL, dict_mode="ms1")
def _map(c):
    for fs, f in fam(MAPF, c.prof):
        yield c.call("map", c.S, fs), (lambda f=f: V([f(x) for x in c.xs])), ""


@op("filter", profs=GENERAL, dict_mode="ms1")
def _filter(c):
    for fs, f in fam(PRED, c.prof):
        yield c.call("filter", c.S, fs), (lambda f=f: V(c.K(x for x in c.xs if truthy(f(x))))), ""


@op("reject", profs=GENERAL, dict_mode="ms1")
def _reject(c):
    for fs, f in fam(PRED, c.prof):
        yield c.call("reject", c.S, fs), (lambda f=f: V(c.K(x for x in c.xs if not truthy(f(x))))), ""


@op("partition", profs=GENERAL, dict_mode="ms_inner")
def _partition(c):
    for fs, f in fam(PRED, c.prof):
        yield (c.call("partition", c.S, fs),
               (lambda f=f: V([c.K(x for x in c.xs if truthy(f(x))), c.K(x for x in c.xs if not truthy(f(x)))])), "")


@op("flat_map", profs=NOSEQS, dict_mode="ms1")
def _flat_map(c):
    for fs, f in fam(SEQF, c.prof):
        yield c.call("flat_map", c.S, fs), (lambda f=f: V([y for x in c.xs for y in f(x)])), ""


@op("flatten", profs=("seqs", "lst", "str", "chr"), dict_mode=None)
def _flatten(c):
    yield "flatten(%s)" % c.S, (lambda: V([y for x in c.xs for y in (list(x) if not isinstance(x, str) else list(x))])), ""


@op("each", profs=NOSEQS, dict_mode="ms1")
def _each(c):
    for fs, f in fam(MAPF, c.prof)[:4]:
        # the return value of `each` is not documented: only the calls (argument and order) are observed
        yield ("(acc := []; %s; acc)" % c.call("each", c.S, "(\\e -> (acc +.= %s(e)))" % fs),
               (lambda f=f: V([f(x) for x in c.xs])), "")


@op("count", profs=GENERAL, dict_mode="exact")
def _count(c):
    yield "count(%s)" % c.S, (lambda: V(sum(1 for x in c.xs if truthy(x)))), "truthy"
    for fs, f in fam(PRED, c.prof):
        yield c.call("count", c.S, fs), (lambda f=f: V(sum(1 for x in c.xs if truthy(f(x))))), ""


@op("any", profs=GENERAL, dict_mode="exact")
def _any(c):
    yield "any(%s)" % c.S, (lambda: V(_b(any(truthy(x) for x in c.xs)))), "truthy"
    for fs, f in fam(PRED, c.prof):
        yield c.call("any", c.S, fs), (lambda f=f: V(_b(any(truthy(f(x)) for x in c.xs)))), ""


@op("all", profs=GENERAL, dict_mode="exact")
def _all(c):
    yield "all(%s)" % c.S, (lambda: V(_b(all(truthy(x) for x in c.xs)))), "truthy"
    for fs, f in fam(PRED, c.prof):
        yield c.call("all", c.S, fs), (lambda f=f: V(_b(all(truthy(f(x)) for x in c.xs)))), ""


def _first(c, f, want_index, soft):
    for i, x in enumerate(c.xs):
        if truthy(f(x)):
            return V(i if want_index else x)
    return V(None) if soft else THROW


@op("find", profs=GENERAL)
def _find(c):
    for fs, f in fam(PRED, c.prof):
        yield c.call("find", c.S, fs), (lambda f=f: _first(c, f, False, False)), ""


@op("find?", profs=GENERAL)
def _findq(c):
    for fs, f in fam(PRED, c.prof):
        yield c.call("find?", c.S, fs), (lambda f=f: _first(c, f, False, True)), ""


@op("locate", profs=GENERAL)
def _locate(c):
    for fs, f in fam(PRED, c.prof):
        yield c.call("locate", c.S, fs), (lambda f=f: _first(c, f, True, False)), ""
    if c.kind != "string":
        for v in (c.xs[-1:] + c.ys[:1]):
            yield c.call("locate", c.S, src(v)), (lambda v=v: _first(c, lambda x: eq(x, v), True, False)), "value"


@op("locate?", profs=GENERAL)
def _locateq(c):
    for fs, f in fam(PRED, c.prof):
        yield c.call("locate?", c.S, fs), (lambda f=f: _first(c, f, True, True)), ""
    if c.kind != "string":
        for v in (c.xs[-1:] + c.ys[:1]):
            yield c.call("locate?", c.S, src(v)), (lambda v=v: _first(c, lambda x: eq(x, v), True, True)), "value"


def _tw(c, f):
    i = 0
    while i < c.n and truthy(f(c.xs[i])):
        i += 1
    return i


@op("take", profs=GENERAL)
def _take(c):
    for fs, f in fam(PRED, c.prof):
        yield c.call("take", c.S, fs), (lambda f=f: V(c.K(c.xs[:_tw(c, f)]))), "pred"
    if c.kind != "dict" and not (c.kind == "string" and any(ord(ch) > 127 for ch in c.xs)):
        for k, tag in small_ns(c.n):
            yield c.call("take", c.S, str(k)), (lambda k=k: V(c.K(c.xs[:k]))), tag or "n"


@op("drop", profs=GENERAL)
def _drop(c):
    for fs, f in fam(PRED, c.prof):
        yield c.call("drop", c.S, fs), (lambda f=f: V(c.K(c.xs[_tw(c, f):]))), "pred"
    if c.kind != "dict" and not (c.kind == "string" and any(ord(ch) > 127 for ch in c.xs)):
        for k, tag in small_ns(c.n):
            yield c.call("drop", c.S, str(k)), (lambda k=k: V(c.K(c.xs[k:]))), tag or "n"


# ----- zips

def _zipfs(c, arity):
    fs = [("..", lambda *a: list(a))] if arity == 2 else []
    if arity == 2:
        fs += [("(\\a, b -> [b, a])", lambda a, b: [b, a]), ("(\\a, b -> a)", lambda a, b: a)]
        if c.prof in ("int", "byte"):
            fs += [("+", lambda a, b: a + b), ("-", lambda a, b: a - b)]
    else:
        fs += [("(\\a, b, c -> [c, a, b])", lambda a, b, c_: [c_, a, b])]
    return fs


@op("zip", profs=GENERAL)
def _zip(c):
    k1, y1, s1 = c.o1
    k2, y2, s2 = c.o2
    yield c.call("zip", c.S, s1), (lambda: V([list(t) for t in zip(c.xs, y1)])), ""
    yield "%s zip %s zip %s" % (c.S, s1, s2), (lambda: V([list(t) for t in zip(c.xs, y1, y2)])), "3"
    yield "zip(%s, %s, %s)" % (c.S, s1, s2), (lambda: V([list(t) for t in zip(c.xs, y1, y2)])), "3"
    yield c.call("zip", c.S, c.S), (lambda: V([[x, x] for x in c.xs])), "self"
    for fs, f in _zipfs(c, 2):
        if fs in ("+", "-"):
            ys, s = c.ys, c.S2
        else:
            ys, s = y1, s1
        yield "zip(%s, %s, %s)" % (c.S, s, fs), (lambda f=f, ys=ys: V([f(a, b) for a, b in zip(c.xs, ys)])), "with"
        yield "%s zip %s with %s" % (c.S, s, fs), (lambda f=f, ys=ys: V([f(a, b) for a, b in zip(c.xs, ys)])), "with"
    for fs, f in _zipfs(c, 3):
        yield "zip(%s, %s, %s, %s)" % (c.S, s1, s2, fs), (lambda f=f: V([f(*t) for t in zip(c.xs, y1, y2)])), "with3"
        yield "%s zip %s zip %s with %s" % (c.S, s1, s2, fs), (lambda f=f: V([f(*t) for t in zip(c.xs, y1, y2)])), "with3"


def _ziplongest(seqs, f=None):
    out = []
    for i in range(max(len(s) for s in seqs)):
        batch = [s[i] for s in seqs if i < len(s)]
        out.append(functools.reduce(f, batch) if f else batch)
    return out


@op("ziplongest", profs=GENERAL)
def _zipl(c):
    k1, y1, s1 = c.o1
    k2, y2, s2 = c.o2
    yield c.call("ziplongest", c.S, s1), (lambda: V(_ziplongest([c.xs, y1]))), ""
    yield "%s ziplongest %s ziplongest %s" % (c.S, s1, s2), (lambda: V(_ziplongest([c.xs, y1, y2]))), "3"
    yield "ziplongest(%s, %s, %s)" % (c.S, s1, s2), (lambda: V(_ziplongest([c.xs, y1, y2]))), "3"
    for fs, f in _zipfs(c, 2):
        if fs in ("+", "-"):
            ys, s, zs, sz = c.ys, c.S2, c.xs, c.S
        else:
            ys, s, zs, sz = y1, s1, y2, s2
        yield "ziplongest(%s, %s, %s)" % (c.S, s, fs), (lambda f=f, ys=ys: V(_ziplongest([c.xs, ys], f))), "with"
        yield "%s ziplongest %s with %s" % (c.S, s, fs), (lambda f=f, ys=ys: V(_ziplongest([c.xs, ys], f))), "with"
        yield ("%s ziplongest %s ziplongest %s with %s" % (c.S, s, sz, fs),
               (lambda f=f, ys=ys, zs=zs: V(_ziplongest([c.xs, ys, zs], f))), "with3")


@op("pairwise", profs=NOSEQS)
def _pairwise(c):
    for fs, f in fam(BINF, c.prof):
        yield c.call("pairwise", c.S, fs), (lambda f=f: V([f(a, b) for a, b in zip(c.xs, c.xs[1:])])), ""


@op("transpose", kinds=("list", "stream", "dict"), profs=("seqs", "lst", "str"))
def _transpose(c):
    def model():
        rows = [list(x) for x in c.xs]
        m = max([len(r_) for r_ in rows] or [0])
        return V([[r_[i] for r_ in rows if i < len(r_)] for i in range(m)])
    yield "transpose(%s)" % c.S, model, ""


@op("enumerate", profs=GENERAL)
def _enumerate(c):
    yield "enumerate(%s)" % c.S, (lambda: V([[i, x] for i, x in enumerate(c.xs)])), ""


# ----- folds

@op("fold", profs=NOSEQS)
def _fold(c):
    z = SEEDV[c.prof]
    for fs, f in fam(BINF, c.prof) + (BINF["num"] if c.prof in ("numf", "numq") else []):
        yield c.call("fold", c.S, fs), (lambda f=f: V(functools.reduce(f, c.xs)) if c.xs else THROW), ""
        if z is not None and not (c.prof in ("lst",) and fs in ("max", "min")):
            yield "%s fold %s from %s" % (c.S, fs, src(z)), (lambda f=f: V(functools.reduce(f, c.xs, z))), "from"
            yield "fold(%s, %s, %s)" % (c.S, fs, src(z)), (lambda f=f: V(functools.reduce(f, c.xs, z))), "from"
        elif z is None:
            yield "%s fold %s from null" % (c.S, fs), (lambda f=f: V(functools.reduce(f, c.xs, None))), "from"


@op("scan", profs=NOSEQS)
def _scan(c):
    z = SEEDV[c.prof]
    for fs, f in fam(BINF, c.prof) + (BINF["num"] if c.prof in ("numf", "numq") else []):
        yield c.call("scan", c.S, fs), (lambda f=f: V(_scan_model(c.xs, f))), ""
        yield ("%s scan %s from %s" % (c.S, fs, src(z)),
               (lambda f=f: V(_scan_model(c.xs, f, z, True))), "from")
        yield ("scan(%s, %s, %s)" % (c.S, fs, src(z)),
               (lambda f=f: V(_scan_model(c.xs, f, z, True))), "from")


def _scan_model(xs, f, z=None, seeded=False):
    out = []
    if seeded:
        acc = z
        out.append(acc)
        it = xs
    else:
        if not xs:
            return []
        acc = xs[0]
        out.append(acc)
        it = xs[1:]
    for x in it:
        acc = f(acc, x)
        out.append(acc)
    return out


def _prod(vals):
    p = 1
    for v in vals:
        p = p * v
    return p


# (the two-argument forms sum(xs, f) / product(xs, f) exist but are documented nowhere: not asserted)
@op("sum", profs=ARITH, dict_mode="exact")
def _sum(c):
    yield "sum(%s)" % c.S, (lambda: V(sum(c.xs))), ""
    yield "%s then sum" % c.S, (lambda: V(sum(c.xs))), ""


@op("product", profs=ARITH, dict_mode="exact")
def _product(c):
    yield "product(%s)" % c.S, (lambda: V(_prod(c.xs))), ""
    yield "%s then product" % c.S, (lambda: V(_prod(c.xs))), ""


def _extreme(c, sign, cmp):
    """candidates: every element that compares equal to the extremum (which of them is returned is not documented)"""
    if not c.xs:
        return THROW
    best = c.xs[0]
    for x in c.xs[1:]:
        if sign * cmp(x, best) > 0:
            best = x
    return ("oneof", [x for x in c.xs if cmp(x, best) == 0])


def _extremum_op(name, sign):
    @op(name, profs=ORDERED, dict_mode="exact")
    def _ext(c):
        yield "%s(%s)" % (name, c.S), (lambda: _extreme(c, sign, ncmp)), ""
        if c.kind != "dict":
            # one-line definition: max(xs) is xs folded with the two-argument max -- the same element, in the same
            # representation, whatever the interpreter's rule for ties is (both sides are computed by the interpreter)
            yield ("(\\a, b -> if (repr(a) == repr(b)) a else [\"DIFF\", a, b])(%s(%s), fold(%s, %s))" % (name, c.S, c.S, name),
                   (lambda: _extreme(c, sign, ncmp)), "fold-consistent")
        for fs, f in fam(CMPF, c.prof if c.prof != "txt" else "chr"):
            yield c.call(name, c.S, fs), (lambda f=f: _extreme(c, sign, f)), "cmp"
        if c.n >= 2 and c.kind == "list" and c.prof in ("int", "num", "numf", "numq", "str"):
            yield "%s(%s)" % (name, ", ".join(src(x) for x in c.xs)), (lambda: _extreme(c, sign, ncmp)), "varargs"
    return _ext


_extremum_op("max", 1)
_extremum_op("min", -1)


# ----- ordering, uniqueness

@op("sort", profs=ORDERED, dict_mode="sortdict")
def _sort(c):
    yield "sort(%s)" % c.S, (lambda: V(c.K(stable_sort(c.xs, ncmp)))), ""
    for fs, f in CMPF.get(c.prof, fam(CMPF, c.prof)):
        yield c.call("sort", c.S, fs), (lambda f=f: V(c.K(stable_sort(c.xs, f)))), "cmp"


@op("sort_on", profs=ORDERED, dict_mode="sortdict")
def _sort_on(c):
    for fs, f in KEYF.get(c.prof, fam(KEYF, c.prof)):
        yield c.call("sort_on", c.S, fs), (lambda f=f: V(c.K(stable_sort(c.xs, on(ncmp, f))))), ""


@op("reverse", profs=GENERAL)
def _reverse(c):
    yield "reverse(%s)" % c.S, (lambda: V(c.K(c.xs[::-1]))), ""


@op("unique", profs=HASHSAFE, dict_mode="ms1")
def _unique(c):
    yield "unique(%s)" % c.S, (lambda: V(c.K(dedupe(c.xs)))), ""


def _runs(xs, rel):
    out = []
    for x in xs:
        if out and truthy(rel(out[-1][-1], x)):
            out[-1].append(x)
        else:
            out.append([x])
    return out


def _chunks(xs, k):
    return [xs[i:i + k] for i in range(0, len(xs), k)]


@op("group", profs=NOSEQS)
def _group(c):
    yield "group(%s)" % c.S, (lambda: V([c.K(g) for g in _runs(c.xs, eq)])), "eq"
    for k, tag in small_ns(c.n):
        if k >= 1:
            yield c.call("group", c.S, str(k)), (lambda k=k: V([c.K(g) for g in _chunks(c.xs, k)])), tag or "n"
    for fs, f in fam(RELF, c.prof):
        yield c.call("group", c.S, fs), (lambda f=f: V([c.K(g) for g in _runs(c.xs, f)])), "rel"


@op("group'", profs=NOSEQS)
def _groupp(c):
    for k, tag in small_ns(c.n) + [(3, "")]:
        if k >= 1:
            yield (c.call("group'", c.S, str(k)),
                   (lambda k=k: V([c.K(g) for g in _chunks(c.xs, k)]) if c.n % k == 0 else THROW), tag or "n")


def _classes(xs, key):
    out = {}
    for x in xs:
        out.setdefault(ckey(key(x)), []).append(x)
    return list(out.values())


@op("group_all", profs=tuple(p for p in HASHSAFE), dict_mode="groups")
def _group_all(c):
    for fs, f in KEYF.get(c.prof, fam(KEYF, c.prof)):
        yield c.call("group_all", c.S, fs), (lambda f=f: ("groups", [c.K(g) for g in _classes(c.xs, f)])), ""


@op("window", profs=GENERAL)
def _window(c):
    for k, tag in small_ns(c.n) + [(3, "")]:
        if k >= 1:
            yield c.call("window", c.S, str(k)), (lambda k=k: V([c.K(c.xs[i:i + k]) for i in range(c.n - k + 1)])), tag or "n"


@op("prefixes", profs=GENERAL)
def _prefixes(c):
    yield "prefixes(%s)" % c.S, (lambda: V([c.K(c.xs[:i]) for i in range(c.n + 1)])), ""


@op("suffixes", profs=GENERAL)
def _suffixes(c):
    yield "suffixes(%s)" % c.S, (lambda: V([c.K(c.xs[c.n - i:]) for i in range(c.n + 1)])), ""


@op("frequencies", profs=HASHSAFE, dict_mode="exact")
def _frequencies(c):
    yield "frequencies(%s)" % c.S, (lambda: ("dict", [(g[0], len(g)) for g in _classes(c.xs, lambda x: x)], 0)), ""


# ----- construction operators

@op("++", kinds=("list", "vector", "bytes"), profs=GENERAL)
def _concat(c):
    yield "%s ++ %s" % (c.S, c.S2), (lambda: V(c.K(c.xs + c.ys))), ""
    yield "%s ++ %s ++ %s" % (c.S, c.S2, c.S), (lambda: V(c.K(c.xs + c.ys + c.xs))), "3"
    yield "++(%s, %s)" % (c.S2, c.S), (lambda: V(c.K(c.ys + c.xs))), ""


def _elem(c):
    return c.ys[0] if c.ys else POOLS[c.prof][1]


@op(".+", kinds=("list", "vector", "bytes"), profs=GENERAL)
def _prepend(c):
    e = _elem(c)
    yield "%s .+ %s" % (src(e), c.S), (lambda: V(c.K([e] + c.xs))), ""
    yield "%s .+ %s .+ %s" % (src(e), src(e), c.S), (lambda: V(c.K([e, e] + c.xs))), "chain"


@op("+.", kinds=("list", "vector", "bytes"), profs=GENERAL)
def _append(c):
    e = _elem(c)
    yield "%s +. %s" % (c.S, src(e)), (lambda: V(c.K(c.xs + [e]))), ""
    yield "%s +. %s +. %s" % (c.S, src(e), src(e)), (lambda: V(c.K(c.xs + [e, e]))), "chain"


@op("..", kinds=("list", "string", "vector", "bytes"), profs=GENERAL)
def _pair(c):
    e = _elem(c)
    yield "%s .. %s" % (c.S, src(e)), (lambda: V([c.K(c.xs), e])), ""
    yield "..(%s, %s)" % (src(e), c.S), (lambda: V([e, c.K(c.xs)])), ""
    yield "%s .. %s" % (src(e), src(e)), (lambda: V([e, e])), "scalars"


@op(".*", kinds=("list", "string", "vector", "bytes"), profs=GENERAL)
def _replicate(c):
    e = _elem(c)
    for k, tag in small_ns(c.n):
        yield "%s .* %d" % (src(e), k), (lambda k=k: V([e] * k)), tag or "n"
        yield "%d *. %s" % (k, src(e)), (lambda k=k: V([e] * k)), tag or "n"
    yield "%s .* 2" % c.S, (lambda: V([c.K(c.xs)] * 2)), "seq"


@op("**", profs=GENERAL, dict_mode="ms1")
def _product_op(c):
    k1, y1, s1 = c.o1
    k2, y2, s2 = c.o2
    for k in (0, 1, 2, 3):
        yield "%s ** %d" % (c.S, k), (lambda k=k: ("ve", c.xs * k)), ("n=0" if k == 0 else "repeat")
    yield "%s ** %s" % (c.S, s1), (lambda: V([list(t) for t in itertools.product(c.xs, y1)])), ""
    yield "%s ** %s" % (c.S, c.S), (lambda: V([list(t) for t in itertools.product(c.xs, c.xs)])), "self"
    if c.kind != "dict" or c.n <= 1:
        yield ("%s ** %s ** %s" % (s1, c.S, s2), (lambda: V([list(t) for t in itertools.product(y1, c.xs, y2)])), "3")


@op("^^", profs=GENERAL, dict_mode="ms1", maxlen=5)
def _power(c):
    for k in (0, 1, 2, 3):
        if c.n ** k <= 400:
            yield ("list(%s ^^ %d)" % (c.S, k), (lambda k=k: V([list(t) for t in itertools.product(c.xs, repeat=k)])),
                   "n=%d" % k if k < 2 else "n")


# ----- combinatorial streams

@op("permutations", profs=GENERAL, maxlen=6)
def _permutations(c):
    yield "list(permutations(%s))" % c.S, (lambda: V([list(t) for t in itertools.permutations(c.xs)])), ""


@op("combinations", profs=GENERAL, maxlen=8)
def _combinations(c):
    for k, tag in small_ns(c.n) + [(3, "")]:
        yield ("list(%s)" % c.call("combinations", c.S, str(k)),
               (lambda k=k: V([list(t) for t in itertools.combinations(c.xs, k)])), tag or "n")


def _subsequences(xs):
    n = len(xs)
    return [[xs[i] for i in range(n) if (m >> (n - 1 - i)) & 1] for m in range(1 << n)]


@op("subsequences", profs=GENERAL, maxlen=7)
def _subseq(c):
    yield "list(subsequences(%s))" % c.S, (lambda: V(_subsequences(c.xs))), ""


# ----- strings

def _disp(x):
    return x if isinstance(x, str) else str(x)


@op("join", profs=("int", "byte", "str", "chr", "txt"), dict_mode=None)
def _join(c):
    for sep in (",", "", ", ", "ab"):
        yield c.call("join", c.S, src(sep)), (lambda sep=sep: V(sep.join(_disp(x) for x in c.xs))), "sep=%r" % sep if sep == "" else ""


def _split(s, sep):
    if sep == "":
        return [""] + list(s) + [""]      # Appendix A: follows Rust
    return s.split(sep)


@op("split", kinds=("string",), profs=("txt", "chr"), text=True)
def _split_op(c):
    s = "".join(c.xs)
    seps = [",", " ", "ab", "a", ", ", "\n", "", "é"] + (["".join(c.xs[:2])] if c.n >= 2 else [])
    for sep in seps:
        yield c.call("split", c.S, src(sep)), (lambda sep=sep: V(_split(s, sep))), "sep=''" if sep == "" else ""


WS = " \t\n\r　\x0b\x0c"


def _words(s):
    out, cur = [], ""
    for ch in s:
        if ch in WS:
            if cur:
                out.append(cur)
            cur = ""
        else:
            cur += ch
    if cur:
        out.append(cur)
    return out


def _lines(s):
    parts = s.split("\n")
    if parts[-1] == "":
        parts.pop()
    return parts


@op("words", kinds=("string",), profs=("txt", "chr"), text=True)
def _words_op(c):
    s = "".join(c.xs)
    yield "words(%s)" % c.S, (lambda: V(_words(s))), ""


@op("lines", kinds=("string",), profs=("txt", "chr"), text=True)
def _lines_op(c):
    s = "".join(c.xs)
    yield "lines(%s)" % c.S, (lambda: V(_lines(s))), ""


# ---------------------------------------------------------------- comparison

def destream(c):
    if isinstance(c, dict) and "st" in c:
        st = c["st"]
        if not st.get("more") and not st.get("err") and st.get("len") == len(st.get("head", [])):
            return {"l": st["head"]}
    return c


def _jk(c):
    return json.dumps(c, sort_keys=True)


def sort_top(c):
    if isinstance(c, dict) and "l" in c:
        return {"l": sorted(c["l"], key=_jk)}
    return c


def sort_inner(c):
    if isinstance(c, dict) and "l" in c:
        return {"l": [sort_top(x) for x in c["l"]]}
    return c


def seq_elems(c):
    """one level of elements of a canonical list / string / vector / bytes, else None"""
    if not isinstance(c, dict):
        return None
    if "s" in c:
        return [{"s": ch} for ch in c["s"]]
    if "b" in c:
        return [{"i": str(b)} for b in bytes.fromhex(c["b"])]
    if "v" in c:
        return c["v"]
    if "l" in c:
        return c["l"]
    return None


def kind_equiv(a, b):
    """equal up to the sequence kind (list / string / vector / bytes) of the value or of nested pieces"""
    if a == b:
        return True
    ea, eb = seq_elems(a), seq_elems(b)
    if ea is None or eb is None or len(ea) != len(eb):
        return False
    if "s" in a and "s" in b:
        return False
    return all(kind_equiv(x, y) for x, y in zip(ea, eb))


def judge(exp, ev, c, dict_mode):
    """-> None (held) | (aspect, got_text, want_text, expected_canonical)"""
    o = ev.get("o")
    if exp[0] == "throw":
        if o == "throw":
            return None
        return ("should-raise", "%s %s" % (o, str(ev.get("v"))[:160]), "an error", "throw")
    if o != "ok":
        return ("raised" if o == "throw" else str(o), "%s: %s" % (o, (ev.get("err") or "")[:160]), _short(exp), None)
    got = norm(ev.get("v"))
    if c.kind == "stream":
        got = destream(got)
    if exp[0] == "dict":
        pairs, default = exp[1], exp[2]
        want_c = {"d": [[to_canon(k), to_canon(v)] for k, v in pairs], "def": to_canon(default)}
        if not (isinstance(got, dict) and "d" in got):
            return ("value", str(got)[:200], str(want_c)[:200], want_c)
        gm = {ckey(from_canon(k)): v for k, v in got["d"]}
        wm = {ckey(k): to_canon(v) for k, v in pairs}
        if gm != wm or len(gm) != len(got["d"]):
            return ("value", str(got)[:200], str(want_c)[:200], want_c)
        if got.get("def") != to_canon(default):
            return ("default", str(got.get("def", "no default")), str(default), want_c)
        return None
    if exp[0] == "oneof":
        wants = [to_canon(x) for x in exp[1]]
        if got in wants:
            return None
        return ("value", str(got)[:200], "one of " + str(wants)[:200], wants[0])
    if exp[0] == "groups":
        want = sort_top(to_canon(exp[1]))
        g2 = sort_top(got)
        if c.kind == "dict":
            want, g2 = sort_top(sort_inner(want)), sort_top(sort_inner(g2))
        if g2 == want:
            return None
        return (_aspect(g2, want), str(got)[:240], str(want)[:240], want)
    if exp[0] == "ve":
        want = to_canon(exp[1])
        g2, w2 = seq_elems(got), seq_elems(want)
        if c.kind == "dict" and g2 is not None:
            g2, w2 = sorted(g2, key=_jk), sorted(w2, key=_jk)
        if g2 is not None and g2 == w2:
            return None
        return ("value", str(got)[:240], str(want)[:240], want)
    want = to_canon(exp[1])
    g2, w2 = got, want
    if c.kind == "dict":
        if dict_mode == "ms1":
            g2, w2 = sort_top(g2), sort_top(w2)
        elif dict_mode == "ms_inner":
            g2, w2 = sort_inner(g2), sort_inner(w2)
    if g2 == w2:
        return None
    return (_aspect(g2, w2), str(got)[:240], str(want)[:240], want)


def _aspect(got, want):
    return "kind" if kind_equiv(got, want) else "value"


def _short(exp):
    try:
        if exp[0] in ("v", "ve", "groups"):
            return str(to_canon(exp[1]))[:200]
        return str(exp)[:200]
    except Exception:
        return str(exp)[:200]


# ---------------------------------------------------------------- case construction

OTHER_KINDS = ["list", "string", "vector", "bytes", "stream"]
OTHER_PROF = {"list": ["int", "mixed", "str"], "string": ["chr"], "vector": ["numf"], "bytes": ["byte"], "stream": ["int", "mixed"]}
GRID_OTHERS = [("string", ["a", "b"], '"ab"'), ("vector", [7, 8.5, 9], "V(7, 8.5, 9)")]


def rand_other(r):
    k = r.choice(OTHER_KINDS)
    p = r.choice(OTHER_PROF[k])
    ys = gen_elems(r, p, r.choice([0, 1, 2, 2, 3, 3, 4, 5]))
    return (k, ys, render(k, ys, r))


def applicable(o, kind, prof):
    if kind not in o["kinds"]:
        return False
    if prof not in KIND_PROFILES[kind]:
        return False
    if o["text"]:
        return prof in o["profs"]
    if prof == "txt":
        return o["profs"] is not None and "txt" in o["profs"]
    return o["profs"] is None or prof in o["profs"]


COMBOS = {}
for _o in OPS:
    COMBOS[_o["name"]] = [(k, p) for k in KINDS for p in KIND_PROFILES[k] if applicable(_o, k, p)]


def dict_len_cap(o):
    """order-dependent operations only get dict inputs of size <= 1"""
    return 8 if o["dict_mode"] in ("exact", "ms1", "ms_inner", "groups", "sortdict") else 1


def make_ctx(kind, prof, xs, ys, o1, o2, infix, r=None):
    c = C()
    c.kind, c.prof, c.xs, c.n = kind, prof, list(xs), len(xs)
    c.S = render(kind, xs, r)
    c.ys = list(ys)
    c.S2 = render(kind if kind in ("list", "vector", "bytes") else "list", ys, r)
    c.o1, c.o2, c.infix = o1, o2, infix
    return c


def variants(o, c):
    out = list(o["fn"](c))
    if c.kind == "dict" and o["dict_mode"] == "sortdict":
        # only the comparator-free sort is order-independent on a dict (keys are pairwise distinct under ==)
        out = [v for v in out if v[2] == "" and o["name"] == "sort"] if c.n > 1 else out
    return out


def grid_cases():
    """deterministic enumeration: (op, ctx, variant) for every op x applicable (kind, profile) x fixed input x variant"""
    idx = 0
    for o in OPS:
        for kind, prof in COMBOS[o["name"]]:
            for gi, xs in enumerate(GRID[prof]):
                if len(xs) > o["maxlen"]:
                    continue
                if kind == "dict":
                    xs = dedupe(xs)
                    if len(xs) > dict_len_cap(o):
                        xs = xs[:1]
                ys = GRID[prof][2][::-1] if prof in GRID else []
                c = make_ctx(kind, prof, xs, ys, GRID_OTHERS[0], GRID_OTHERS[1], (gi % 2) == 1)
                for var in variants(o, c):
                    yield idx, o, c, var
                    idx += 1


LONG_OK = {"sort", "sort_on", "unique", "max", "min", "reverse", "group", "group'", "group_all", "frequencies", "count",
           "filter", "reject", "partition", "map", "sum", "fold", "scan", "enumerate", "find", "locate", "any", "all",
           "pairwise", "++", "join"}


def random_case(r):
    o = r.choice(OPS)
    combos = COMBOS[o["name"]]
    kind = r.choice(KINDS)
    cands = [kp for kp in combos if kp[0] == kind] or combos
    kind, prof = r.choice(cands)
    cap = min(8, o["maxlen"])
    n = r.choice([0, 1, 2, 2, 3, 3, 4, 4, 5, 5, 6, 7, 8])
    n = min(n, cap)
    long_ties = None
    if o["name"] in LONG_OK and kind != "dict" and r.random() < (0.3 if o["name"] in ("sort", "sort_on", "max", "min") else 0.07):
        # beyond the small-input thresholds of library algorithms (insertion-sort cut-offs, chunked loops):
        # 21..48 elements drawn from 2-4 values, so ties between distinguishable equal elements are everywhere
        n = r.choice([21, 22, 24, 32, 33, 40, 48])
        if prof in ("num", "numf") and r.random() < 0.7:
            long_ties = [x for pair in r.sample([(0, 0.0), (1, 1.0), (2, 2.0), (3, 3.0), (-1, -1.0)], r.choice([2, 3, 4])) for x in pair]
        elif prof == "mixed" and r.random() < 0.5:
            long_ties = [1, 1.0, [1], [1.0], 2.5]
    if kind == "dict":
        n = min(n, dict_len_cap(o))
        xs = gen_elems(r, prof, n, distinct=True)
    elif kind == "stream" and prof == "int" and r.random() < 0.4:
        a, step = r.randint(-2, 3), r.choice([1, 1, 2, 3])
        xs = [a + i * step for i in range(n)]
    elif long_ties:
        xs = [r.choice(long_ties) for _ in range(n)]
    else:
        xs = gen_elems(r, prof, n)
    ys = gen_elems(r, prof, r.choice([0, 1, 1, 2, 3, 4]))
    c = make_ctx(kind, prof, xs, ys, rand_other(r), rand_other(r), r.random() < 0.35, r)
    vs = variants(o, c)
    if not vs:
        return None
    return o, c, r.choice(vs)


# ---------------------------------------------------------------- shard

def run_batch(sh, w, batch, vio_count):
    stmts = [b[3] for b in batch]
    evs = core.eval_all(w, stmts, child_each=True, fresh_each=True, fuel=FUEL, jid="c13")
    for (o, c, var, text, exp, tags), ev in zip(batch, evs):
        name = o["name"]
        sh.seen(text, nontrivial=c.n >= 2)
        sh.count("op:" + name)
        sh.count("kind:" + c.kind)
        sh.count("profile:" + c.prof)
        sh.count("len:%d" % c.n)
        sh.count("expect:" + exp[0])
        oc = ev.get("o")
        sh.count("outcome:" + str(oc))
        if oc in ("fuel", "depth", "timeout", "skipped", "lost", "crash", "panic"):
            sh.inconc(oc + (":" + str(ev.get("why")) if oc == "crash" else ""), text[:200])
            continue
        res = judge(exp, ev, c, o["dict_mode"])
        if res is None:
            if c.n >= 3 and core.h64(text) % 53 == 0:
                sh.sample({"stmt": text, "observed": ev.get("v"), "expected": _short(exp)}, cap=4)
            continue
        aspect, got, want, want_c = res
        corner = ",".join(t for t in (("empty" if c.n == 0 else ""), tags) if t) or "general"
        key = "C13|%s|kind|%s" % (name, c.kind) if aspect == "kind" else "C13|%s|%s|%s" % (name, aspect, corner)
        vio_count[key] = vio_count.get(key, 0) + 1
        if vio_count[key] > 3:
            sh.count("violations_suppressed_repeats")
            continue
        sh.violation(key, "%s  gave %s, expected %s" % (text[:200], got, want),
                     {"job": {"kind": "eval", "stmts": [text], "fresh_each": True, "fuel": FUEL},
                      "expected": want_c, "input": {"op": name, "kind": c.kind, "profile": c.prof, "len": c.n, "variant": tags}})


def shard(ctx, si, n):
    sh = core.Shard("C13")
    r = core.rng_for("C13", ctx.seed, si)
    w = core.Worker()
    vio_count = {}
    try:
        batch = []

        def push(o, c, var):
            text, thunk, tags = var
            try:
                exp = thunk()
            except Exception as e:          # a model that cannot predict declines the case
                sh.inconc("model:" + type(e).__name__, text[:200])
                sh.evaluations += 1
                return
            batch.append((o, c, var, text, exp, tags))
            if len(batch) >= 300:
                run_batch(sh, w, batch, vio_count)
                del batch[:]

        for idx, o, c, var in grid_cases():
            if idx % n == si:
                sh.count("grid_cases")
                push(o, c, var)
        total = ctx.plan["random"] // n
        done = 0
        while done < total:
            rc = random_case(r)
            if rc is None:
                continue
            done += 1
            sh.count("random_cases")
            push(*rc)
        if batch:
            run_batch(sh, w, batch, vio_count)
    finally:
        w.close()
    return sh
