"""C16  Text and byte codecs round-trip and conversions are exact.

Monitor: reference-model monitor.  Python computes every input and every expected output with code
that shares nothing with the interpreter (int/str, positional digits, fractions.Fraction built from
the components of the generated numeral, binascii, base64, gzip/zlib, str.encode, chr/ord, json);
the real interpreter evaluates one expression per case and the observed canonical value is compared.

Sub-monitors (families)
  intstr    str(n), int(str(n)), number(str(n)), int("dec"), number("dec") for ints of 1..5000 bits,
            every value produced in machine-word and in big representation where both exist
  radix     str_radix / int_radix, bases 2..36: exhaustive base x boundary grid plus random values;
            digits against positional notation, `-` prefix for negatives, zero
  rational  rational(s) for integer / decimal / scientific / p/q numerals with "", "+", "-" signs
            (and optionally surrounding blanks) against the exact Fraction built from the components
  hex, base64, utf8, compress   encode against the independent encoding, decode of the independent
            encoding, and both compositions
  chr/ord   every Unicode scalar value in blocks of 512 (exhaustive in both tiers) plus single values
            in both int representations
  json      json_encode(v) parsed by Python json, json_decode of Python's text, and the round trip for
            random JSON-shaped values
  literal   JSON text that is also Noulith literal syntax, and repr(v) output that is JSON, evaluated
            as a statement versus json_decode of the same text
  render    the same integer in machine-word and big representation rendered through str, $, print,
            F"{x}" and F"{x #x|#X|#b|#o|#d}" with padding flags: the two renderings must be identical
"""
import base64
import binascii
import gzip
import json
import math
from fractions import Fraction

from .. import core
from ..values import f2bits, bits2f, src_float

RULE = ("cases = one Noulith expression per (family, input, producer form); inputs: ints from the boundary set "
        "{0,+-1,..,+-2^31,+-2^32,+-2^53,+-2^62..2^64 and neighbours, powers of the base} and random ints of "
        "1..5000 bits, each rendered through a producer (literal, int(\"..\") -> machine word; N // 1, "
        "N + 2^70 - 2^70, (10^30 + N) - 10^30 -> big representation); numerals built from random "
        "(sign, integer digits, fraction digits, exponent, denominator); byte strings of 0..max_bytes bytes "
        "(random, zero, text, periodic, all 256 values); Unicode strings over all planes and UTF-8 length "
        "boundaries; JSON-shaped values of depth <= 4; every Unicode scalar value for chr/ord (exhaustive). "
        "distinct = distinct expression text; non-trivial = intstr/render: |n| > 2^31 or a big-representation "
        "producer; radix: at least two digits or zero; rational: numeral has a sign, point, exponent or slash; "
        "codecs: non-empty input; json/literal: container, float or non-ASCII string")
ASSUMPTIONS = [
    "CPython int/str, fractions.Fraction, binascii, base64, gzip/zlib, json and str.encode are exact reference codecs",
    "hex digit case is not fixed by the property (RFC 4648 base16 is upper case, binascii lower): hex_encode and str_radix output is compared case-insensitively",
    "'64-bit integers' in the JSON clause is read as the signed range [-2^63, 2^63); ints in [2^63, 2^64) are exercised and counted but not judged",
    "the literal clause quantifies over texts that are both JSON and Noulith literal syntax (JSON exponents written `e+N`, `\\/` and `\\uXXXX` escapes are JSON-only syntax and are not generated); repr output that is not JSON (floats `2.5f`, null dict values `{\"k\"}`) is outside the clause and counted as excluded",
    "what rational() does with surrounding blanks is not promised: a raise on a padded numeral is excluded, a value is judged",
    "panics/crashes are C14's business and are counted inconclusive here",
]
PLAN = {
    "quick": {"scale": 3, "max_bytes": 4096, "max_bits": 5000, "max_exp": 320},
    "thorough": {"scale": 24, "max_bytes": 65536, "max_bits": 5000, "max_exp": 3000},
}
# cases per unit of scale
BASE_COUNTS = {"intstr": 6000, "radix": 6000, "rational": 9000, "hex": 2000, "base64": 2000, "utf8": 3000,
               "compress": 1200, "chrord": 2000, "json": 6000, "literal": 4000, "repr": 3000, "render": 6000}

REG = dict(level="exploration", min_nontrivial=20000, min_nontrivial_thorough=500000,
           technique="runtime reference-model monitor: Python stdlib codecs (int/str, Fraction, binascii, base64, gzip, json, str.encode) as oracle over seeded and exhaustive input sweeps, with the integer representation flag observed",
           claim="On every executed case the interpreter's conversion/codec result equalled the independently computed one, inverse pairs composed to the identity, JSON text / repr evaluated to what json_decode gives, and equal integers in machine-word and big representation rendered identically. chr/ord and the radix boundary grid are enumerated completely; everything else is exploration, not proof.",
           note="Trusts CPython's codecs and the harness's structural value dump. Hex/radix digit case, unsigned 64-bit JSON integers and JSON-only syntax (e+N exponents) are outside the judged claim (see assumptions).")

B63 = 1 << 63
INCONC = ("fuel", "depth", "timeout", "skipped", "lost", "crash")


# ---------------------------------------------------------------- small helpers

def lit(n):
    return str(n) if n >= 0 else "(-%d)" % (-n)


def in_word(n):
    return -B63 <= n < B63


def bits_bucket(n):
    k = abs(n).bit_length()
    for lim in (31, 63, 64, 128, 1024, 2500):
        if k <= lim:
            return "<=%d" % lim
    return "<=5000"


SMALL_PRODUCERS = ["literal", "parse"]
BIG_PRODUCERS = ["floordiv1", "bigdiff", "bigdiff2"]


def produce_as(n, tag):
    if tag == "literal":
        return lit(n)
    if tag == "parse":
        return 'int("%d")' % n
    if tag == "floordiv1":
        return "(%s // 1)" % lit(n)
    if tag == "bigdiff":
        return "(%s + 2^70 - 2^70)" % lit(n)
    if tag == "bigdiff2":
        return "((10^30 + %s) - 10^30)" % lit(n)
    raise KeyError(tag)


def produce(r, n, want=None):
    """Source text evaluating to n plus the producer tag; want = None | 'small' | 'big'."""
    if want is None:
        want = "small" if r.random() < 0.5 else "big"
    tag = r.choice(SMALL_PRODUCERS if want == "small" else BIG_PRODUCERS)
    return produce_as(n, tag), tag


def boundary():
    vals = {0, 1, -1, 2, -2, 3, 7, -7, 9, 10, 11, 35, 36, 37, 99, 100, 255, 256, 1000, 65535, 65536}
    for k in (7, 8, 15, 16, 31, 32, 53, 62, 63, 64, 65, 127, 128):
        for d in (-2, -1, 0, 1, 2):
            vals.add((1 << k) + d)
            vals.add(-(1 << k) + d)
    vals |= {10 ** 18, 10 ** 19, -(10 ** 19), 10 ** 30, -(10 ** 30), 36 ** 12, 36 ** 13 - 1, 36 ** 13}
    return sorted(vals)


BOUNDARY = boundary()
BITS = [8, 16, 31, 32, 33, 62, 63, 64, 65, 100, 128, 300, 1000, 2500, 5000]


def rand_int(r, maxbits):
    k = r.random()
    if k < 0.35:
        return r.choice(BOUNDARY)
    if k < 0.5:
        return r.randint(-1000, 1000)
    bits = min(r.choice(BITS), maxbits)
    if r.random() < 0.3:
        bits = r.randint(1, maxbits)
    v = r.getrandbits(bits)
    return -v if r.random() < 0.5 else v


def rand_word(r):
    """An int that exists in both representations: |n| fits i64."""
    k = r.random()
    if k < 0.35:
        return r.choice([v for v in BOUNDARY if in_word(v)])
    if k < 0.55:
        return r.randint(-300, 300)
    bits = r.choice([4, 8, 16, 31, 32, 33, 48, 62, 63])
    v = r.getrandbits(bits)
    return -v if r.random() < 0.55 else v


DIGITS = "0123456789abcdefghijklmnopqrstuvwxyz"


def digits(n, b):
    """Positional notation of n >= 0 in base b (zero is the single digit 0)."""
    if n == 0:
        return "0"
    out = []
    while n:
        n, d = divmod(n, b)
        out.append(DIGITS[d])
    return "".join(reversed(out))


def nstr(s, esc=False):
    """Noulith string literal for s; esc=True writes every non-ASCII char as \\u{..}."""
    out = []
    for ch in s:
        o = ord(ch)
        if ch == "\\":
            out.append("\\\\")
        elif ch == '"':
            out.append('\\"')
        elif ch == "\n":
            out.append("\\n")
        elif ch == "\r":
            out.append("\\r")
        elif ch == "\t":
            out.append("\\t")
        elif ch == "\0":
            out.append("\\0")
        elif o < 32 or o == 127:
            out.append("\\x%02x" % o)
        elif esc and o >= 128:
            out.append("\\u{%x}" % o)
        else:
            out.append(ch)
    return '"' + "".join(out) + '"'


def nbytes(b):
    return "B[%s]" % ",".join(map(str, b))


def short(x, n=90):
    s = x if isinstance(x, str) else json.dumps(x, ensure_ascii=False, default=str)
    return s if len(s) <= n else s[:n] + "..(%d chars)" % len(s)


def c_str(c):
    return c["s"] if isinstance(c, dict) and "s" in c else None


def c_int(c):
    return int(c["i"]) if isinstance(c, dict) and "i" in c else None


def c_bytes(c):
    try:
        return bytes.fromhex(c["b"]) if isinstance(c, dict) and "b" in c else None
    except ValueError:
        return None


def c_list(c, k=None):
    if isinstance(c, dict) and "l" in c and (k is None or len(c["l"]) == k):
        return c["l"]
    return None


def c_rat(c):
    if isinstance(c, dict) and "q" in c:
        return Fraction(int(c["q"][0]), int(c["q"][1]))
    return None


def is_big(c):
    return isinstance(c, dict) and c.get("big") == 1


# ---------------------------------------------------------------- random bytes / strings

LENS = [0, 1, 2, 3, 4, 5, 6, 7, 8, 9, 15, 16, 17, 31, 32, 33, 57, 63, 64, 65, 100, 255, 256, 257, 1000]


def rand_bytes(r, maxlen):
    k = r.random()
    if k < 0.75:
        n = r.choice(LENS)
    elif k < 0.95:
        n = r.randint(0, min(maxlen, 2048))
    else:
        n = r.randint(0, maxlen)
    n = min(n, maxlen)
    kind = r.random()
    if kind < 0.5:
        return r.randbytes(n), "random"
    if kind < 0.6:
        return bytes(n), "zero"
    if kind < 0.7:
        return bytes([255]) * n, "ff"
    if kind < 0.82:
        return bytes(r.choice(b"abc def,\n") for _ in range(n)), "text"
    if kind < 0.92:
        p = r.randbytes(r.randint(1, 7))
        return (p * (n // len(p) + 1))[:n], "periodic"
    return bytes((i + 250) % 256 for i in range(n)), "all-values"


CP_EDGES = [0, 1, 9, 10, 13, 0x1f, 0x20, 0x22, 0x5c, 0x7e, 0x7f, 0x80, 0x9f, 0xa0, 0xff, 0x100, 0x7ff, 0x800, 0xfff, 0x1000,
            0x2028, 0x200b, 0x301, 0xd7ff, 0xe000, 0xfeff, 0xfffd, 0xfffe, 0xffff, 0x10000, 0x1f600, 0xfffff, 0x100000, 0x10ffff]


def rand_cp(r):
    k = r.random()
    if k < 0.3:
        return r.randint(0x20, 0x7e)
    if k < 0.4:
        return r.choice(CP_EDGES)
    if k < 0.45:
        return r.randint(0, 0x1f)
    if k < 0.6:
        return r.randint(0x80, 0x7ff)
    if k < 0.8:
        c = r.randint(0x800, 0xffff)
        return c if not 0xd800 <= c <= 0xdfff else 0xe000 + (c & 0x7ff)
    return r.randint(0x10000, 0x10ffff)


PRINTABLE_RANGES = [(0x20, 0x7e)] * 6 + [(0xc0, 0xd6), (0xe0, 0xf6), (0x3b1, 0x3c9), (0x410, 0x44f), (0x4e00, 0x9fa5),
                                          (0x3041, 0x3096), (0x1f600, 0x1f64f)]


def rand_printable(r, maxlen=12):
    n = r.choice([0, 1, 1, 2, 3, 5, 8, maxlen])
    out = []
    for _ in range(n):
        lo, hi = r.choice(PRINTABLE_RANGES)
        out.append(chr(r.randint(lo, hi)))
    return "".join(out)


def rand_str(r, maxlen=40):
    n = r.choice([0, 1, 1, 2, 3, 5, 8, 16, maxlen])
    return "".join(chr(rand_cp(r)) for _ in range(n))


# ---------------------------------------------------------------- JSON-shaped values

FLOAT_NICE = [0.0, -0.0, 0.5, 1.0, -1.0, 1.5, 0.1, 0.2, 0.3, 1e15, 1e16, 1e17, 1e21, 1e22, 1e23, 1e-5, 1e-7, 123.456, 2.0 ** 53,
              2.0 ** 63, 2.0 ** 64, 5e-324, 2.2250738585072014e-308, 1.7976931348623157e308, 3.141592653589793, 1e300, -1e-300,
              9007199254740993.0, 0.30000000000000004, 4.35, 1.1, 2.675]


def rand_float(r):
    k = r.random()
    if k < 0.35:
        return r.choice(FLOAT_NICE)
    if k < 0.5:
        return round(r.uniform(-1000, 1000), r.randint(0, 6))
    if k < 0.6:
        return float(r.randint(-10 ** 6, 10 ** 6))
    while True:
        f = bits2f("%016x" % r.getrandbits(64))
        if f == f and abs(f) != math.inf:
            return f


I64_EDGES = [0, 1, -1, 255, 2 ** 31 - 1, 2 ** 31, -2 ** 31, 2 ** 32, 2 ** 53, 2 ** 53 + 1, -(2 ** 53) - 1, 2 ** 62, 2 ** 63 - 1, -(2 ** 63),
             -(2 ** 63) + 1, 10 ** 18, 9007199254740993]


def rand_i64(r):
    k = r.random()
    if k < 0.3:
        return r.choice(I64_EDGES)
    if k < 0.6:
        return r.randint(-1000, 1000)
    v = r.getrandbits(r.choice([16, 32, 53, 54, 62, 63]))
    return -v if r.random() < 0.5 else v


class BigInt(int):
    """An int leaf that the Noulith source writer renders through a big-representation producer."""


def rand_json(r, depth, floats=True, strgen=rand_str, bigs=False):
    k = r.random()
    if depth <= 0 or k < 0.45:
        k = r.random()
        if k < 0.1:
            return None
        if k < 0.45 or (k < 0.7 and not floats):
            n = rand_i64(r)
            return BigInt(n) if bigs and r.random() < 0.3 else n
        if k < 0.7:
            return rand_float(r)
        return strgen(r)
    if k < 0.75:
        return [rand_json(r, depth - 1, floats, strgen, bigs) for _ in range(r.choice([0, 1, 2, 3, 5]))]
    d = {}
    for _ in range(r.choice([0, 1, 2, 3, 4])):
        d[strgen(r)] = rand_json(r, depth - 1, floats, strgen, bigs)
    return d


def json_src(v, esc=False):
    """Noulith source text for a JSON-shaped Python value."""
    if v is None:
        return "null"
    if isinstance(v, BigInt):
        return "(%s // 1)" % lit(int(v))
    if isinstance(v, int):
        return lit(v)
    if isinstance(v, float):
        return src_float(v)
    if isinstance(v, str):
        return nstr(v, esc)
    if isinstance(v, list):
        return "[%s]" % ", ".join(json_src(x, esc) for x in v)
    return "{%s}" % ", ".join("%s: %s" % (nstr(k, esc), json_src(x, esc)) for k, x in v.items())


def ftext(f):
    """JSON number text for a float that is also Noulith literal syntax (no `+` in the exponent)."""
    t = repr(f)
    if "e" in t:
        m, e = t.split("e")
        t = "%se%d" % (m, int(e))
    return t


def json_text(v, r, style):
    """JSON text for v restricted to the syntax that JSON and Noulith literals share."""
    sep, col, nl = style
    if v is None:
        return "null"
    if isinstance(v, float):
        return ftext(v)
    if isinstance(v, int):
        return str(int(v))
    if isinstance(v, str):
        return json.dumps(v, ensure_ascii=False)
    if isinstance(v, list):
        return "[" + nl + (sep + nl).join(json_text(x, r, style) for x in v) + nl + "]"
    return "{" + nl + (sep + nl).join(json.dumps(k, ensure_ascii=False) + col + json_text(x, r, style) for k, x in v.items()) + nl + "}"


STYLES = [(",", ":", ""), (", ", ": ", ""), (" , ", " : ", " "), (",", ": ", "\n"), (",", ":", "\n  ")]


def has_kind(v, pred):
    if pred(v):
        return True
    if isinstance(v, list):
        return any(has_kind(x, pred) for x in v)
    if isinstance(v, dict):
        return any(pred(k) or has_kind(x, pred) for k, x in v.items())
    return False


def json_nontrivial(v):
    return isinstance(v, (list, dict, float)) or (isinstance(v, str) and any(ord(c) > 127 for c in v))


def c2py(c):
    """Canonical value -> Python JSON-shaped value (None for anything that is not JSON-shaped is
    indistinguishable from null, so non-JSON shapes are wrapped in a marker tuple)."""
    if c is None:
        return None
    if isinstance(c, dict):
        if "i" in c:
            return int(c["i"])
        if "f" in c:
            return bits2f(c["f"])
        if "s" in c:
            return c["s"]
        if "l" in c:
            return [c2py(x) for x in c["l"]]
        if "d" in c and "def" not in c:
            out = {}
            for k, v in c["d"]:
                if not (isinstance(k, dict) and "s" in k):
                    return ("non-json", c)
                out[k["s"]] = c2py(v)
            return out
    return ("non-json", c)


def ulps(a, b):
    ia = int(f2bits(a), 16)
    ib = int(f2bits(b), 16)
    ia = ia if ia < 1 << 63 else (1 << 63) - ia
    ib = ib if ib < 1 << 63 else (1 << 63) - ib
    return abs(ia - ib)


def jdiff(exp, got, out, path="$"):
    """Compare two JSON-shaped Python values with the property's `==` (numbers by exact value);
    appends (class, path, expected, got) for every mismatch."""
    if isinstance(exp, bool) or isinstance(got, bool):
        out.append(("shape", path, exp, got))
        return
    if isinstance(exp, (int, float)) and isinstance(got, (int, float)):
        if exp != exp or got != got or abs(exp) == math.inf or abs(got) == math.inf:
            if not (exp == got):
                out.append(("float-nonfinite", path, exp, got))
            return
        if Fraction(exp) != Fraction(got):
            if isinstance(exp, float) and isinstance(got, float) and ulps(exp, got) <= 4:
                out.append(("float-inexact", path, exp, got))
            elif isinstance(exp, float) or isinstance(got, float):
                out.append(("float-vs-int" if isinstance(exp, int) or isinstance(got, int) else "float", path, exp, got))
            else:
                out.append(("int", path, exp, got))
        return
    if exp is None or got is None or type(exp) is not type(got) and not (isinstance(exp, int) and isinstance(got, int)):
        if not (exp is None and got is None):
            out.append(("shape", path, exp, got))
        return
    if isinstance(exp, str):
        if exp != got:
            out.append(("string", path, exp, got))
        return
    if isinstance(exp, list):
        if len(exp) != len(got):
            out.append(("shape", path, "len %d" % len(exp), "len %d" % len(got)))
            return
        for i, (a, b) in enumerate(zip(exp, got)):
            jdiff(a, b, out, "%s[%d]" % (path, i))
        return
    if isinstance(exp, dict):
        if set(exp) != set(got):
            out.append(("keys", path, sorted(exp)[:6], sorted(got)[:6]))
            return
        for k in exp:
            jdiff(exp[k], got[k], out, "%s.%s" % (path, k[:10]))
        return
    out.append(("shape", path, exp, got))


def diff_findings(prefix, exp, got, label, en="expected", gn="got"):
    """-> list of (key, what, expected) grouped by mismatch class."""
    out = []
    jdiff(exp, got, out)
    res = {}
    for cls, path, e, g in out:
        if cls not in res:
            res[cls] = ("%s|%s" % (prefix, cls), "%s: at %s %s %s, %s %s" % (label, path, en, short(repr(e), 60), gn, short(repr(g), 60)), short(repr(e), 200))
    return list(res.values())


# ---------------------------------------------------------------- case construction

def mk(fam, text, check, nontrivial=True, okey=None, throw_ok=False, tags=()):
    return {"fam": fam, "text": text, "check": check, "nontrivial": nontrivial, "okey": okey or fam,
            "throw_ok": throw_ok, "tags": tags}


def shape_bad(fam, ev):
    return [("C16|%s|shape" % fam, "unexpected result shape %s" % short(ev.get("v")), None)]


# ---- intstr

def case_intstr(r, plan):
    n = rand_int(r, plan["max_bits"])
    p, tag = produce(r, n)
    dec = str(n)
    text = '(\\x -> [str(x), int(str(x)), number(str(x)), int("%s"), number("%s"), x])(%s)' % (dec, dec, p)
    sign = "neg" if n < 0 else "nonneg"
    labels = ["str", "int(str)", "number(str)", "int(text)", "number(text)", "identity"]

    def check(ev):
        it = c_list(ev.get("v"), 6)
        if it is None:
            return shape_bad("intstr", ev)
        res = []
        got = [c_str(it[0])] + [c_int(x) for x in it[1:]]
        want = [dec, n, n, n, n, n]
        for lab, g, w_ in zip(labels, got, want):
            if g != w_:
                res.append(("C16|intstr|%s|%s" % (lab, sign), "%s of %s (producer %s) gave %s, expected %s" % (lab, short(dec, 40), tag, short(str(g), 60), short(str(w_), 60)), str(w_)))
        return res
    c = mk("intstr", text, check, nontrivial=abs(n) > 2 ** 31 or tag in BIG_PRODUCERS, tags=("producer:" + tag, "bits:" + bits_bucket(n)))
    c["reprflag"] = 5
    return c


# ---- radix

def radix_case(n, b, ptag, qtag):
    d = digits(n, b)
    p = produce_as(n, ptag)
    q = produce_as(-n, qtag)
    text = '(\\x, y -> [str_radix(x, %d), int_radix(str_radix(x, %d), %d), int_radix("%s", %d), str_radix(y, %d), x])(%s, %s)' % (b, b, b, d, b, b, p, q)

    def check(ev):
        it = c_list(ev.get("v"), 5)
        if it is None:
            return shape_bad("radix", ev)
        res = []
        s = c_str(it[0])
        if s is None or s.lower() != d:
            if n == 0:
                res.append(("C16|str_radix|zero", "str_radix(0, %d) gave %r, positional notation of zero is \"0\"" % (b, s), "0"))
            else:
                res.append(("C16|str_radix|digits", "str_radix(%s, %d) (producer %s) gave %s, expected %s" % (short(str(n), 40), b, ptag, short(repr(s), 60), short(d, 60)), d))
        if c_int(it[1]) != n:
            res.append(("C16|radix|roundtrip", "int_radix(str_radix(n, b), b) for n=%s b=%d gave %s" % (short(str(n), 40), b, short(str(c_int(it[1])), 60)), str(n)))
        if c_int(it[2]) != n:
            res.append(("C16|int_radix|value", "int_radix(%s, %d) gave %s, expected %s" % (short(repr(d), 60), b, short(str(c_int(it[2])), 60), short(str(n), 60)), str(n)))
        if n > 0:
            sn = c_str(it[3])
            if sn is None or sn.lower() != "-" + d:
                res.append(("C16|str_radix|negative", "str_radix(-%s, %d) (producer %s) gave %s, expected -%s" % (short(str(n), 40), b, qtag, short(repr(sn), 60), short(d, 60)), "-" + d))
        return res
    c = mk("radix", text, check, nontrivial=n >= b or n == 0, tags=("base:%d" % b, "producer:" + ptag))
    c["reprflag"] = 4
    return c


def radix_grid():
    """Exhaustive: every base 2..36 x boundary values x (machine-word, big) producer."""
    out = []
    for b in range(2, 37):
        vals = {0, 1, b - 1, b, b + 1, b * b - 1, b * b, 35, 36, 255, 2 ** 31 - 1, 2 ** 31, 2 ** 32, 2 ** 63 - 1, 2 ** 63, 2 ** 64,
                b ** 13 - 1, b ** 13, b ** 40, (b ** 17 - 1) // (b - 1) * (b - 1)}
        for n in sorted(vals):
            for ptag, qtag in (("literal", "floordiv1"), ("floordiv1", "literal")):
                out.append(radix_case(n, b, ptag, qtag))
    return out


def case_radix(r, plan):
    b = r.randint(2, 36) if r.random() < 0.7 else r.choice([2, 8, 10, 16, 35, 36])
    n = abs(rand_int(r, plan["max_bits"]))
    ptag = r.choice(SMALL_PRODUCERS + BIG_PRODUCERS)
    qtag = r.choice(SMALL_PRODUCERS + BIG_PRODUCERS)
    return radix_case(n, b, ptag, qtag)


# ---- rational

def case_rational(r, plan):
    sign = r.choice(["", "", "+", "-", "-", "-"])
    form = r.choice(["int", "decimal", "decimal", "decimal", "decimal-bare-point", "decimal-trailing-point", "frac", "frac"])
    sci = form != "frac" and r.random() < 0.4

    def digs(lo, hi, lead_zero=True):
        k = r.choice([1, 1, 2, 3, 5, 9, 18, 19, 20, 40])
        k = max(lo, min(hi, k))
        s = "".join(r.choice("0123456789") for _ in range(k))
        if r.random() < 0.15:
            s = r.choice(["0", "00", "1", "5", "10", "9" * k])[:max(1, hi)]
        return s
    ip, fp = digs(1, 60), ""
    if form == "decimal":
        fp = digs(1, 60)
    elif form == "decimal-bare-point":
        ip, fp = "", digs(1, 60)
    elif form == "decimal-trailing-point":
        fp = ""
    sgn = -1 if sign == "-" else 1
    if form == "frac":
        q = int(digs(1, 30)) or 7
        den = str(q)
        if r.random() < 0.2:
            den = "0" * r.randint(1, 2) + den
        slash = r.choice(["/", "/", "/", " / ", "/ ", " /"])
        s = sign + ip + slash + den
        exp = Fraction(sgn * int(ip), q)
        okey = "rational|frac|%s" % {"": "unsigned", "+": "plus", "-": "neg"}[sign]
        blanks = slash != "/"
    else:
        point = "" if form == "int" else "."
        s = sign + ip + point + fp
        mant = Fraction(int(ip or "0")) + (Fraction(int(fp), 10 ** len(fp)) if fp else 0)
        e = 0
        if sci:
            me = plan["max_exp"]
            e = r.choice([0, 1, -1, 2, -2, 3, 5, -5, 10, -10, 22, -22, 100, -100, me, -me, r.randint(-me, me)])
            es = ("+" if e >= 0 and r.random() < 0.3 else "") + str(e)
            if r.random() < 0.15:
                es = es.replace(str(abs(e)), "0" + str(abs(e)), 1)
            s += r.choice("eE") + es
        exp = sgn * mant * (Fraction(10) ** e)
        okey = "rational|%s%s|%s" % (form, "+sci" if sci else "", {"": "unsigned", "+": "plus", "-": "neg"}[sign])
        blanks = False
    padded = False
    if r.random() < 0.12:
        s = r.choice([" ", "  ", "\t", "\n"]) + s + r.choice(["", " ", "\n"])
        padded = True
    text = "rational(%s)" % nstr(s)

    def check(ev):
        got = c_rat(ev.get("v"))
        if got != exp:
            return [("C16|%s|wrong" % okey, "rational(%r) gave %s, expected %s" % (s, short(str(got), 70), short(str(exp), 70)), str(exp))]
        return []
    nontriv = bool(sign) or form != "int" or sci
    return mk("rational", text, check, nontrivial=nontriv, okey=okey, throw_ok=padded or blanks,
              tags=("form:" + okey.split("|", 1)[1], "padded" if padded else "bare"))


# ---- byte codecs

def case_hex(r, plan):
    b, kind = rand_bytes(r, plan["max_bytes"])
    lo = binascii.hexlify(b).decode()
    up = lo.upper()
    text = '(\\x -> [hex_encode(x), hex_decode(hex_encode(x)), hex_decode("%s"), (try hex_decode("%s") catch e -> null), hex_encode(hex_decode("%s"))])(%s)' % (lo, up, lo, nbytes(b))

    def check(ev):
        it = c_list(ev.get("v"), 5)
        if it is None:
            return shape_bad("hex", ev)
        res = []
        e = c_str(it[0])
        if e is None or e.lower() != lo:
            res.append(("C16|hex|encode", "hex_encode of %d %s bytes gave %s, expected %s" % (len(b), kind, short(repr(e), 50), short(lo, 50)), lo))
        if c_bytes(it[1]) != b:
            res.append(("C16|hex|roundtrip", "hex_decode(hex_encode(b)) != b for %d %s bytes %s" % (len(b), kind, short(lo, 40)), lo))
        if c_bytes(it[2]) != b:
            res.append(("C16|hex|decode-lower", "hex_decode(%s) gave %s" % (short(lo, 40), short(it[2], 60)), lo))
        if it[3] is not None and c_bytes(it[3]) != b:      # a raise on upper-case digits is not judged
            res.append(("C16|hex|decode-upper", "hex_decode(%s) gave %s" % (short(up, 40), short(it[3], 60)), lo))
        e2 = c_str(it[4])
        if e2 is None or e2.lower() != lo:
            res.append(("C16|hex|encode-decode", "hex_encode(hex_decode(s)) != s for %s: %s" % (short(lo, 40), short(repr(e2), 50)), lo))
        return res
    return mk("hex", text, check, nontrivial=len(b) > 0, tags=("bytes:" + kind, "len:%d" % len(b).bit_length()))


def case_base64(r, plan):
    b, kind = rand_bytes(r, plan["max_bytes"])
    enc = base64.b64encode(b).decode()
    text = '(\\x -> [base64_encode(x), base64_decode(base64_encode(x)), base64_decode("%s"), base64_encode(base64_decode("%s"))])(%s)' % (enc, enc, nbytes(b))

    def check(ev):
        it = c_list(ev.get("v"), 4)
        if it is None:
            return shape_bad("base64", ev)
        res = []
        if c_str(it[0]) != enc:
            res.append(("C16|base64|encode", "base64_encode of %d %s bytes (%s) gave %s, expected %s" % (len(b), kind, short(b.hex(), 30), short(repr(c_str(it[0])), 50), short(enc, 50)), enc))
        if c_bytes(it[1]) != b:
            res.append(("C16|base64|roundtrip", "base64_decode(base64_encode(b)) != b for %d %s bytes %s" % (len(b), kind, short(b.hex(), 40)), b.hex()))
        if c_bytes(it[2]) != b:
            res.append(("C16|base64|decode", "base64_decode(%s) gave %s" % (short(enc, 40), short(it[2], 60)), b.hex()))
        if c_str(it[3]) != enc:
            res.append(("C16|base64|encode-decode", "base64_encode(base64_decode(s)) != s for %s" % short(enc, 40), enc))
        return res
    return mk("base64", text, check, nontrivial=len(b) > 0, tags=("bytes:" + kind, "pad:%d" % (len(b) % 3)))


def case_compress(r, plan):
    b, kind = rand_bytes(r, plan["max_bytes"])
    if r.random() < 0.012:
        # a gzip stream longer than the usual 32 KiB I/O buffers (incompressible input), in every tier
        b, kind = r.randbytes(r.choice([33000, 40000, 66000, 100000])), "random-big"
    gz = gzip.compress(b, compresslevel=r.choice([0, 1, 6, 9]), mtime=r.choice([0, 1, 1700000000]))
    text = "(\\x -> [compress(x), decompress(compress(x)), decompress(%s)])(%s)" % (nbytes(gz), nbytes(b))

    def check(ev):
        it = c_list(ev.get("v"), 3)
        if it is None:
            return shape_bad("compress", ev)
        res = []
        z = c_bytes(it[0])
        try:
            back = gzip.decompress(z) if z is not None else None
        except Exception as e:    # not a gzip stream / bad CRC
            back = "python gzip cannot read it: %s" % e
        if back != b:
            res.append(("C16|compress|output", "gzip.decompress(compress(b)) != b for %d %s bytes: %s" % (len(b), kind, short(repr(back), 60)), b.hex()[:200]))
        if c_bytes(it[1]) != b:
            res.append(("C16|compress|roundtrip", "decompress(compress(b)) != b for %d %s bytes" % (len(b), kind), b.hex()[:200]))
        if c_bytes(it[2]) != b:
            res.append(("C16|compress|decompress", "decompress(gzip.compress(b)) != b for %d %s bytes" % (len(b), kind), b.hex()[:200]))
        return res
    return mk("compress", text, check, nontrivial=len(b) > 0, tags=("bytes:" + kind, "len:%d" % len(b).bit_length()))


def case_utf8(r, plan):
    s = rand_str(r, 60)
    b = s.encode("utf-8")
    esc = r.random() < 0.5
    text = "(\\s, b -> [utf8_encode(s), utf8_decode(b), utf8_decode(utf8_encode(s)), utf8_encode(utf8_decode(b))])(%s, %s)" % (nstr(s, esc), nbytes(b))

    def check(ev):
        it = c_list(ev.get("v"), 4)
        if it is None:
            return shape_bad("utf8", ev)
        res = []
        if c_bytes(it[0]) != b:
            res.append(("C16|utf8|encode", "utf8_encode(%s) gave %s, expected %s" % (short(nstr(s, True), 60), short(it[0], 60), short(b.hex(), 60)), b.hex()))
        if c_str(it[1]) != s:
            res.append(("C16|utf8|decode", "utf8_decode(%s) gave %s, expected %s" % (short(b.hex(), 50), short(it[1], 50), short(nstr(s, True), 50)), s))
        if c_str(it[2]) != s:
            res.append(("C16|utf8|roundtrip", "utf8_decode(utf8_encode(s)) != s for %s" % short(nstr(s, True), 60), s))
        if c_bytes(it[3]) != b:
            res.append(("C16|utf8|encode-decode", "utf8_encode(utf8_decode(b)) != b for %s" % short(b.hex(), 60), b.hex()))
        return res
    width = max([len(ch.encode()) for ch in s] or [0])
    return mk("utf8", text, check, nontrivial=len(s) > 0, tags=("utf8-width:%d" % width, "escaped" if esc else "raw"))


# ---- chr / ord

def scalar_blocks(size=512):
    out = []
    for lo, hi in ((0, 0xD800), (0xE000, 0x110000)):
        for a in range(lo, hi, size):
            out.append((a, min(a + size, hi)))
    return out


def chr_block_case(a, b):
    text = '(\\s -> [s, map(s, ord)])(join(map(%d til %d, chr), ""))' % (a, b)
    want = "".join(map(chr, range(a, b)))

    def check(ev):
        it = c_list(ev.get("v"), 2)
        if it is None:
            return shape_bad("chr", ev)
        res = []
        s = c_str(it[0])
        if s != want:
            bad = next((i for i in range(b - a) if s is None or i >= len(s) or s[i] != want[i]), None)
            res.append(("C16|chr|wrong", "chr over U+%04X..U+%04X differs from the scalar values, first at U+%04X" % (a, b - 1, a + (bad or 0)), None))
        ords = c_list(it[1])
        got = [c_int(x) for x in ords] if ords is not None else None
        if got != list(range(a, b)):
            res.append(("C16|ord|wrong", "ord(chr(n)) != n somewhere in U+%04X..U+%04X: %s" % (a, b - 1, short(str(got), 60)), None))
        return res
    return mk("chrord", text, check, nontrivial=True, tags=("scalar-block",))


def case_chrord(r, plan):
    k = r.random()
    if k < 0.12:
        # outside the scalar values: nothing is promised, the outcome is only counted
        n = r.choice([0xD800, 0xDBFF, 0xDC00, 0xDFFF, 0x110000, 0x110001, -1, 2 ** 32, 2 ** 32 + 65, 2 ** 64 + 65, r.randint(0xD800, 0xDFFF)])
        p, tag = produce(r, n)
        c = mk("chrord", "chr(%s)" % p, lambda ev: [], nontrivial=False, throw_ok=True, tags=("non-scalar",))
        c["count_outcome"] = "chr-non-scalar"
        return c
    n = rand_cp(r)
    if k < 0.6:
        p, tag = produce(r, n)
        text = "(\\n -> [chr(n), ord(chr(n)), n])(%s)" % p

        def check(ev):
            it = c_list(ev.get("v"), 3)
            if it is None:
                return shape_bad("chr", ev)
            res = []
            if c_str(it[0]) != chr(n):
                res.append(("C16|chr|wrong", "chr(%d) (producer %s) gave %s" % (n, tag, short(it[0], 40)), chr(n)))
            if c_int(it[1]) != n:
                res.append(("C16|ord|wrong", "ord(chr(%d)) gave %s" % (n, short(it[1], 40)), str(n)))
            return res
        c = mk("chrord", text, check, nontrivial=True, tags=("producer:" + tag,))
        c["reprflag"] = 2
        return c
    ch = chr(n)
    text = "(\\c -> [ord(c), chr(ord(c))])(%s)" % nstr(ch, r.random() < 0.5)

    def check2(ev):
        it = c_list(ev.get("v"), 2)
        if it is None:
            return shape_bad("ord", ev)
        res = []
        if c_int(it[0]) != n:
            res.append(("C16|ord|wrong", "ord of U+%04X gave %s" % (n, short(it[0], 40)), str(n)))
        if c_str(it[1]) != ch:
            res.append(("C16|chr|wrong", "chr(ord(c)) != c for U+%04X: %s" % (n, short(it[1], 40)), ch))
        return res
    return mk("chrord", text, check2, nontrivial=True, tags=("char-literal",))


# ---- json

def case_json(r, plan):
    k = r.random()
    if k < 0.04:
        # unsigned 64-bit range: exercised and counted, not judged (see ASSUMPTIONS)
        n = r.choice([2 ** 63, 2 ** 63 + 1, 2 ** 64 - 1, r.getrandbits(64) | 1 << 63])
        text = "(\\v -> json_decode(json_encode(v)) == v)(%s)" % lit(n)
        c = mk("json", text, lambda ev: [], nontrivial=False, throw_ok=True, tags=("u64-range-unjudged",))
        c["count_value"] = "json-u64-roundtrip-equal"
        return c
    floats = r.random() < 0.55
    v = rand_json(r, r.choice([0, 1, 2, 3, 4]), floats=floats, bigs=True)
    pytext = json.dumps(v, ensure_ascii=r.random() < 0.5, allow_nan=False,
                        separators=r.choice([(",", ":"), (", ", ": ")]))
    text = "(\\v -> [json_encode(v), json_decode(json_encode(v)), json_decode(%s)])(%s)" % (nstr(pytext), json_src(v, r.random() < 0.3))

    def check(ev):
        it = c_list(ev.get("v"), 3)
        if it is None:
            return shape_bad("json", ev)
        res = []
        enc = c_str(it[0])
        try:
            back = json.loads(enc, parse_constant=lambda s: ("non-json", s))
            res += diff_findings("C16|json|encode", v, back, "json_encode(v)=%s read by Python json" % short(enc, 60))
        except Exception as e:
            res.append(("C16|json|encode|not-json", "json_encode(v) is not JSON for Python: %s (%s)" % (short(repr(enc), 60), e), pytext[:200]))
        res += diff_findings("C16|json|roundtrip", v, c2py(it[1]), "json_decode(json_encode(v)) for v=%s" % short(pytext, 60))
        res += diff_findings("C16|json|decode", v, c2py(it[2]), "json_decode(%s)" % short(pytext, 60))
        return res
    tags = ["depth-%s" % ("scalar" if not isinstance(v, (list, dict)) else "container")]
    if has_kind(v, lambda x: isinstance(x, float)):
        tags.append("has-float")
    if has_kind(v, lambda x: isinstance(x, BigInt)):
        tags.append("has-bigrepr-int")
    if has_kind(v, lambda x: isinstance(x, str) and any(ord(c) > 0xffff for c in x)):
        tags.append("has-astral-string")
    return mk("json", text, check, nontrivial=json_nontrivial(v), tags=tuple(tags))


# ---- literal: JSON text evaluated as a Noulith literal vs json_decode of the same text

def literal_compare(prefix, text_t, ev_lit, ev_dec, pyval):
    """Findings for `evaluating T` vs `json_decode(T)`.  Only agreement of the two is judged."""
    a = c2py(ev_lit.get("v"))
    b = c2py(ev_dec.get("v"))
    return diff_findings(prefix, b, a, "text %s" % short(text_t, 70), en="json_decode gives", gn="evaluated as a Noulith literal it gives")


def gen_literal(r):
    floats = r.random() < 0.5
    v = rand_json(r, r.choice([0, 1, 2, 3, 4]), floats=floats, strgen=rand_printable)
    t = json_text(v, r, r.choice(STYLES))
    return v, t


# ---- render

FLAGSETS = ["", "#x", "#X", "#b", "#o", "#d"]
PADS = ["#08x", "#<12X", "#^9b", "#020", "#>5o", "#70x", "#<3b", "#^21d", "#012o", "#x5", "#X 30", "#b0 66"]


def flag_base(fl):
    for ch in fl[::-1]:
        if ch in "xXbBoOdD":
            return {"B": "b", "O": "o", "D": "d"}.get(ch, ch)
    return "d"


def case_render(r, plan):
    n = rand_word(r)
    stag = r.choice(SMALL_PRODUCERS)
    btag = r.choice(BIG_PRODUCERS)
    flags = FLAGSETS + r.sample(PADS, 3)
    parts = ["[a, b]", "[str(a), str(b)]", "[$(a), $(b)]", '[a $ "", b $ ""]', '["<" $ a $ ">", "<" $ b $ ">"]', "[str([a, 1]), str([b, 1])]", "[repr(a), repr(b)]"]
    names = ["identity", "str", "$()", "$-infix", "$-infix3", "str-list", "repr"]
    for fl in flags:
        parts.append('[F"{a %s}", F"{b %s}"]' % (fl, fl))
        names.append("F" + (fl or "{}"))
    # one format string with several placeholders (flags of one placeholder must not affect the next):
    # must equal the concatenation of the single-placeholder renderings
    mf = [r.choice(flags) for _ in range(r.randint(2, 4))] + [r.choice(["", "", "#d"])]
    multi = "|".join("{%s %s}" % (r.choice("ab"), fl) for fl in mf)
    singles = ' $ "|" $ '.join('F"%s"' % ph for ph in multi.split("|"))
    parts.append('[F"%s", %s]' % (multi, singles))
    names.append("multi")
    text = "(\\a, b -> (print(a); print(b); [%s]))(%s, %s)" % (", ".join(parts), produce_as(n, stag), produce_as(n, btag))
    sign = "neg" if n < 0 else "nonneg"

    def check(ev):
        it = c_list(ev.get("v"), len(parts))
        if it is None:
            return shape_bad("render", ev)
        res = []
        ab = c_list(it[0], 2)
        if ab is None or c_int(ab[0]) != n or c_int(ab[1]) != n:
            return [("C16|render|producer", "producers did not give %d twice: %s" % (n, short(it[0])), None)]
        for nm, pair in zip(names[1:], it[1:]):
            p = c_list(pair, 2)
            if p is None or c_str(p[0]) is None or c_str(p[0]) != c_str(p[1]):
                if nm == "multi":
                    key = "C16|render|multi-placeholder"
                elif nm.startswith("F"):
                    key = "C16|render|fmt#%s|%s" % (flag_base(nm[1:]), sign)
                else:
                    key = "C16|render|%s|%s" % (nm, sign)
                res.append((key, "%s renders %d as %s in machine-word and %s in big representation" % (
                    nm, n, short(repr(c_str(p[0])) if p else pair, 50), short(repr(c_str(p[1])) if p else pair, 50)), "identical renderings"))
            elif nm in ("str", "$()", "$-infix", "repr", "F{}", "F#d") and c_str(p[0]) != str(n):
                res.append(("C16|render|%s|decimal" % nm, "%s renders %d as %r" % (nm, n, c_str(p[0])), str(n)))
        lines = (ev.get("out") or "")
        if isinstance(lines, dict):
            lines = str(lines)
        ls = lines.split("\n")
        if len(ls) != 3 or ls[0] != ls[1] or ls[2] != "":
            res.append(("C16|render|print|%s" % sign, "print renders %d as %r in the two representations" % (n, lines), "identical lines"))
        elif ls[0] != str(n):
            res.append(("C16|render|print|decimal", "print renders %d as %r" % (n, ls[0]), str(n)))
        return res
    c = mk("render", text, check, nontrivial=True, tags=("sign:" + sign, "small:" + stag, "big:" + btag))
    c["render_pair"] = True
    return c


# ---------------------------------------------------------------- judging

class Reporter:
    """Keeps at most a few stored violations per key and shard (thousands of cases hit the same
    defect; the shard keeps only the first 400 stored violations overall)."""

    def __init__(self, sh):
        self.sh = sh
        self.per_key = {}
        self.sample_fam = None     # each shard contributes its evidence sample from one family

    def report(self, key, what, text, expected=None, extra_job=None):
        n = self.per_key.get(key, 0)
        self.per_key[key] = n + 1
        self.sh.count("violation-key:" + key)
        if n < 3:
            job = {"kind": "eval", "stmts": [text]}
            if extra_job:
                job.update(extra_job)
            self.sh.violation(key, what, {"job": job, "expected": expected})
        else:
            self.sh.count("violations_total")


def inconclusive(sh, ev, text):
    o = ev.get("o")
    if o in INCONC:
        sh.inconc(o + (":" + str(ev.get("why")) if ev.get("why") else ""), text[:200])
        return True
    if o == "panic":
        sh.inconc("panic", text[:200])
        sh.count("panic:" + ((ev.get("panic") or {}).get("msg") or "")[:60])
        return True
    return False


def judge(sh, rep, c, ev):
    text = c["text"]
    sh.seen(text, c["nontrivial"])
    sh.count("family:" + c["fam"])
    for t in c["tags"]:
        sh.count("%s:%s" % (c["fam"], t))
    if inconclusive(sh, ev, text):
        return
    o = ev.get("o")
    if "count_outcome" in c:
        sh.count("%s:%s" % (c["count_outcome"], o))
    if o != "ok":
        if c["throw_ok"] and o == "throw":
            sh.excluded += 1
            sh.count("excluded:%s-raised-where-nothing-is-promised" % c["fam"])
            return
        rep.report("C16|%s|%s" % (c["okey"], o), "%s -> %s %s" % (short(text, 140), o, (ev.get("err") or "")[:100]), text, "a value")
        return
    if "count_value" in c:
        sh.count("%s:%s" % (c["count_value"], short(ev.get("v"), 30)))
    if "reprflag" in c:
        it = c_list(ev.get("v"))
        if it is not None and len(it) > c["reprflag"]:
            x = it[c["reprflag"]]
            n = c_int(x)
            if n is not None:
                sh.count("%s:operand-%s" % (c["fam"], "big-repr-of-word-value" if is_big(x) and in_word(n) else "big-repr" if is_big(x) else "machine-word"))
    if c.get("render_pair"):
        it = c_list(ev.get("v"))
        ab = c_list(it[0], 2) if it else None
        if ab and not is_big(ab[0]) and is_big(ab[1]):
            sh.count("render:pair-confirmed-word-vs-big")
        else:
            sh.count("render:pair-not-in-two-representations")
    for key, what, expected in c["check"](ev):
        rep.report(key, what, text, expected)
    if rep.sample_fam == c["fam"] and "scalar-block" not in c["tags"]:
        sh.sample({"family": c["fam"], "expr": short(text, 300), "observed": short(ev.get("v"), 300), "out": ev.get("out")}, cap=1)


def run_cases(sh, rep, w, cases, batch=200):
    for i in range(0, len(cases), batch):
        part = cases[i:i + batch]
        # keep single submissions bounded in size (large byte literals)
        evs = core.eval_all(w, [c["text"] for c in part], jid="c16")
        for c, ev in zip(part, evs):
            judge(sh, rep, c, ev)


def run_literal(sh, rep, w, r, count):
    """JSON text written as a Noulith literal: evaluate T and json_decode("T") and compare."""
    done = 0
    while done < count:
        gens = [gen_literal(r) for _ in range(min(150, count - done))]
        done += len(gens)
        stmts = []
        for v, t in gens:
            stmts.append(t)
            stmts.append("json_decode(%s)" % nstr(t))
        evs = core.eval_all(w, stmts, jid="c16l")
        for i, (v, t) in enumerate(gens):
            e1, e2 = evs[2 * i], evs[2 * i + 1]
            sh.seen("literal:" + t, json_nontrivial(v))
            sh.count("family:literal")
            if has_kind(v, lambda x: isinstance(x, float)):
                sh.count("literal:has-float")
            if "\n" in t:
                sh.count("literal:multi-line")
            if inconclusive(sh, e1, t) or inconclusive(sh, e2, t):
                continue
            if e1.get("o") != "ok" or e2.get("o") != "ok":
                which = "literal" if e1.get("o") != "ok" else "json_decode"
                bad = e1 if e1.get("o") != "ok" else e2
                rep.report("C16|literal|json-text|%s-%s" % (which, bad.get("o")), "JSON text %s: %s -> %s %s" % (
                    short(t, 100), which, bad.get("o"), (bad.get("err") or "")[:80]), t, None, {"stmts": [t, "json_decode(%s)" % nstr(t)]})
                continue
            for key, what, expected in literal_compare("C16|literal|json-text", t, e1, e2, v):
                rep.report(key, what, t, expected, {"stmts": [t, "json_decode(%s)" % nstr(t)]})
            # informational: does the pair also agree with Python's reading of the text?
            out = []
            jdiff(v, c2py(e1.get("v")), out)
            if out:
                sh.count("literal:noulith-literal-differs-from-python(unjudged)")
            if rep.sample_fam == "literal":
                sh.sample({"family": "literal", "text": short(t, 200), "literal": short(e1.get("v"), 200), "json_decode": short(e2.get("v"), 200)}, cap=1)
    # JSON-only number syntax (`1e+300`, which json_encode itself emits) is not Noulith literal syntax and
    # therefore outside the clause (see ASSUMPTIONS): observed and counted, never judged
    fs = []
    while len(fs) < max(4, count // 40):
        f = rand_float(r)
        if "e+" in repr(f):
            fs.append(f)
    evs = core.eval_all(w, [repr(f) for f in fs], jid="c16e")
    for f, ev in zip(fs, evs):
        sh.seen("literal-e+:" + repr(f), False)
        sh.excluded += 1
        sh.count("excluded:json-only-exponent-syntax(e+N)-as-literal:%s" % ev.get("o"))


def run_repr(sh, rep, w, r, count):
    """repr(v) of JSON-shaped data: when the text is JSON, evaluating it must give what json_decode gives."""
    done = 0
    while done < count:
        k = min(150, count - done)
        done += k
        vals = []
        for _ in range(k):
            floats = r.random() < 0.25
            vals.append(rand_json(r, r.choice([0, 1, 2, 3, 4]), floats=floats, strgen=rand_printable, bigs=True))
        first = ["repr(%s)" % json_src(v) for v in vals]
        evs = core.eval_all(w, first, jid="c16r")
        follow = []
        for v, s, ev in zip(vals, first, evs):
            sh.seen(s, json_nontrivial(v))
            sh.count("family:repr")
            if inconclusive(sh, ev, s):
                continue
            t = c_str(ev.get("v")) if ev.get("o") == "ok" else None
            if t is None:
                rep.report("C16|literal|repr|%s" % ev.get("o"), "%s -> %s %s" % (short(s, 120), ev.get("o"), (ev.get("err") or "")[:80]), s)
                continue
            try:
                json.loads(t, parse_constant=lambda x: (_ for _ in ()).throw(ValueError(x)))
                is_json = True
            except Exception:
                is_json = False
            follow.append((v, s, t, is_json))
        stmts = []
        for v, s, t, is_json in follow:
            stmts.append(t)
            stmts.append("json_decode(%s)" % nstr(t))
        evs = core.eval_all(w, stmts, jid="c16r2")
        for i, (v, s, t, is_json) in enumerate(follow):
            e1, e2 = evs[2 * i], evs[2 * i + 1]
            if inconclusive(sh, e1, t) or inconclusive(sh, e2, t):
                continue
            if not is_json:
                # outside the clause (there is no json_decode value to compare with); observed only
                sh.excluded += 1
                sh.count("excluded:repr-text-is-not-JSON")
                out = []
                if e1.get("o") == "ok":
                    jdiff(v, c2py(e1.get("v")), out)
                    sh.count("repr:non-json-text-evaluates-to-%s(unjudged)" % ("other-value" if out else "v"))
                else:
                    sh.count("repr:non-json-text-%s(unjudged)" % e1.get("o"))
                continue
            sh.count("repr:text-is-JSON")
            job = {"stmts": [s, t, "json_decode(%s)" % nstr(t)]}
            if e1.get("o") != "ok" or e2.get("o") != "ok":
                which = "literal" if e1.get("o") != "ok" else "json_decode"
                bad = e1 if e1.get("o") != "ok" else e2
                rep.report("C16|literal|repr|%s-%s" % (which, bad.get("o")), "repr text %s: %s -> %s %s" % (
                    short(t, 100), which, bad.get("o"), (bad.get("err") or "")[:80]), t, None, job)
                continue
            for key, what, expected in literal_compare("C16|literal|repr", t, e1, e2, v):
                rep.report(key, what, t, expected, job)
            if rep.sample_fam == "repr":
                sh.sample({"family": "repr", "source": short(s, 200), "repr": short(t, 200), "literal": short(e1.get("v"), 200), "json_decode": short(e2.get("v"), 200)}, cap=1)


# ---------------------------------------------------------------- shard

GEN = {"intstr": case_intstr, "radix": case_radix, "rational": case_rational, "hex": case_hex, "base64": case_base64,
       "utf8": case_utf8, "compress": case_compress, "chrord": case_chrord, "json": case_json, "render": case_render}


def shard(ctx, si, n):
    sh = core.Shard("C16")
    rep = Reporter(sh)
    plan = ctx.plan
    fams = ["render", "rational", "json", "literal", "radix", "repr", "intstr", "compress", "utf8", "base64", "hex", "chrord"]
    rep.sample_fam = fams[si % len(fams)]
    w = core.Worker()
    try:
        # exhaustive grids (seed-independent), split across shards
        grid = radix_grid()
        mine = [c for i, c in enumerate(grid) if i % n == si]
        sh.count("grid:radix-cases", len(mine))
        run_cases(sh, rep, w, mine)
        blocks = [chr_block_case(a, b) for i, (a, b) in enumerate(scalar_blocks()) if i % n == si]
        sh.count("grid:scalar-values-covered", sum(1 for i, (a, b) in enumerate(scalar_blocks()) if i % n == si for _ in range(a, b)))
        run_cases(sh, rep, w, blocks, batch=50)
        # seeded families
        for fam in sorted(GEN):
            r = core.rng_for("C16", ctx.seed, si, fam)
            total = BASE_COUNTS[fam] * plan["scale"] // n
            big_inputs = fam in ("hex", "base64", "compress")
            step = 40 if big_inputs else 200
            done = 0
            while done < total:
                k = min(step * 5, total - done)
                cases = [GEN[fam](r, plan) for _ in range(k)]
                done += k
                run_cases(sh, rep, w, cases, batch=step)
        run_literal(sh, rep, w, core.rng_for("C16", ctx.seed, si, "literal"), BASE_COUNTS["literal"] * plan["scale"] // n)
        run_repr(sh, rep, w, core.rng_for("C16", ctx.seed, si, "repr"), BASE_COUNTS["repr"] * plan["scale"] // n)
    finally:
        w.close()
    return sh
