"""C04  Operators are ordinary functions: all application forms agree.

Differential monitor.  For every callable f (all non-excluded global builtins and type constructors,
struct constructor/field accessors, user closures of arity 1-3, variadic/default-parameter closures,
partial applications, sections, flip, compositions, memoised functions) and argument tuples drawn
from the shared hostile pool, every application form listed by the property is evaluated as its own
statement in a fresh child scope of one base environment, and the *outcome classes* are compared:

    ok + canonical value + captured output        versus        raised (error text is NOT compared)

  arity 2   a f b | f(a, b) | f ! a, b | a `f` b | f(_, b)(a) | f(a, _)(b) | (_ f b)(a) | (a f _)(b) |
            [a, b] apply f | f of [a, b]                       -- must all agree (equal results or all fail)
            (a f)(b)                                           -- joins the group when a is not a function
            f(b)(a)       -- only when f(a, b) succeeded and f(b) evaluated to a function: same result
            x := a; x f= b; x   -- only when f(a, b) succeeded: x must equal that result
  arity 1   f(a) | f ! a | f(...[a]) | a.f | a then f | f(_)(a) | [a] apply f | f of [a]
  arity 3   f(a, b, c) | f ! a, b, c | f(...[a, b, c]) | f(a, ...[b, c]) | [a, b, c] apply f | f of [a, b, c] |
            f(_, b, c)(a) | f(a, _, c)(b) | f(a, b, _)(c) | f(_, _, c)(a, b) | f(_, b, _)(a, c) | f(..._)([a, b, c]) |
            sections mixing holes and evaluated splats: f(_, ...[b, c])(a) | f(_, b, ...[c])(a) | f(...[a], _, c)(b)

fuel / depth / crash / timeout / panic on any form make the tuple inconclusive (or excluded when an
argument is an infinite stream or a huge number), never a violation.  The plain call is evaluated first;
only tuples on which it returns or raises get the other forms.  A disagreement seen in the batched pass is
re-run alone in a newly built base environment and only reported when it persists.
"""
import json
import time
from .. import core
from .. import pool
from ..values import norm

RULE = ("cases = (callable, argument tuple of pool variables); for each case all application forms of that arity are "
        "evaluated, each as its own statement in a fresh child scope, and compared pairwise by outcome class "
        "(ok + canonical value + output | raised); callables = every global builtin/type except I/O, clock, "
        "randomness, `vars`, `eval`, plus struct constructor/fields, closures of arity 1-3, variadic/default closures, "
        "partial applications, sections, flip, compositions (>>> <<< on *** &&&), memoised functions (cold and warm); "
        "arguments: arity 1 = whole pool, arity 2 = all pairs over the reduced pool (+ random pairs) in quick and all "
        "pairs over the whole pool in thorough, arity 3 = sampled candidate triples (reduced pool / whole pool / small "
        "numbers) of which every one whose plain call returns and a bounded number of raising ones are kept; "
        "distinct = distinct (callable, tuple); "
        "non-trivial = the plain call f(args) returned a value (tuples where every form raises are checked but trivial)")
ASSUMPTIONS = [
    "error text is not compared (forms legitimately add context); only raised-vs-returned and the returned value/output",
    "results that differ only in the order of list elements are accepted when a dict (hash iteration order) is involved",
    "builtins whose result depends on the calling scope (vars, eval) and non-deterministic / I/O builtins are excluded",
    "fuel, depth, crash, timeout and panic outcomes are inconclusive here (C14 judges them); calls that must consume an "
    "infinite stream or build an astronomically large value are outside the explored space",
    "`f(b)(a)` and `x f= b` are compared with f(a, b) only when f(a, b) returned a value (and f(b) is a function)",
]
PLAN = {
    "quick": {"pairs": "quick", "extra_pairs": 30, "triples": 16, "parts": 4, "cpu": 1.0, "cpu_hostile": 0.2,
              "max_timeouts": 6, "unit_wall": 120,
              "shards": 128},
    "thorough": {"pairs": "all", "extra_pairs": 0, "triples": 400, "parts": 16, "cpu": 3.0, "cpu_hostile": 0.2,
                 "max_timeouts": 20, "unit_wall": 600,
                 "shards": 512},
}
REG = dict(level="exploration", min_nontrivial=40000, min_nontrivial_thorough=250000, max_inconc=0.02,
           technique="differential runtime monitor: every application form of the same (callable, arguments) evaluated in "
                     "isolated child scopes and compared by outcome class and canonical value, disagreements re-run in "
                     "fresh environments before they are reported",
           claim="On every executed (callable, argument tuple) all listed application forms returned equal canonical values "
                 "and output or all raised; one-argument calls behaved as right sections and op-assign as the call under "
                 "the stated preconditions. Exploration over the shared pool, not a proof for all arguments.",
           note="Trusts the harness's structural value dump and output capture; function-valued results are compared by "
                "their Display text; error text is not compared; vars/eval and I/O builtins excluded by name.")

FUEL = 1_000_000
FUEL_INF = 40_000
MEM = 96 << 20
BATCH = 1500      # statements per job: every job re-runs the ~120-statement prelude once

EXCLUDED = set(pool.EXCLUDED) | {"vars", "eval"}
FUNC_KINDS = ("func", "type")
ZERO = {"i0", "b0", "f0", "fm0"}
# builtins that emit a list in the iteration order of an internal hash map (DESIGN Appendix A)
HASH_ORDER = {"group_all"}
# larger collections than the shared pool holds (size-dependent fast paths: small-to-large merges, preallocated
# tables); local to this check.  Their sources build a fresh, uniquely owned value every time they are evaluated.
EXTRA = [("xdA", "dict((0 til 70) map (\\i -> [i, i]))", "dict", ""),
         ("xdB", "dict((35 til 105) map (\\i -> [i, 0 - i]))", "dict", ""),
         ("xd33", "dict((0 til 33) map (\\i -> [i, [i]]))", "dict", ""),
         ("xd3", "{1: \"one\", 40: \"forty\", 200: \"x\"}", "dict", ""),
         ("xlA", "list(0 til 70)", "list", ""),
         ("xlB", "list(35 til 105)", "list", "")]
EXTRA_NAMES = [e[0] for e in EXTRA]
BYN = dict(pool.BY_NAME)
BYN.update({e[0]: e for e in EXTRA})
ALLNAMES = pool.NAMES + EXTRA_NAMES
BIDX = {n: i for i, n in enumerate(ALLNAMES)}
SMALL_NUMS = [p[0] for p in pool.POOL if p[2] in ("int", "rational", "float", "complex") and "huge" not in p[3]]

# ---------------------------------------------------------------- callables

USER_PRELUDE = [
    "u1 := \\x -> [x, 1]",
    "u2 := \\x, y -> [x, y]",
    "u3 := \\x, y, z -> [x, y, z]",
    "u2sub := \\x, y -> x - y",
    "uvar := \\...xs -> xs",
    "udef := \\x, y = 5 -> [x, y]",
    "struct Bar (ba, bb = 9)",
    "uout := \\x, y -> (print(\"called\"); [y, x])",
    "ucap := (\\k -> \\x, y -> [k, x, y])(42)",
    "uret := \\x, y -> (if (x) return [y]; [x])",
    "pleft := (7 //)",
    "pright := //(7)",
    "plast := max(7)",
    "pclos := (7 u2)",
    "schain1 := (_ - 7)",
    "schain2 := (_ - _)",
    "schain3 := (_ - _ * _)",
    "scall2 := u3(_, 7, _)",
    "scall3 := u3(_, _, _)",
    "slist2 := [_, 7, _]",
    "sidx := (_[_])",
    "flipm := flip(-)",
    "flipu := flip(u2)",
    "coa := u2 >>> len",
    "cob := str <<< -",
    "coc := u1 ∘ uvar",
    "ona := - on len",
    "onb := u2 on str",
    "para := abs *** str",
    "fana := + &&& -",
    "fanb := u2 &&& uvar",
    "memf := memoize",
]
# (key, token, setup or None, arities)
USER_CALLABLES = [
    ("closure1", "u1", None, (1, 2)), ("closure2", "u2", None, (1, 2, 3)), ("closure3", "u3", None, (2, 3)),
    ("closure2-throws", "u2sub", None, (1, 2)), ("closure-variadic", "uvar", None, (1, 2, 3)),
    ("closure-default", "udef", None, (1, 2, 3)), ("closure-output", "uout", None, (2,)),
    ("closure-capture", "ucap", None, (1, 2)), ("closure-return", "uret", None, (2,)),
    ("partial1(7 //)", "pleft", None, (1, 2)), ("partial2(// 7)", "pright", None, (1, 2)),
    ("partial-last(max 7)", "plast", None, (1, 2, 3)), ("partial1(7 closure)", "pclos", None, (1, 2)),
    ("chain-section(_ - 7)", "schain1", None, (1, 2)), ("chain-section(_ - _)", "schain2", None, (1, 2, 3)),
    ("chain-section(_ - _ * _)", "schain3", None, (2, 3)),
    ("call-section(_, 7, _)", "scall2", None, (1, 2, 3)), ("call-section(_, _, _)", "scall3", None, (2, 3)),
    ("list-section[_, 7, _]", "slist2", None, (1, 2, 3)), ("index-section(_[_])", "sidx", None, (1, 2, 3)),
    ("flip(-)", "flipm", None, (1, 2, 3)), ("flip(closure2)", "flipu", None, (1, 2)),
    ("closure2 >>> len", "coa", None, (1, 2)), ("str <<< -", "cob", None, (1, 2, 3)), ("closure1 ∘ variadic", "coc", None, (1, 2, 3)),
    ("- on len", "ona", None, (1, 2, 3)), ("closure2 on str", "onb", None, (1, 2)),
    ("abs *** str", "para", None, (1, 2, 3)), ("+ &&& -", "fana", None, (1, 2, 3)), ("closure2 &&& variadic", "fanb", None, (1, 2)),
    ("struct-constructor", "Foo", None, (1, 2, 3)), ("struct-field-a", "fa", None, (1, 2)), ("struct-field-b", "fb", None, (1, 2)),
    ("struct-constructor-default", "Bar", None, (1, 2, 3)),
    ("memoize-cold(closure1)", "mm", "mm := memf(u1); ", (1, 2)),
    ("memoize-cold(closure2)", "mm", "mm := memf(u2); ", (1, 2, 3)),
    ("memoize-cold(closure3)", "mm", "mm := memf(u3); ", (2, 3)),
    ("memoize-cold(+)", "mm", "mm := memf(+); ", (1, 2)),
    ("memoize-warm(closure1)", "mm", "mm := memf(u1); try mm({a}) catch _ -> 0; ", (1,)),
    ("memoize-warm(closure2)", "mm", "mm := memf(u2); try mm({a}, {b}) catch _ -> 0; ", (2,)),
    ("memoize-warm(closure3)", "mm", "mm := memf(u3); try mm({a}, {b}, {c}) catch _ -> 0; ", (3,)),
    ("memoize-warm(-)", "mm", "mm := memf(-); try mm({a}, {b}) catch _ -> 0; ", (2,)),
]
PRELUDE = pool.PRELUDE + ["%s := %s" % (e[0], e[1]) for e in EXTRA] + USER_PRELUDE


def is_word(tok):
    return tok[0].isalpha() or tok[0] == "_"


# ---------------------------------------------------------------- forms

BASE = {1: "f(a)", 2: "f(a,b)", 3: "f(a,b,c)"}

FORMS = {
    1: [("f(a)", "{f}({a})"), ("f!a", "{f} ! {a}"), ("f(...[a])", "{f}(...[{a}])"), ("a.f", "{a}{dot}{f}"),
        ("a then f", "{a} then {f}"), ("f(_)(a)", "{f}(_)({a})"), ("[a] apply f", "[{a}] apply {f}"),
        ("f of [a]", "{f} of [{a}]")],
    2: [("a f b", "{a} {f} {b}"), ("f(a,b)", "{f}({a}, {b})"), ("f!a,b", "{f} ! {a}, {b}"), ("a`f`b", "{a} `{f}` {b}"),
        ("f(_,b)(a)", "{f}(_, {b})({a})"), ("f(a,_)(b)", "{f}({a}, _)({b})"), ("(_ f b)(a)", "(_ {f} {b})({a})"),
        ("(a f _)(b)", "({a} {f} _)({b})"), ("[a,b] apply f", "[{a}, {b}] apply {f}"), ("f of [a,b]", "{f} of [{a}, {b}]"),
        ("f(_,...[b])(a)", "{f}(_, ...[{b}])({a})"), ("f(...[a],_)(b)", "{f}(...[{a}], _)({b})")],
    3: [("f(a,b,c)", "{f}({a}, {b}, {c})"), ("f!a,b,c", "{f} ! {a}, {b}, {c}"), ("f(...[a,b,c])", "{f}(...[{a}, {b}, {c}])"),
        ("f(a,...[b,c])", "{f}({a}, ...[{b}, {c}])"), ("[a,b,c] apply f", "[{a}, {b}, {c}] apply {f}"),
        ("f of [a,b,c]", "{f} of [{a}, {b}, {c}]"), ("f(_,b,c)(a)", "{f}(_, {b}, {c})({a})"),
        ("f(a,_,c)(b)", "{f}({a}, _, {c})({b})"), ("f(a,b,_)(c)", "{f}({a}, {b}, _)({c})"),
        ("f(_,_,c)(a,b)", "{f}(_, _, {c})({a}, {b})"), ("f(_,b,_)(a,c)", "{f}(_, {b}, _)({a}, {c})"),
        ("f(..._)([a,b,c])", "{f}(..._)([{a}, {b}, {c}])"),
        ("f(_,...[b,c])(a)", "{f}(_, ...[{b}, {c}])({a})"), ("f(_,b,...[c])(a)", "{f}(_, {b}, ...[{c}])({a})"),
        ("f(...[a],_,c)(b)", "{f}(...[{a}], _, {c})({b})")],
}
INLINE_KINDS = ("list", "vector", "bytes", "str", "stream")
# a second dict INSTANCE has its own random iteration order, which shows in the Display text of function-valued
# results: tuples with a dict argument are not re-spelt inline
NO_INLINE_KINDS = ("dict",)
# ... except for the callables whose result is a function of the dict's CONTENTS only (set algebra, lookups, size,
# equality): anything that iterates a dict argument (insert / |.. / map_keys / first / $ / ...) gives results that
# legitimately differ between two instances of the same dict
DICT_ORDER_FREE = {"||", "&&", "--", "||+", "|.", "-.", "==", "!=", "len", "in", "not_in", "∈", "∉", "!?", "!!", "index",
                   "contains", "discard"}
INLINE_FORMS = {1: 2, 2: 6, 3: 2}          # how many leading forms of each arity also get an inline spelling
F_LSEC = ("(a f)(b)", "({a} {f})({b})")
F_RSEC = ("f(b)(a)", "{f}({b})({a})")
F_OPASSIGN = ("x f= b", "opx := {a}; opx {fa} {b}; opx")


class Callable:
    __slots__ = ("key", "tok", "setup", "arities", "dot", "fa")

    def __init__(self, key, tok, setup=None, arities=(1, 2, 3)):
        self.key = key
        self.tok = tok
        self.setup = setup
        self.arities = arities
        self.dot = "." if is_word(tok) else " . "
        # `x <= b` / `x >= b` are comparisons: the op-assign of `<` and `>` is spelt with a space
        self.fa = tok + " =" if tok in ("<", ">", "!", "=") else tok + "="

    def render(self, tmpl, args):
        m = {"f": self.tok, "dot": self.dot, "fa": self.fa, "a": args[0],
             "b": args[1] if len(args) > 1 else "", "c": args[2] if len(args) > 2 else ""}
        s = tmpl.format(**m)
        if self.setup:
            s = self.setup.format(**m) + s
        return s


def forms_for(c, args, isfn):
    """[(form name, statement)] for one tuple; the conditional forms only where the statement lists them."""
    ar = len(args)
    out = [(n, c.render(t, args)) for n, t in FORMS[ar]]
    # the same forms with the arguments written inline (fresh, uniquely owned temporaries instead of
    # values held by a variable): copy-on-write fast paths must not change the result
    if any(BYN[a][2] in INLINE_KINDS + NO_INLINE_KINDS for a in args):
        inl = ["(%s)" % BYN[a][1] for a in args]
        for n, t in FORMS[ar][:INLINE_FORMS[ar]]:
            out.append(("inline " + n, c.render(t, inl)))
        if ar == 2:
            # one operand held by a variable (shared), the other a fresh temporary: the combination that
            # move-instead-of-copy fast paths distinguish
            for n, t in FORMS[2][:INLINE_FORMS[2]]:
                out.append(("inline R " + n, c.render(t, [args[0], inl[1]])))
                out.append(("inline L " + n, c.render(t, [inl[0], args[1]])))
    if ar == 2:
        if BYN[args[0]][2] not in FUNC_KINDS:
            out.append((F_LSEC[0], c.render(F_LSEC[1], args)))
        if isfn.get(args[1]):
            out.append((F_RSEC[0], c.render(F_RSEC[1], args)))
        out.append((F_OPASSIGN[0], c.render(F_OPASSIGN[1], args)))
    return out


# ---------------------------------------------------------------- outcome classes

def bad_reason(ev):
    """None when the event is a decidable outcome (ok/throw/...), else a reason string."""
    o = ev.get("o")
    if o == "ok":
        ct = ev.get("canon_trouble")
        if ct:
            return "panic" if "panic" in ct else "fuel"
        return None
    if o in ("throw", "break", "continue", "return"):
        return None
    if o == "crash":
        return "crash:" + str(ev.get("why"))
    return o or "lost"


def _strip(c):
    """norm() plus: error text inside a lazily failing stream is reduced to a flag."""
    c = norm(c)
    return _strip_err(c)


def _strip_err(c):
    if isinstance(c, list):
        return [_strip_err(x) for x in c]
    if isinstance(c, dict):
        if "st" in c:
            st = dict(c["st"])
            st["err"] = bool(st.get("err"))
            st["head"] = [_strip_err(x) for x in st.get("head", [])]
            return {"st": st}
        if "l" in c:
            return {"l": [_strip_err(x) for x in c["l"]]}
        if "d" in c:
            out = {"d": [[_strip_err(k), _strip_err(v)] for k, v in c["d"]]}
            if "def" in c:
                out["def"] = _strip_err(c["def"])
            return out
        if "inst" in c:
            return {"inst": {"struct": c["inst"]["struct"], "fields": [_strip_err(x) for x in c["inst"]["fields"]]}}
    return c


def _multiset(c):
    """order-insensitive view: every list / stream head sorted by its JSON text."""
    if isinstance(c, list):
        return [_multiset(x) for x in c]
    if isinstance(c, dict):
        if "l" in c:
            return {"l": sorted((_multiset(x) for x in c["l"]), key=lambda x: json.dumps(x, sort_keys=True))}
        if "st" in c:
            st = dict(c["st"])
            st["head"] = sorted((_multiset(x) for x in st.get("head", [])), key=lambda x: json.dumps(x, sort_keys=True))
            return {"st": st}
        if "d" in c:
            out = {"d": sorted(([_multiset(k), _multiset(v)] for k, v in c["d"]), key=lambda x: json.dumps(x, sort_keys=True))}
            if "def" in c:
                out["def"] = _multiset(c["def"])
            return out
        if "inst" in c:
            return {"inst": {"struct": c["inst"]["struct"], "fields": [_multiset(x) for x in c["inst"]["fields"]]}}
    return c


def _has_fn(c):
    if isinstance(c, list):
        return any(_has_fn(x) for x in c)
    if isinstance(c, dict):
        if "fn" in c:
            return True
        return any(_has_fn(x) for x in c.values() if isinstance(x, (list, dict)))
    return False


def _has_dict(c):
    if isinstance(c, list):
        return any(_has_dict(x) for x in c)
    if isinstance(c, dict):
        if "d" in c:
            return True
        return any(_has_dict(x) for x in c.values() if isinstance(x, (list, dict)))
    return False


def same(e1, e2, dicty):
    """Do two decidable events belong to the same outcome class?  Returns (equal, used_order_fallback)."""
    o1, o2 = e1.get("o"), e2.get("o")
    if o1 != o2:
        return False, False
    if o1 == "throw":
        return True, False
    if o1 in ("break", "continue", "return"):
        return True, False
    if e1.get("out") != e2.get("out"):
        return False, False
    v1, v2 = e1.get("v"), e2.get("v")
    if v1 == v2:
        return True, False
    n1, n2 = _strip(v1), _strip(v2)
    if n1 == n2:
        return True, False
    if dicty() and _multiset(n1) == _multiset(n2):
        return True, True
    return False, False


def show(ev):
    o = ev.get("o")
    if o == "ok":
        s = "ok " + json.dumps(norm(ev.get("v")), ensure_ascii=False)[:90]
        if ev.get("out"):
            s += " out=" + json.dumps(ev.get("out"), ensure_ascii=False)[:40]
        return s
    if o == "throw":
        return "raised (%s)" % (ev.get("err") or "")[:70]
    return str(o)


# ---------------------------------------------------------------- judging one tuple

class Verdict:
    __slots__ = ("status", "why", "viols", "fallback", "ok_base")

    def __init__(self):
        self.status = "held"
        self.why = None
        self.viols = []        # (formA, formB, stmtA, stmtB, evA, evB)
        self.fallback = False
        self.ok_base = False


def judge(c, args, forms, evs):
    """forms: [(name, stmt)], evs: one event per form."""
    vd = Verdict()
    ar = len(args)
    byname = {n: (s, e) for (n, s), e in zip(forms, evs)}
    for (n, s), e in zip(forms, evs):
        why = bad_reason(e)
        if why:
            vd.status = "bad"
            vd.why = why
            return vd
    memo = []

    def dicty():
        # is hash iteration order involved?  (only consulted when two values differ)
        if not memo:
            memo.append(c.tok in HASH_ORDER or any(BYN[a][2] == "dict" for a in args)
                        or any(_has_dict(e.get("v")) for e in evs if e.get("o") == "ok"))
        return memo[0]
    base_s, base_e = byname[BASE[ar]]
    vd.ok_base = base_e.get("o") == "ok"
    sym = [n for n, _ in FORMS[ar]]
    # a second dict INSTANCE has its own random iteration order, which shows in everything derived from iterating it
    # (Display text, first/last/take, folds, insert / |.. of its pairs): with a dict argument the inline spellings are
    # only compared for the order-free callables (DICT_ORDER_FREE) and dict / integer results without functions
    if not any(BYN[a][2] in NO_INLINE_KINDS for a in args) or (c.tok in DICT_ORDER_FREE and all(
            (not isinstance(e.get("v"), dict) or "d" in e["v"] or "i" in e["v"]) and not _has_fn(e.get("v")) for e in evs if e.get("o") == "ok")):
        sym += [n for n, _ in forms if n.startswith("inline ")]
    if ar == 2 and F_LSEC[0] in byname:
        sym.append(F_LSEC[0])
    groups = []     # [[rep_event, [names]]]
    for n in sym:
        e = byname[n][1]
        for g in groups:
            eq, fb = same(g[0], e, dicty)
            if eq:
                g[1].append(n)
                vd.fallback = vd.fallback or fb
                break
        else:
            groups.append([e, [n]])
    if len(groups) > 1:
        # reference = the largest class (ties: the one that contains the plain call)
        groups.sort(key=lambda g: (-len(g[1]), 0 if BASE[ar] in g[1] else 1))
        ref = BASE[ar] if BASE[ar] in groups[0][1] else groups[0][1][0]
        for g in groups[1:]:
            for n in g[1]:
                vd.viols.append((n, ref, byname[n][0], byname[ref][0], byname[n][1], byname[ref][1]))
    if ar == 2 and vd.ok_base:
        for fn in (F_RSEC[0], F_OPASSIGN[0]):
            if fn in byname:
                eq, fb = same(base_e, byname[fn][1], dicty)
                vd.fallback = vd.fallback or fb
                if not eq:
                    vd.viols.append((fn, BASE[2], byname[fn][0], base_s, byname[fn][1], base_e))
    if vd.viols:
        vd.status = "viol"
    return vd


# ---------------------------------------------------------------- running

class Worker(core.Worker):
    """core.Worker whose watchdog also notices a worker that makes no progress at all: the CPU watchdog of the
    base class only fires when CPU time is being used, so a worker blocked forever (observed: the allocation
    budget is hit inside the panic hook's backtrace symbolisation, and the allocation-error hook then waits
    for the backtrace lock it already holds) would hang the run.  No interpreter operation in the sweep
    sleeps (sleep/stdin builtins are excluded), so STALL_S seconds without any CPU use is a dead worker; it is
    reported like a watchdog kill (inconclusive / excluded, never a verdict)."""
    STALL_S = 12.0

    def _readline(self, budget):
        cpu0 = None
        last_cpu, last_change = None, time.time()
        while True:
            nl = self.buf.find(b"\n")
            if nl >= 0:
                line, self.buf = self.buf[:nl], self.buf[nl + 1:]
                return line
            r, _, _ = core.select.select([self.p.stdout], [], [], 0.5 if budget >= 1.0 else 0.1)
            if r:
                # a pipe holds 64 KiB: asking for more only costs a large temporary buffer per read
                chunk = core.os.read(self.p.stdout.fileno(), 1 << 16)
                if not chunk:
                    return ("dead", None)
                self.buf += chunk
                last_change = time.time()
                continue
            if self.p.poll() is not None:
                return ("dead", None)
            cpu = core._cpu_seconds(self.p.pid)
            if cpu is None:
                continue
            if cpu0 is None:
                cpu0 = cpu
            elif cpu - cpu0 > budget:
                return ("timeout", None)
            if last_cpu is None or cpu - last_cpu > 0.005:
                last_cpu, last_change = cpu, time.time()
            elif time.time() - last_change > self.STALL_S:
                return ("timeout", None)


def is_inf(c, args):
    if any(a in pool.INFINITE for a in args):
        return True
    if c.tok in ("by", "til", "to") and any(a in ZERO for a in args):
        return True      # zero-step range
    return False


def is_huge(args):
    return any("huge" in BYN[a][3] for a in args)


def record_bad(sh, c, args, why, case):
    """A form ended in fuel/depth/crash/timeout/panic/...: excluded (resource bound by construction) or inconclusive."""
    inf, huge = is_inf(c, args), is_huge(args)
    kind = why.split(":")[0]
    if inf and kind in ("fuel", "depth", "timeout", "crash", "skipped", "lost"):
        sh.excluded += 1
        sh.count("excluded:infinite-arg-" + kind)
    elif huge and kind in ("fuel", "timeout", "crash", "skipped", "lost"):
        sh.excluded += 1
        sh.count("excluded:huge-arg-" + kind)
    else:
        sh.inconc(why, case)


def ev_all(w, stmts, fuel, jid="c04"):
    """Prelude once per job, every statement in a new child scope of that base environment (the base is
    rebuilt only after a panic / worker restart, so all forms of a tuple normally see the same objects)."""
    return core.eval_all(w, stmts, prelude=PRELUDE, fresh_each=True, child_each=True, rebase_every=1 << 30,
                         fuel=fuel, mem=MEM, jid=jid)


def case_text(c, args):
    return "%s(%s)" % (c.key, ", ".join(args))


def describe(c, args):
    return "%s with %s" % (c.key, ", ".join("%s=%s" % (x, BYN[a][1]) for x, a in zip("abc", args)))


def report(sh, c, args, vd):
    for (fa, fb, sa, sb, ea, eb) in vd.viols:
        key = "C04|%s|%s!=%s" % (c.key, fa, fb)
        what = "%s: `%s` => %s but `%s` => %s" % (describe(c, args), sa, show(ea), sb, show(eb))
        sh.violation(key, what, {"job": {"kind": "eval", "prelude": PRELUDE, "stmts": [sa, sb], "fresh_each": True, "fuel": FUEL},
                                 "expected": "both statements end in the same outcome class (equal value and output, or both raise)"})


def klass(c, t):
    """Resource class of a tuple: 2 = an infinite stream is passed (small fuel), 1 = a huge number is passed,
    0 = ordinary.  Classes 1 and 2 run under a short CPU watchdog: when they exhaust a resource they are outside
    the explored space anyway."""
    if is_inf(c, t):
        return 2
    if is_huge(t):
        return 1
    return 0


def process(sh, w, c, tuples, isfn, stats, plan, keep_raising=None):
    """Evaluate all forms of every tuple for callable c.  Returns {args: base event} for arity-1 bookkeeping.
    keep_raising=N: tuples are candidates; those whose plain call raises are dropped (not counted as cases)
    once N of them have been kept."""
    base_evs = {}
    if not tuples:
        return base_evs
    ar = len(tuples[0])
    base_tmpl = dict(FORMS[ar])[BASE[ar]]
    normal_cpu = w.cpu_budget
    classes = [(0, FUEL, normal_cpu, BATCH), (1, FUEL, plan["cpu_hostile"], 64), (2, FUEL_INF, plan["cpu_hostile"], 64)]
    # pass 1: the plain call alone -- tuples that cannot be decided are dropped before the other forms run
    todo = []
    try:
        for kl, fuel, cpu, bsz in classes:
            part = [t for t in tuples if klass(c, t) == kl]
            w.cpu_budget = cpu
            for i in range(0, len(part), bsz):
                chunk = part[i:i + bsz]
                if time.time() > stats["deadline"]:
                    sh.excluded += len(chunk)
                    sh.count("excluded:unit-time-budget-exhausted", len(chunk))
                    continue
                if kl and stats["timeouts"] >= plan["max_timeouts"]:
                    # bound of the workload: this unit already spent its watchdog budget on hostile arguments
                    sh.excluded += len(chunk)
                    sh.count("excluded:hostile-arg-skipped-after-%d-timeouts" % plan["max_timeouts"], len(chunk))
                    continue
                evs = ev_all(w, [c.render(base_tmpl, t) for t in chunk], fuel, jid="c04a")
                stats["stmts"] += len(chunk)
                for t, e in zip(chunk, evs):
                    base_evs[t] = e
                    why = bad_reason(e)
                    if why:
                        if why in ("timeout", "crash:killed"):
                            stats["timeouts"] += 1
                        sh.seen(case_text(c, t), nontrivial=False)
                        record_bad(sh, c, t, why, c.render(base_tmpl, t))
                    elif keep_raising is not None and e.get("o") != "ok":
                        if stats.get("raising_kept", 0) < keep_raising:
                            stats["raising_kept"] = stats.get("raising_kept", 0) + 1
                            todo.append((t, kl))
                        else:
                            sh.count("candidates-dropped:plain-call-raises")
                    else:
                        todo.append((t, kl))
        # pass 2: all forms (the plain call again, so that every form of a tuple sees the same base environment)
        redo = []
        for kl, fuel, cpu, bsz in classes:
            part = [t for t, k2 in todo if k2 == kl]
            w.cpu_budget = cpu
            i = 0
            if time.time() > stats["deadline"] and part:
                sh.excluded += len(part)
                sh.count("excluded:unit-time-budget-exhausted", len(part))
                continue
            while i < len(part):
                if time.time() > stats["deadline"]:
                    sh.excluded += len(part) - i
                    sh.count("excluded:unit-time-budget-exhausted", len(part) - i)
                    break
                stmts, spans = [], []
                while i < len(part) and len(stmts) < BATCH:
                    fs = forms_for(c, part[i], isfn)
                    spans.append((part[i], fs, len(stmts)))
                    stmts.extend(s for _, s in fs)
                    i += 1
                evs = ev_all(w, stmts, fuel, jid="c04b")
                stats["stmts"] += len(stmts)
                for t, fs, off in spans:
                    vd = judge(c, t, fs, evs[off:off + len(fs)])
                    if vd.status == "held":
                        finish(sh, c, t, fs, vd)
                    else:
                        redo.append((t, fs, fuel, cpu))
        # pass 3: anything else is re-run alone in a newly built base environment; only this observation counts
        if redo:
            sh.count("confirm:rerun-in-fresh-env", len(redo))
            for t, fs, fuel, cpu in redo:
                if time.time() > stats["deadline"] + 30:
                    sh.inconc("unit-time-budget", case_text(c, t))
                    continue
                w.cpu_budget = cpu
                # one job per tuple = a new base environment (prelude re-run) used by this tuple alone
                evs = ev_all(w, [s for _, s in fs], fuel, jid="c04c")
                stats["stmts"] += len(fs)
                vd = judge(c, t, fs, evs)
                if vd.status == "bad":
                    if vd.why in ("timeout", "crash:killed"):
                        stats["timeouts"] += 1
                    sh.seen(case_text(c, t), nontrivial=False)
                    record_bad(sh, c, t, vd.why, case_text(c, t))
                else:
                    finish(sh, c, t, fs, vd)
                    if vd.status == "viol":
                        report(sh, c, t, vd)
    finally:
        w.cpu_budget = normal_cpu
    return base_evs


def finish(sh, c, t, fs, vd):
    sh.seen(case_text(c, t), nontrivial=vd.ok_base)
    sh.count("tuples:arity%d" % len(t))
    sh.count("forms_evaluated", len(fs))
    if vd.status == "held":
        sh.count("agree:value" if vd.ok_base else "agree:all-raise")
    else:
        sh.count("disagree")
    if vd.status == "held" and vd.ok_base and len(sh.samples) < 4 and len(t) >= 2 and not any(a in ("i0", "i1") for a in t):
        sh.sample({"callable": c.key, "args": {a: BYN[a][1] for a in t}, "forms": [s for _, s in fs],
                   "verdict": "all %d forms returned the same canonical value" % len(fs)}, cap=4)
    if vd.fallback:
        sh.count("order-insensitive-match")
        sh.count("order-insensitive-match:" + c.key)
    if len(t) == 2:
        names = [n for n, _ in fs]
        if F_RSEC[0] in names and vd.ok_base:
            sh.count("right-section-precondition-met")
        if vd.ok_base:
            sh.count("opassign-compared")
        if F_LSEC[0] in names:
            sh.count("left-section-compared")


def tuples_for(ctx, c):
    """The deterministic workload of one callable: (pairs, triples).  Randomness keyed by seed and callable."""
    r = core.rng_for("C04", ctx.seed, 0, c.key)
    P, Q = pool.NAMES, pool.QUICK
    pairs, triples = [], []
    if 2 in c.arities:
        if ctx.plan["pairs"] == "all":
            pairs = [(a, b) for a in P for b in P]
        else:
            pairs = [(a, b) for a in Q for b in Q]
            seen = set(pairs)
            for _ in range(ctx.plan["extra_pairs"]):
                t = (r.choice(P), r.choice(P))
                if t not in seen:
                    seen.add(t)
                    pairs.append(t)
    if 2 in c.arities:
        ex = EXTRA_NAMES if ctx.plan["pairs"] == "all" else ["xdA", "xdB", "xd33", "xlA"]
        pairs += [(a, b) for a in ex for b in ex]
        for a in ex:
            for b in ("d1", "xd3", "l3", "i1"):
                pairs += [(a, b), (b, a)]
        pairs = list(dict.fromkeys(pairs))
    if 3 in c.arities:
        # candidates: 4x the wanted number, a third each from the reduced pool, the whole pool and the small
        # numbers; process(keep_raising=...) keeps every candidate whose plain call returns and a bounded
        # number of the raising ones (a purely random triple almost never type-checks)
        seen = set()
        for k in range(4 * ctx.plan["triples"]):
            src = (Q, P, SMALL_NUMS)[k % 3]
            t = (r.choice(src), r.choice(src), r.choice(src))
            if t not in seen:
                seen.add(t)
                triples.append(t)
    return pairs, triples


def is_fn_event(e):
    return e.get("o") == "ok" and isinstance(e.get("v"), dict) and "fn" in e["v"]


def shard(ctx, si, n):
    """Work units are (callable, part k of K): part k takes the pairs whose second argument has pool index k mod K,
    part 0 also the one-argument sweep and part K-1 the triples, so that an expensive callable is spread over
    many shards."""
    sh = core.Shard("C04")
    w = Worker(cpu_budget=ctx.plan["cpu"])
    K = ctx.plan["parts"]
    try:
        names = sorted(x["name"] for x in w.run({"id": "n", "kind": "names"}, cpu_budget=30)["result"]["names"]
                       if x["kind"] in ("builtin", "type"))
        callables = [Callable(x, x) for x in names if x not in EXCLUDED]
        callables += [Callable(k, tok, setup, ar) for (k, tok, setup, ar) in USER_CALLABLES]
        units = [(ci, k) for ci in range(len(callables)) for k in range(K)]
        P = ALLNAMES
        # the prelude (pool + user-defined callables) must build without error, otherwise every form would
        # "agree" by raising a name error
        chk = w.run({"id": "pre", "kind": "eval", "prelude": PRELUDE, "stmts": ["[u1, u2, u3, memf, fanb, Foo]"],
                     "fresh_each": True}, cpu_budget=30)
        if chk["result"].get("prelude_err") or not chk["events"] or chk["events"][0].get("o") != "ok":
            raise RuntimeError("C04 prelude broken: %r %r" % (chk["result"], chk["events"][:1]))
        if si == 0:
            sh.sample({"callables": len(callables), "forms": {str(k): [n for n, _ in v] for k, v in FORMS.items()},
                       "conditional_forms": [F_LSEC[0], F_RSEC[0], F_OPASSIGN[0]]})
        for ui in range(si, len(units), n):
            ci, k = units[ui]
            c = callables[ci]
            t0 = time.time()
            isfn = {}
            stats = {"stmts": 0, "timeouts": 0, "deadline": t0 + ctx.plan["unit_wall"]}
            if k == 0:
                sh.count("callables_swept")
                sh.count("callables_swept:" + ("user-defined" if c.key != c.tok or c.tok in ("Foo", "fa", "fb", "Bar") else "global"))
            pairs, triples = tuples_for(ctx, c)
            # part k owns the pairs whose second argument is the (k mod K)-th pool value: the precondition of the
            # right-section clause (is f(b) a function?) is then needed for few b per unit
            mine = [t for t in pairs if BIDX[t[1]] % K == k]
            if k == 0 and 1 in c.arities:
                base = process(sh, w, c, [(a,) for a in P], isfn, stats, ctx.plan)
                for (a,), e in base.items():
                    isfn[a] = is_fn_event(e)
            need = sorted({t[1] for t in mine} - set(isfn), key=lambda b: BIDX[b])
            if need:
                w.cpu_budget = ctx.plan["cpu_hostile"]
                evs = ev_all(w, [c.render("{f}({a})", (b,)) for b in need], FUEL_INF, jid="c04p")
                w.cpu_budget = ctx.plan["cpu"]
                for b, e in zip(need, evs):
                    isfn[b] = is_fn_event(e)
            process(sh, w, c, mine, isfn, stats, ctx.plan)
            if k == K - 1:
                process(sh, w, c, triples, isfn, stats, ctx.plan, keep_raising=ctx.plan["triples"] // 2)
            dt = time.time() - t0
            if dt > (6 if ctx.tier == "quick" else 60):
                sh.notes.append("slow unit %s part %d: %.1fs" % (c.key, k, dt))
            sh.count("statements_evaluated", stats["stmts"])
    finally:
        w.close()
    sh.count("worker_restarts", w.restarts)
    return sh
