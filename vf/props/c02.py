"""C02  Mutating an unshared collection is in place: no hidden copies.

Monitor: allocation-scaling monitor over the harness's exact counting allocator.

A *family* is a parameterised workload W(n): setup statements (evaluated first, not measured) that
build a collection of about n elements in the variable `x`, and ONE loop statement that performs
k ~ n in-place-eligible mutations of it (index assignment, operator assignment, pop, remove at the
end, ...).  Every family is run in several aliasing *variants* (unaliased, once aliased by a
variable, once aliased through a container, k holders, alias taken and released again, an alias of
an inner row) at several sizes.

Per (family, n) a separate *payload probe* measures the byte size of the collection's buffer on the
real interpreter (`__p := <collection>; __p[0] = ...` forces exactly one copy-on-write of it; the
size of the big request is the payload).  Per (family, variant, n) the measured job then records
  L(n) = number of allocation requests of size >= payload(n)/4 while the loop statement runs,
  B(n) = total bytes requested while the loop statement runs,
and, after the setup statement, the physical sharing (Rc strong counts) of every container node on
the mutated path (the precondition: 1 everywhere for the unaliased variant, 1 + holders at the
aliased node otherwise; a workload that did not establish it is inconclusive, never judged).

Oracle (DESIGN C02):  L(n) <= 8*C + 2*H   (C payload-sized collections mutated by the family, 1 for
all flat families; H additional holders; only amortised growth and one copy per additional holder
are allowed) and B(4n)/B(n) <= 6 (linear growth gives ~4, a hidden copy per operation ~16).

Self-check of sensitivity: every group of families contains *control* programs that deliberately
copy on every operation (an alias is taken in every iteration).  A control must look quadratic
(L(n) far above the bound and B(4n)/B(n) > 6); if one does not, the monitor is blind for that group
and every verdict of the group is reported inconclusive.
"""
import time
from .. import core

RULE = ("cases = (family, aliasing variant, size n): families are loops of k~n in-place-eligible mutation statements "
        "(list / nested rows / dict / vector / bytes / string byte / struct field / struct inside a list / consume round trip / "
        "closure over a captured variable / while driver / alias re-taken four times by the loop, and seeded random "
        "mixtures of 2-6 such statements over 1-4 collections with for/while/closure drivers) on a collection of ~n "
        "elements; variants = unaliased, `y := x`, stored in another container, 3 holders, alias taken and released "
        "before the loop, alias of an inner row, every holder mutates (thorough also: the loop mutates the later-made "
        "reference); sizes n, 2n, 4n with n = 2000 (quick: box/3-holders/released variants at n and 4n only; thorough: "
        "1000*2^k up to 128000). distinct = distinct (family, variant, n) triple "
        "(mixtures: the generated program text and n); non-trivial = the loop ran to completion AND the sharing "
        "precondition (Rc strong count on every container node of the mutated path after the setup) was observed to be "
        "exactly the one the variant is meant to establish AND the payload probe measured a buffer of >= 8 KiB. "
        "Controls (deliberate copy per operation) are executed cases too, judged for looking quadratic.")
ASSUMPTIONS = [
    "the harness's counting allocator sees every heap request of the interpreter (single-threaded, exact, deterministic)",
    "payload(n) is the size of the single big request made by one forced copy-on-write of the collection (`__p := x; __p[0] = ...`), measured per family and size on the real interpreter, not computed",
    "thresholds from DESIGN C02: L <= 8 per payload-sized collection + 2 per additional holder, B(4n)/B(n) <= 6; measured on this tree: in-place families L 0..5 and ratio 3.93..4.00, copying controls L >= n/4..2n and ratio 15.2..16.0",
    "a group of families is only judged when its own control programs (same statement forms with an alias taken in every iteration) were seen above both thresholds in the same shard; otherwise its cases are inconclusive",
    "not part of the workload because the property does not promise them: operations that are O(n) per operation by nature (vector arithmetic +=, prepend, remove x[0], string $=), operations the interpreter rejects (pop/remove on vectors, bytes and strings raise a type error), swap / every / destructuring assignment / dict key removal (not in the property's list)",
    "dict families run at n/4 entries and the four-big-rows families at n/2 per row (keeps the canonical dumps that come with the sharing observation small); string byte assignment is capped at n = 16000 (UTF-8 revalidation is O(size) time per assignment, no allocation)",
    "fuel/timeout/crash of a workload is inconclusive; sizes are bounded (quick n <= 8000, thorough n <= 128000, controls n <= 4000 quick / 8000 thorough)",
]
PLAN = {
    "quick": {"sizes": [2000, 4000, 8000], "control_sizes": [1000, 4000], "mixtures": 32, "mix_bases": [1000], "group_weight": 6, "shards": 20,
              "mid_size_only_for": ["un", "al1", "inner", "allmut"]},
    "thorough": {"sizes": [1000, 2000, 4000, 8000, 16000, 32000, 64000, 128000], "control_sizes": [1000, 2000, 4000, 8000],
                 "mixtures": 320, "mix_bases": [1000, 2000, 4000, 8000, 16000], "group_weight": 60, "shards": 20},
}
REG = dict(level="exploration", min_nontrivial=600, min_nontrivial_thorough=2500, max_inconc=0.02,
           technique="allocation-scaling runtime monitor: exact counting allocator around one loop statement per (family, aliasing variant, size), measured payload threshold, Rc strong-count precondition, copying control programs as sensitivity self-check",
           claim="For every executed (family, variant, size) whose sharing precondition was verified, the loop of k~n mutations made at most 8 payload-sized requests per collection (+2 per additional holder) and total bytes grew by a factor <= 6 from n to 4n, while control programs that copy once per operation were seen far above both thresholds in the same run. Exploration over the listed statement forms, aliasing variants and sizes, not a proof for all programs.",
           note="Judges allocation only (values are C01's business). Big threshold is payload/4 with the payload measured by a forced copy-on-write; payloads below 8 KiB are inconclusive. Trusts the harness's allocator counters and Rc strong counts.")

MIN_PAYLOAD = 8192
PROBE_THRESHOLD = 2048
L_PER_COLLECTION = 8
L_PER_HOLDER = 2
RATIO_MAX = 6.0
MEM = 3 << 30


# ---------------------------------------------------------------- families

class Fam:
    def __init__(self, name, group, setup, loop, probe_src="x", kind="l", depth=0, alias_depth=0,
                 C=1, control=False, max_n=None, inner=None, holders_mutate=None, div=1, dyn_holders=0):
        self.name = name
        self.group = group
        self.setup = setup                  # list of statement templates (@N = n, @R = n // 4)
        self.loop = loop                    # loop statement template
        self.probe_src = probe_src          # expression giving the payload-holding collection
        self.kind = kind                    # kind of the payload collection: l d v b s
        self.depth = depth                  # container nodes of x up to this depth are on the mutated path
        self.alias_depth = alias_depth      # depth at which an alias of x shows (1 for struct instances)
        self.C = C                          # payload-sized collections mutated
        self.control = control
        self.max_n = max_n
        self.inner = inner                  # (alias statement, depth) for the inner-row alias variant
        self.holders_mutate = holders_mutate  # loop template for the "every holder mutates" variant
        self.div = div                      # the family runs at n // div elements (keeps the observation dumps small)
        self.dyn_holders = dyn_holders      # aliases the loop itself takes (each may cost one more copy)


def subst(t, n):
    return t.replace("@N2", str(2 * n)).replace("@N", str(n)).replace("@R", str(max(1, n // 4))).replace("@M", str(16 * n))


PROBE_MUT = {"l": "__p[0] = 0", "d": "__p[0] = 0", "v": "__p[0] = 0", "b": "__p[0] = 0", "s": "__p[0] = \"b\""}

LIST = ["x := list(0 til @N)"]
ROWS = ["x := (0 til @R) map (\\i -> [i, i, i, i])"]
BIGROWS = ["x := (0 til 4) map (\\r -> list(0 til @N))"]
DEEP = ["x := (0 til @R) map (\\i -> [[i, i], [i, i]])"]
DICT = ["x := {}", "for (i <- 0 til @N) x[i] = i"]
DICTDEF = ["x := {:0}", "for (i <- 0 til @N) x[i] = i"]
DICTLISTS = ["x := {}", "for (i <- 0 til @N) x[i] = [i]"]
VEC = ["x := vector(0 til @N)"]
BYTES = ["x := bytes([7] ** @M)"]
STR = ["x := \"abcdefgh\" $* @N2"]            # 16 n bytes
STRUCT = ["struct S (fa, fb)", "x := S(list(0 til @N), [1, 2])"]
FOR = "for (i <- 0 til @N) "
FORR = "for (i <- 0 til @R) "

FAMILIES = []


def fam(*a, **k):
    f = Fam(*a, **k)
    FAMILIES.append(f)
    return f


# --- flat lists (two groups so that the shards stay balanced)
fam("list_set", "list1", LIST, FOR + "x[i] = i + 1", holders_mutate=FOR + "(x[i] = 1; __y1[i] = 2; __y2[i] = 3)")
fam("list_set_neg", "list1", LIST, FOR + "x[(-1) - i] = i")
fam("list_opidx_add", "list1", LIST, FOR + "x[i] += 3")
fam("list_opidx_max", "list1", LIST, FOR + "x[i] max= 7")
fam("list_opidx_user", "list1b", LIST + ["__g := \\a, b -> a * 2 + b"], FOR + "x[i] __g= i")
# user-written consuming modifiers (README: the operator of an op-assign may take over its left operand): the
# parameter is the only holder of the collection during the call
fam("list_user_push", "list1b", LIST + ["__push := \\a, b -> (a append= b; a)"], FOR + "x __push= i")
fam("list_user_setter", "list1b", LIST + ["__put := \\a, i -> (a[i] = i + 1; a)"], FOR + "x __put= i")
fam("list_dot_modifier", "list1b", LIST, FOR + "x .= \\l -> (l append= i; l)")
fam("list_while_set", "list1b", LIST + ["__i := 0"], "while (__i < @N) (x[__i] = 5; __i += 1)")
# the loop itself takes an alias four times (and drops the previous one): one copy per alias is allowed
fam("list_realias4", "list1b", LIST + ["__c := null"], FOR + "(if (i % @R == 0) __c = x; x[i] = i + 1)", dyn_holders=4)
# variables declared with a type annotation (the annotation is re-checked after indexed assignment)
TLIST = ["x: list = list(0 til @N)"]
fam("tlist_set", "list1", TLIST, FOR + "x[i] = i + 1")
fam("tlist_opidx", "list1", TLIST, FOR + "x[i] += 3")
fam("tlist_append", "list1b", TLIST, FOR + "x append= i")
fam("tany_set", "list1b", ["x: anything = list(0 til @N)"], FOR + "x[i] = i + 1")
# the mutated collection is also what the enclosing loop / branch tests: the tested value is a temporary and must
# be gone by the time the body runs (`while (xs) pop xs` is the worklist idiom)
fam("list_whilecond_pop", "list3", LIST, "while (x) pop x")
fam("list_whilecond_len_pop", "list3", LIST, "while (len(x) > 0) pop x")
fam("list_whilecond_set", "list1b", LIST + ["__i := 0"], "while (x and __i < @N) (x[__i] = 5; __i += 1)")
fam("list_ifcond_set", "list1", LIST, FOR + "if (x) x[i] = i + 1")
fam("list_ifelse_append", "list1b", LIST, FOR + "if (not x) null else x append= i")
fam("list_andcond_append", "list1b", LIST, FOR + "(x and (x append= i))")
fam("ctl_list_set", "list1", LIST + ["__c := null"], FOR + "(__c = x; x[i] = i + 1)", control=True)
fam("ctl_list_opidx", "list1b", LIST + ["__c := null"], FOR + "(__c = x; x[i] += 3)", control=True)

fam("list_append", "list2", LIST, FOR + "x append= i", holders_mutate=FOR + "(x append= 1; __y1 append= 2; __y2 append= 3)")
fam("list_concat1", "list2", LIST, FOR + "x ++= [i]")
fam("list_concat2", "list2", LIST, FOR + "x ++= [i, i + 1]")
fam("list_concat_shared", "list2", LIST + ["__row := [1]"], FOR + "x ++= __row")
fam("list_concat_loopvar", "list2", LIST + ["__rows := (0 til @N) map (\\i -> [i])"], "for (r_ <- __rows) x ++= r_")
fam("list_pop", "list3", LIST, FOR + "pop x")
fam("list_remove_last", "list3", LIST, FOR + "remove x[-1]")
fam("list_remove_tail", "list3", ["x := list(0 til @N2)"], FOR + "remove x[-2:]")
fam("list_push_pop", "list2", LIST, FOR + "(x append= i; pop x)")
fam("ctl_list_append", "list2", LIST + ["__c := null"], FOR + "(__c = x; x append= i)", control=True)
fam("ctl_list_pop", "list3", LIST + ["__c := null"], FOR + "(__c = x; pop x)", control=True)

# --- nested rows: many small rows (payload = the outer buffer)
ROW_INNER = ("__r := x[0]", 1)
fam("rows_set", "rows", ROWS, FORR + "x[i][1] = i", depth=1, inner=ROW_INNER)
fam("rows_opidx", "rows", ROWS, FORR + "x[i][2] += 1", depth=1, inner=ROW_INNER)
fam("rows_append", "rows", ROWS, FORR + "x[i] append= i", depth=1, inner=ROW_INNER)
fam("rows_concat", "rows", ROWS, FORR + "x[i] ++= [i]", depth=1, inner=ROW_INNER)
fam("rows_pop", "rows", ROWS, FORR + "pop x[i]", depth=1, inner=ROW_INNER)
fam("rows_remove_last", "rows", ROWS, FORR + "remove x[i][-1]", depth=1, inner=ROW_INNER)
fam("deep_set", "deep", DEEP, FORR + "x[i][1][0] = i", depth=2)
fam("deep_opidx", "deep", DEEP, FORR + "x[i][0][1] += 2", depth=2)
fam("ctl_rows_set", "rows", ROWS + ["__c := null"], FORR + "(__c = x; x[i][1] = i)", depth=1, control=True)
fam("deep_append", "deep", DEEP, FORR + "x[i][1] append= i", depth=2)
fam("ctl_deep_set", "deep", DEEP + ["__c := null"], FORR + "(__c = x; x[i][1][0] = i)", depth=2, control=True)

# --- nested rows: four big rows (payload = one row buffer, C = 4 collections)
BIG_INNER = ("__r := x[1]", 1)
fam("bigrows_set", "bigrows", BIGROWS, FOR + "x[i % 4][i] = i", probe_src="x[0]", div=2, depth=1, C=4, inner=BIG_INNER)
fam("bigrows_opidx", "bigrows", BIGROWS, FOR + "x[i % 4][i] += 1", probe_src="x[0]", div=2, depth=1, C=4, inner=BIG_INNER)
fam("bigrows_append", "bigrows", BIGROWS, FOR + "x[i % 4] append= i", probe_src="x[0]", div=2, depth=1, C=4, inner=BIG_INNER)
fam("bigrows_pop", "bigrows", BIGROWS, FOR + "pop x[i % 4]", probe_src="x[0]", div=2, depth=1, C=4, inner=BIG_INNER)
# --- a dict holding four big rows (payload = one row buffer; the rows are dict VALUES)
DICTBIG = ["x := {}", "for (r <- 0 til 4) x[r] = list(0 til @N)"]
fam("dictbig_append", "bigrows", DICTBIG, FOR + "x[i % 4] append= i", probe_src="x[0]", div=2, depth=1, C=4)
fam("dictbig_concat", "bigrows", DICTBIG, FOR + "x[i % 4] ++= [i]", probe_src="x[0]", div=2, depth=1, C=4)
fam("dictbig_opidx", "bigrows", DICTBIG, FOR + "x[i % 4][i] += 1", probe_src="x[0]", div=2, depth=1, C=4)
fam("dictbig_set", "bigrows", DICTBIG, FOR + "x[i % 4][i] = i", probe_src="x[0]", div=2, depth=1, C=4)
fam("dictbig_pop", "bigrows", DICTBIG, FOR + "pop x[i % 4]", probe_src="x[0]", div=2, depth=1, C=4)
fam("ctl_bigrows_set", "bigrows", BIGROWS + ["__c := null"], FOR + "(__c = x[i % 4]; x[i % 4][i] = i)", probe_src="x[0]", div=2,
    depth=1, C=4, control=True)

# --- dicts
fam("dict_set_existing", "dict1", DICT, FOR + "x[i] = i + 1", kind="d", div=4,
    holders_mutate=FOR + "(x[i] = 1; __y1[i] = 2; __y2[i] = 3)")
fam("dict_set_new", "dict1", DICT, FOR + "x[@N + i] = i", kind="d", div=4)
fam("dict_opidx_existing", "dict1", DICT, FOR + "x[i] += 2", kind="d", div=4)
fam("dict_op_default_existing", "dict1", DICTDEF, FOR + "x[i] += 1", kind="d", div=4)
fam("dict_op_default_new", "dict1", DICTDEF, FOR + "x[@N + i] += 1", kind="d", div=4)
fam("tdict_set_existing", "dict1", ["x: dict = {}", "for (i <- 0 til @N) x[i] = i"], FOR + "x[i] = i + 1", kind="d", div=4)
fam("tdict_set_new", "dict1", ["x: dict = {}", "for (i <- 0 til @N) x[i] = i"], FOR + "x[@N + i] = i", kind="d", div=4)
fam("ctl_dict_set", "dict1", DICT + ["__c := null"], FOR + "(__c = x; x[i] = i + 1)", kind="d", div=4, control=True)

fam("dict_whilecond_set", "dict2", DICT + ["__i := 0"], "while (x and __i < @N) (x[__i] = 5; __i += 1)", kind="d", div=4)
fam("dict_add_key", "dict2", DICT, FOR + "x |.= @N + i", kind="d", div=4)
fam("dict_merge", "dict2", DICT, FOR + "x ||= {(@N + i): i}", kind="d", div=4)
fam("dict_discard", "dict2", DICT, FOR + "x -.= i", kind="d", div=4)
fam("dict_add_discard", "dict2", DICT, FOR + "(x |.= @N + i; x -.= @N + i)", kind="d", div=4)
fam("dict_lists_append", "dict2", DICTLISTS, FOR + "x[i] append= 1", kind="d", div=4, depth=1)
fam("dict_lists_set", "dict2", DICTLISTS, FOR + "x[i][0] = 7", kind="d", div=4, depth=1)
fam("ctl_dict_add_key", "dict2", DICT + ["__c := null"], FOR + "(__c = x; x |.= @N + i)", kind="d", div=4, control=True)

# --- vectors
fam("vec_set", "vec", VEC, FOR + "x[i] = i + 1", kind="v")
fam("vec_opidx", "vec", VEC, FOR + "x[i] += 1", kind="v")
fam("vec_append", "vec", VEC, FOR + "x append= i", kind="v")
fam("vec_concat", "vec", VEC, FOR + "x ++= V(i)", kind="v")
fam("ctl_vec_set", "vec", VEC + ["__c := null"], FOR + "(__c = x; x[i] = i + 1)", kind="v", control=True)

# --- bytes and strings (16 n elements so that the buffer is well above the incidental requests)
fam("bytes_set", "bytes", BYTES, FOR + "x[i * 16] = 7", kind="b")
fam("bytes_opidx", "bytes", BYTES, FOR + "x[i * 16] max= 9", kind="b")
fam("bytes_append", "bytes", BYTES, FOR + "x append= 7", kind="b")
fam("bytes_concat", "bytes", BYTES, FOR + "x ++= B[1, 2]", kind="b")
fam("str_set", "bytes", STR, FOR + "x[i * 16] = \"z\"", kind="s", max_n=16000)
fam("ctl_bytes_set", "bytes", BYTES + ["__c := null"], FOR + "(__c = x; x[i * 16] = 7)", kind="b", control=True)
fam("ctl_str_set", "bytes", STR + ["__c := null"], FOR + "(__c = x; x[i * 16] = \"z\")", kind="s", control=True)

# --- struct fields (an alias of the instance shows as strong count 2 on the field's list)
fam("struct_set", "struct", STRUCT, FOR + "x[fa][i] = i + 1", probe_src="x[fa]", depth=1, alias_depth=1)
fam("struct_opidx", "struct", STRUCT, FOR + "x[fa][i] += 1", probe_src="x[fa]", depth=1, alias_depth=1)
fam("struct_append", "struct", STRUCT, FOR + "x[fa] append= i", probe_src="x[fa]", depth=1, alias_depth=1)
fam("struct_concat", "struct", STRUCT, FOR + "x[fa] ++= [i]", probe_src="x[fa]", depth=1, alias_depth=1)
fam("struct_pop", "struct", STRUCT, FOR + "pop x[fa]", probe_src="x[fa]", depth=1, alias_depth=1)
NSTRUCT = ["struct S (fa, fb)", "x := [S(list(0 til @N), [1, 2]), S([3], [4])]"]
fam("nested_struct_set", "struct", NSTRUCT, FOR + "x[0][fa][i] = i + 1", probe_src="x[0][fa]", depth=2)
fam("nested_struct_append", "struct", NSTRUCT, FOR + "x[0][fa] append= i", probe_src="x[0][fa]", depth=2)
fam("ctl_struct_set", "struct", STRUCT + ["__c := null"], FOR + "(__c = x; x[fa][i] = i + 1)", probe_src="x[fa]", depth=1,
    alias_depth=1, control=True)

# --- consume / re-assign round trips and closures that mutate a captured variable
fam("consume_roundtrip", "flow", LIST, FOR + "(t := consume x; t append= i; x = t)")
fam("consume_expr", "flow", LIST, FOR + "x = (consume x) append i")
fam("consume_call", "flow", LIST + ["__g := \\l, v -> (consume l) append v"], FOR + "x = __g(consume x, i)")
fam("consume_set", "flow", LIST, FOR + "(t := consume x; t[i] = 3; x = consume t)")
fam("closure_set", "closure", LIST + ["__f := \\i -> (x[i] = i + 1)"], FOR + "__f(i)")
fam("closure_append", "closure", LIST + ["__f := \\v -> (x append= v)"], FOR + "__f(i)")
fam("closure_opidx", "closure", LIST + ["__f := \\i -> (x[i] += 1)"], FOR + "__f(i)")
fam("closure_pop", "closure", LIST + ["__f := \\ -> pop x"], FOR + "__f()")
fam("ctl_roundtrip_noconsume", "flow", LIST, FOR + "(t := x; t append= i; x = t)", control=True)
fam("ctl_closure_set", "closure", LIST + ["__c := null", "__f := \\i -> (__c = x; x[i] = i + 1)"], FOR + "__f(i)", control=True)

BY_NAME = {f.name: f for f in FAMILIES}
GROUPS = []
for _f in FAMILIES:
    if _f.group not in GROUPS:
        GROUPS.append(_f.group)


# ---------------------------------------------------------------- variants

def variants_for(f, tier):
    """-> list of (variant name, extra setup statements, holders H, expected counts, loop template).
    expected: {"alias": count at alias_depth, "inner": (depth, how many nodes with count 2)}"""
    if f.control:
        return [("ctl", [], 0, {"alias": 1}, f.loop)]
    vs = [("un", [], 0, {"alias": 1}, f.loop),
          ("al1", ["__y := x"], 1, {"alias": 2}, f.loop),
          ("box", ["__b := [x, 1]"], 1, {"alias": 2}, f.loop),
          ("alk", ["__y1 := x", "__y2 := x", "__b := {0: x}"], 3, {"alias": 4}, f.loop),
          ("rel", ["__y := x", "__b := [x, x]", "__y = null", "__b = null"], 0, {"alias": 1}, f.loop)]
    if tier == "thorough":
        # the other order: the first-made reference lives on under another name, the loop mutates the later-made one
        # (typed targets `x: list` / `x: dict` reject null: park an empty collection of the declared kind instead)
        park = "[]" if f.name.startswith("tlist_") else "{}" if f.name.startswith("tdict_") else "null"
        vs.append(("al1b", ["__o := x", "x = " + park, "x = __o"], 1, {"alias": 2}, f.loop))
    if f.inner:
        stmt, d = f.inner
        vs.append(("inner", [stmt], 1, {"alias": 1, "inner": (d, 1)}, f.loop))
    if f.holders_mutate:
        vs.append(("allmut", ["__y1 := x", "__y2 := x"], 2, {"alias": 3}, f.holders_mutate))
    return vs


# ---------------------------------------------------------------- measuring

def _fuel(n):
    return 400 * n + 2_000_000


def measure_payload(w, setup, probe_src, kind, n, cache, ckey):
    """Size in bytes of the buffer of `probe_src` after the setup, measured by forcing one copy-on-write.
    Returns (payload or None, why)."""
    if ckey in cache:
        return cache[ckey]
    stmts = ["; ".join(subst(s, n) for s in setup), "__p := " + subst(probe_src, n), PROBE_MUT[kind]]
    evs = core.eval_all(w, stmts, alloc=True, big_threshold=PROBE_THRESHOLD, values=False, fuel=_fuel(n), mem=MEM, jid="c02p")
    res = (None, "probe:" + "/".join(str(e.get("o")) for e in evs))
    if len(evs) == 3 and all(e.get("o") == "ok" for e in evs):
        a = evs[2].get("alloc") or {}
        if a.get("big", 0) >= 1:
            res = (a["big_bytes"] // a["big"], "ok" if a["big"] == 1 else "multi%d" % a["big"])
        else:
            res = (None, "probe:no-big-request")
    cache[ckey] = res
    return res


def check_precondition(shinfo, depth, alias_depth, expect):
    """shinfo: [[depth, kind, ptr, strong], ...] of the observed variable after the setup."""
    if shinfo is None:
        return "no sharing info"
    nodes = [e for e in shinfo if e[0] <= depth and e[1] in ("l", "d", "v", "b", "s")]
    if not nodes:
        return "no container node"
    if expect.get("kind") and nodes[0][1] != expect["kind"]:
        return "outermost node is of kind %s, wanted %s" % (nodes[0][1], expect["kind"])
    if not any(e[0] == depth for e in nodes):
        return "no node at depth %d" % depth
    inner = expect.get("inner")
    twos = 0
    for d, k, p, c in nodes:
        want = expect["alias"] if d == alias_depth else 1
        if inner and d == inner[0] and c == 2 and want == 1:
            twos += 1
            continue
        if c != want:
            return "strong count %d at depth %d (kind %s), wanted %d" % (c, d, k, want)
    if inner and twos != inner[1]:
        return "%d inner nodes with strong count 2, wanted %d" % (twos, inner[1])
    if not inner and twos:
        return "unexpected shared inner node"
    return None


def run_case(w, setup, extra, loop, n, threshold, observe):
    """One measured job: [setup; aliases] then the loop.  Returns (events, job)."""
    stmts = ["; ".join(subst(s, n) for s in list(setup) + list(extra)), subst(loop, n)]
    # mem: the harness's live-bytes budget per job; the canonical dump of a 400 000-element list alone needs ~300 MB
    opts = dict(alloc=True, big_threshold=threshold, share=True, observe=list(observe), observe_values=False, values=False, fuel=_fuel(n), mem=MEM)
    evs = core.eval_all(w, stmts, jid="c02", **opts)
    job = {"kind": "eval", "stmts": stmts, "fuel": _fuel(n)}
    job.update(opts)
    return evs, job


INCONC_OUTCOMES = ("fuel", "depth", "timeout", "crash", "skipped", "lost", "panic")


class Group:
    """Collects the verdict records of one group of families; decided at the end, after its controls."""

    def __init__(self, sh, name):
        self.sh = sh
        self.name = name
        self.records = []        # dicts: case, key, n, L, B, bound, control, job, fam, variant
        self.blind = []

    def add(self, **r):
        self.records.append(r)

    def decide(self):
        sh = self.sh
        by = {}
        for r in self.records:
            by.setdefault((r["fam"], r["variant"]), {})[r["n"]] = r
        # 1. controls: must look quadratic
        n_ctl = 0
        for (f, v), sizes in by.items():
            if not any(r["control"] for r in sizes.values()):
                continue
            n_ctl += 1
            for n, r in sorted(sizes.items()):
                sh.count("control:L-checked")
                if r["L"] <= r["bound"] or r["L"] < n // 4:
                    self.blind.append("%s n=%d: L=%d (bound %d)" % (f, n, r["L"], r["bound"]))
                if 4 * n in sizes:
                    ratio = sizes[4 * n]["B"] / max(1, r["B"])
                    sh.count("control:ratio-checked")
                    sh.count("control:ratio>=12" if ratio >= 12 else "control:ratio<12")
                    if ratio <= RATIO_MAX:
                        self.blind.append("%s n=%d: B(4n)/B(n)=%.2f" % (f, n, ratio))
            if not any(4 * n in sizes for n in sizes):
                self.blind.append("%s: no (n, 4n) pair was measured" % f)
        if n_ctl == 0:
            self.blind.append("no control completed")
        if self.blind:
            sh.notes.append("group %s: sensitivity self-check failed: %s" % (self.name, "; ".join(self.blind[:3])))
        # 2. families
        for (f, v), sizes in by.items():
            for n, r in sorted(sizes.items()):
                if r["control"]:
                    continue
                viol = False
                if r["L"] > r["bound"]:
                    viol = True
                    sh.violation("C02|%s|%s|L" % (r["keyname"], v),
                                 "%s: %d allocation requests >= payload/4 (%d B; payload %d B) during the loop at n=%d, allowed %d; "
                                 "B=%d bytes" % (r["case"], r["L"], r["threshold"], r["payload"], n, r["bound"], r["B"]),
                                 {"job": r["job"], "expected": {"max_big_requests": r["bound"], "big_threshold": r["threshold"]},
                                  "observed": {"big": r["L"], "bytes": r["B"]}})
                if 4 * n in sizes:
                    r4 = sizes[4 * n]
                    ratio = r4["B"] / max(1, r["B"])
                    sh.count("ratio-checked")
                    sh.count("ratio:%s" % ("<=4.5" if ratio <= 4.5 else "<=6" if ratio <= 6 else ">6"))
                    if ratio > RATIO_MAX:
                        viol = True
                        sh.violation("C02|%s|%s|B" % (r["keyname"], v),
                                     "%s: bytes requested by the loop grow superlinearly: B(%d)=%d, B(%d)=%d, ratio %.2f > %.1f"
                                     % (r["case"], n, r["B"], 4 * n, r4["B"], ratio, RATIO_MAX),
                                     {"job": r4["job"], "job_small": r["job"],
                                      "expected": {"max_ratio": RATIO_MAX}, "observed": {"B_n": r["B"], "B_4n": r4["B"], "ratio": ratio}})
                if not viol and self.blind:
                    sh.inconc("control-blind:" + self.name, r["case"])
                elif not viol:
                    sh.count("held")


def exec_case(sh, w, grp, f_name, keyname, variant, n, setup, extra, loop, probes, observe_specs, H, C, control, cache):
    """probes: list of (setup, probe_src, kind, cache key); observe_specs: list of (var, depth, alias_depth, expect)."""
    case = "%s|%s|n=%d" % (f_name, variant, n)
    payloads = []
    for (psetup, psrc, pkind, pkey) in probes:
        p, why = measure_payload(w, psetup, psrc, pkind, n, cache, pkey + (n,))
        if p is None or p < MIN_PAYLOAD:
            sh.seen(case, nontrivial=False)
            sh.inconc("payload:" + (why if p is None else "too-small"), case)
            return
        if why != "ok":
            sh.count("payload:" + why)
        payloads.append(p)
    payload = min(payloads)
    threshold = max(1, payload // 4)
    evs, job = run_case(w, setup, extra, loop, n, threshold, [o[0] for o in observe_specs])
    if len(evs) < 2:
        sh.seen(case, nontrivial=False)
        sh.inconc("short", case)
        return
    e0, e1 = evs[0], evs[1]
    for e, what in ((e0, "setup"), (e1, "loop")):
        o = e.get("o")
        if o != "ok":
            sh.seen(case, nontrivial=False)
            if o in INCONC_OUTCOMES:
                sh.inconc("%s:%s%s" % (what, o, ":" + str(e.get("why")) if o == "crash" else ""), case)
            else:
                sh.inconc("workload-error:%s:%s" % (what, o), case + " " + str(e.get("err"))[:120])
            return
    shi = e0.get("sh") or {}
    for (var, depth, alias_depth, expect) in observe_specs:
        bad = check_precondition(shi.get(var), depth, alias_depth, expect)
        if bad:
            sh.seen(case, nontrivial=False)
            sh.inconc("precondition", case + ": " + var + ": " + bad)
            return
    a = e1.get("alloc") or {}
    L, B = a.get("big", 0), a.get("bytes", 0)
    bound = L_PER_COLLECTION * C + L_PER_HOLDER * H
    sh.seen(case, nontrivial=True)
    sh.count("cases:control" if control else "cases:family")
    sh.count("variant:" + (variant if "," not in variant and ":" not in variant else "mix"))
    sh.count("size:%d" % n)
    sh.count("L=%s" % (L if L <= 4 else "5..%d" % bound if L <= bound else ">bound"))
    sh.count("bytes_requested_total", B)
    # what happened to the sharing afterwards (informational): after the loop x owns its buffer again
    after = (e1.get("sh") or {}).get(observe_specs[0][0]) or []
    if after and all(c == 1 for d, k, p, c in after if d <= observe_specs[0][1]):
        sh.count("after:path-unshared")
    else:
        sh.count("after:path-shared")
    per_elem = B / max(1, n)
    sh.sample({"case": case, "setup": job["stmts"][0][:160], "loop": job["stmts"][1], "payload_bytes": payload,
               "big_threshold": threshold, "L": L, "B": B, "bytes_per_n": round(per_elem, 1), "bound": bound,
               "sharing_before[depth,kind,strong]": [[d, k, c] for d, k, p, c in (shi.get(observe_specs[0][0]) or [])[:3]]}, cap=2)
    grp.add(case=case, fam=f_name, keyname=keyname, variant=variant, n=n, L=L, B=B, bound=bound, control=control, job=job,
            payload=payload, threshold=threshold)


# ---------------------------------------------------------------- random mixtures

# collections available to a mixture: name -> (setup statements, probe_src, kind, depth, alias_depth)
MIX_COLL = {
    "a": (["a := list(0 til @N)"], "a", "l", 0, 0),
    "b": (["b := list(0 til @N)"], "b", "l", 0, 0),
    "d": (["d := {:0}", "for (i <- 0 til @N) d[i] = i"], "d", "d", 0, 0),
    "r": (["r := (0 til @R) map (\\i -> [i, i, i, i])"], "r", "l", 1, 0),
    "v": (["v := vector(0 til @N)"], "v", "v", 0, 0),
    "s": (["struct S (fa, fb)", "s := S(list(0 til @N), [1, 2])"], "s[fa]", "l", 1, 1),
}
# (op name, statement, effect on the length surplus of the collection: +1 push, -1 needs a surplus, 0 none)
MIX_OPS = {
    "a": [("set", "a[i] = i + 1", 0), ("opidx", "a[i] += 2", 0), ("append", "a append= i", 1), ("concat", "a ++= [i]", 1),
          ("pop", "pop a", -1), ("rmlast", "remove a[-1]", -1), ("setlast", "a[-1] = i", 0)],
    "b": [("set", "b[i] = 0", 0), ("opidx", "b[i] max= 5", 0), ("append", "b append= i", 1), ("pop", "pop b", -1)],
    "d": [("set", "d[i] = i + 1", 0), ("setnew", "d[@N + i] = i", 0), ("opdef", "d[i] += 1", 0), ("opdefnew", "d[@N2 + i] += 1", 0),
          ("addkey", "d |.= @N + i", 0), ("merge", "d ||= {(@N + i): 1}", 0), ("discard", "d -.= @N + i", 0)],
    "r": [("set", "r[i % @R][1] = i", 0), ("opidx", "r[i % @R][0] += 1", 0), ("append", "r[i % @R] append= i", 1),
          ("pop", "pop r[i % @R]", -1)],
    "v": [("set", "v[i] = i + 1", 0), ("opidx", "v[i] += 1", 0), ("append", "v append= i", 1)],
    "s": [("set", "s[fa][i] = i + 1", 0), ("opidx", "s[fa][i] += 1", 0), ("append", "s[fa] append= i", 1), ("pop", "pop s[fa]", -1)],
}


def gen_mixture(r):
    """-> dict(name, keyname, colls, setup, loop, control_loop, aliases {coll: holders}, extra)."""
    colls = r.sample(sorted(MIX_COLL), r.choice([1, 2, 2, 3, 3, 4]))
    nops = r.randint(2, 6)
    surplus = {c: 0 for c in colls}
    body = []
    names = []
    for _ in range(nops):
        c = r.choice(colls)
        cands = [o for o in MIX_OPS[c] if o[2] >= 0 or surplus[c] > 0]
        name, stmt, eff = r.choice(cands)
        surplus[c] += eff
        body.append(stmt)
        names.append(c + "." + name)
    used = sorted({nm.split(".")[0] for nm in names})
    setup = []
    for c in used:
        for s in MIX_COLL[c][0]:
            if s not in setup:
                setup.append(s)
    # aliasing: each used collection independently unaliased / aliased once / two holders / released
    aliases = {}
    extra = []
    tags = []
    counts_alias = []
    for c in used:
        mode = r.choice(["un", "un", "al1", "box", "al2", "rel"])
        if mode == "al1":
            extra.append("__y_%s := %s" % (c, c))
            aliases[c] = 1
        elif mode == "box":
            extra.append("__b_%s := [%s, 0]" % (c, c))
            aliases[c] = 1
        elif mode == "al2":
            extra += ["__y_%s := %s" % (c, c), "__b_%s := {1: %s}" % (c, c)]
            aliases[c] = 2
        elif mode == "rel":
            extra += ["__y_%s := %s" % (c, c), "__y_%s = null" % c]
            aliases[c] = 0
        else:
            aliases[c] = 0
        tags.append("%s:%s" % (c, mode))
        counts_alias.append(mode)
    driver = r.choice(["for", "for", "while", "closure"])
    seq = "; ".join(body)
    victim = r.choice(used)
    cseq = "__c = %s; %s" % (victim, seq)
    # the control must mutate its victim in every iteration: make sure an index assignment of it is in the body
    cfix = {"a": "a[i] = 1", "b": "b[i] = 1", "d": "d[i] = 1", "r": "r[i % @R][1] = 1", "v": "v[i] = 1", "s": "s[fa][i] = 1"}[victim]
    cseq = cseq + "; " + cfix
    if driver == "for":
        loop = FOR + "(" + seq + ")"
        cloop = FOR + "(" + cseq + ")"
        dsetup = []
    elif driver == "while":
        dsetup = ["__i := 0"]
        loop = "while (__i < @N) (i := __i; " + seq + "; __i += 1)"
        cloop = "while (__i < @N) (i := __i; " + cseq + "; __i += 1)"
    else:
        dsetup = ["__f := \\i -> (" + seq + ")", "__fc := \\i -> (" + cseq + ")"]
        loop = FOR + "__f(i)"
        cloop = FOR + "__fc(i)"
    return dict(ops=names, used=used, setup=setup + dsetup + ["__c := null"], extra=extra, loop=loop, control_loop=cloop,
                aliases=aliases, driver=driver, tags=tags, victim=victim, alias_modes=counts_alias)


def run_mixtures(sh, w, r, count, bases, cache, ctl_sizes):
    grp = Group(sh, "mix")
    for mi in range(count):
        m = gen_mixture(r)
        base = r.choice(bases)
        keyname = "mix|" + "+".join(sorted(set(m["ops"])))
        variant = ",".join(m["tags"])
        fname = "mix[%s|%s|%s]" % (m["driver"], " ; ".join(m["ops"]), variant)
        probes = [(MIX_COLL[c][0], MIX_COLL[c][1], MIX_COLL[c][2], ("mix", c)) for c in m["used"]]
        specs = []
        for c in m["used"]:
            _, _, _, depth, adepth = MIX_COLL[c]
            specs.append((c, depth, adepth, {"alias": 1 + (m["aliases"][c] if m["aliases"][c] else 0)}))
        H = sum(m["aliases"].values())
        # a shared outer list of rows makes every row shared once the outer has been copied: the rows
        # are small (not payload-sized), so H counts the outer only
        C = len(m["used"])
        for n in (base, 4 * base):
            exec_case(sh, w, grp, fname, keyname, variant, n, m["setup"], m["extra"], m["loop"], probes, specs, H, C, False, cache)
            sh.count("mix:driver:" + m["driver"])
        for o in set(m["ops"]):
            sh.count("mix:op:" + o)
        for am in m["alias_modes"]:
            sh.count("mix:alias:" + am)
        sh.count("mix:collections:%d" % len(m["used"]))
        # one control per eight mixtures (and always for the first): the same body with an alias of one
        # collection taken in every iteration
        if mi % 8 == 0:
            cb = min(base, max(ctl_sizes) // 4)
            cspecs = [(c, MIX_COLL[c][3], MIX_COLL[c][4], {"alias": 1}) for c in m["used"]]
            vprobe = [(MIX_COLL[m["victim"]][0], MIX_COLL[m["victim"]][1], MIX_COLL[m["victim"]][2], ("mix", m["victim"]))]
            for n in (cb, 4 * cb):
                exec_case(sh, w, grp, "ctl_" + fname, "ctl", "ctl", n, m["setup"], [], m["control_loop"], vprobe + probes, cspecs,
                          0, C, True, cache)
    grp.decide()


# ---------------------------------------------------------------- shard

def run_group(sh, w, gname, ctx, cache):
    grp = Group(sh, gname)
    for f in [f for f in FAMILIES if f.group == gname]:
        sizes = ctx.plan["control_sizes"] if f.control else ctx.plan["sizes"]
        for (vname, extra, H, expect, loop) in variants_for(f, ctx.tier):
            for n in sizes:
                if ctx.plan.get("mid_size_only_for") and len(sizes) == 3 and n == sizes[1] \
                        and vname not in ctx.plan["mid_size_only_for"]:
                    sh.count("skipped:mid-size-for-secondary-variant")
                    continue
                n = n // f.div
                if f.max_n and n > f.max_n:
                    sh.count("skipped:size-cap")
                    continue
                Hc = (H * f.C if (vname in ("al1", "box", "alk", "al1b") and f.C > 1) else H) + f.dyn_holders
                if f.probe_src == "x":
                    expect = dict(expect, kind=f.kind)
                exec_case(sh, w, grp, f.name, f.name, vname, n, f.setup, extra, loop,
                          [(f.setup, f.probe_src, f.kind, ("fam", f.name))],
                          [("x", f.depth, f.alias_depth, expect)], Hc, f.C, f.control, cache)
                sh.count("family:" + f.name)
    grp.decide()


def plan_shards(n, mixtures, group_weight):
    """-> per shard (list of group names, number of mixtures).  Groups (each with its own controls) are dealt
    round-robin; the mixtures go preferentially to the shards that have fewer groups (a group costs about
    as much as group_weight mixtures)."""
    groups = [[] for _ in range(n)]
    for gi, g in enumerate(GROUPS):
        groups[gi % n].append(g)
    load = [group_weight * len(g) for g in groups]
    mix = [0] * n
    for _ in range(mixtures):
        i = min(range(n), key=lambda j: (load[j], j))
        mix[i] += 1
        load[i] += 1
    return list(zip(groups, mix))


def shard(ctx, si, n):
    sh = core.Shard("C02")
    w = core.Worker(cpu_budget=120.0)
    cache = {}
    try:
        groups, mine = plan_shards(n, ctx.plan["mixtures"], ctx.plan.get("group_weight", 6))[si]

        def cpu():
            return time.process_time() + (core._cpu_seconds(w.p.pid) or 0.0)
        for g in groups:
            c0 = cpu()
            run_group(sh, w, g, ctx, cache)
            sh.count("cpu_ms:group:" + g, int(1000 * (cpu() - c0)))
        if mine:
            c0 = cpu()
            r = core.rng_for("C02", ctx.seed, si)
            run_mixtures(sh, w, r, mine, ctx.plan["mix_bases"], cache, ctx.plan["control_sizes"])
            sh.count("cpu_ms:mixtures", int(1000 * (cpu() - c0)))
    finally:
        w.close()
    return sh
