"""C05  Control flow, scoping and closures follow the documented semantics.

Monitor: reference-model monitor.  A seeded generator produces well-formed programs over the
property's statement vocabulary (biased towards the hazards it names: escaping closures, closures
per loop iteration, shadowing, assignment through several scopes, redeclaration, undeclared names,
multi-level break/continue, return from inside loops, throw across calls and loops); each program is
run by the real interpreter (value, captured output, raised / not raised) and by the Python
reference interpreter in c05_model.py; any difference is a violation.  The model declines to
predict (inconclusive) when a program leaves the modelled subset.
"""
from .. import core
from ..values import norm, to_canon
from . import c05_model as M

RULE = ("case = one generated program (AST of 20-120 nodes over sequencing, if/else, while, multi-clause for with "
        "<-, <<-, guards and mid-loop declarations, yield / yield k: v / into, break/continue with levels and values, "
        "return, try/catch/throw, and/or/coalesce, lambdas with defaults and splats, recursion, eval, switch); "
        "distinct = distinct program text; non-trivial = the model executed at least one loop construct or closure "
        "call and at least 15 evaluation steps; not generated (documentation leaves it open): declarations inside call "
        "arguments, break/continue escaping a lambda or builtin callback, printing of functions/dicts, ordering of "
        "containers, break/continue inside a for header aimed at an enclosing loop")
ASSUMPTIONS = ["c05_model.py is a faithful reading of README.md + DESIGN.md Appendix A scoping table",
               "error kind is reduced to raised / not raised (plus the thrown value for explicit throw)",
               "programs are bounded by construction (counter-guarded while loops, finite lists, small recursion depth)"]
PLAN = {"quick": {"programs": 60000, "size": 70, "shards": 16}, "thorough": {"programs": 600000, "size": 120, "shards": 64}}
REG = dict(level="exploration", min_nontrivial=3000,
           technique="reference-model monitor: generated programs run on the real interpreter and on an independent Python reference interpreter of the documented scoping/control-flow rules; value, output and raised/not-raised compared",
           claim="Every generated program evaluated to the value, printed output and raised/not-raised outcome predicted by the reference interpreter; exploration over generated programs up to the size bound only.",
           note="Trusts the reference interpreter (written from README + Appendix A) as the specification; model declines (counted inconclusive) outside its subset.")

INT, STR, LST, FUN, ANY = "int", "str", "list", "fun", "any"


class Gen:
    def __init__(self, r, size):
        self.r = r
        self.budget = size
        self.fresh = 0
        # static picture of scopes: list of dicts name -> type (innermost last)
        self.scopes = [{}]
        self.loop_depth = 0       # loops enclosing the current point inside the current lambda
        self.in_lambda = 0
        self.funcs = []           # (name, arity, kind) of functions declared so far and visible at top level
        self.readonly = set()     # names that must not be assigned (outer variables of a frozen lambda, C17)
        self.allow_eval = True

    # ---------------------------------------------------------------- helpers
    def name(self, prefix="v"):
        self.fresh += 1
        return "%s%d" % (prefix, self.fresh)

    def visible(self, ty=None):
        out = []
        seen = set()
        for sc in reversed(self.scopes):
            for n, t in sc.items():
                if n in seen:
                    continue
                seen.add(n)
                if ty is None or t == ty or t == ANY:
                    out.append(n)
        return out

    def declare(self, n, t):
        self.scopes[-1][n] = t

    def spend(self, k=1):
        self.budget -= k
        return self.budget > 0

    # ---------------------------------------------------------------- expressions
    def expr(self, ty, depth=0):
        r = self.r
        self.spend()
        if depth > 3 or self.budget <= 0:
            return self.atom(ty)
        k = r.random()
        if ty == INT:
            if k < 0.30:
                return self.atom(INT)
            if k < 0.55:
                return ("bin", r.choice(["+", "-", "*"]), self.expr(INT, depth + 1), self.expr(INT, depth + 1))
            if k < 0.62:
                return ("bin", r.choice(["<", "==", "<=", "!=", ">"]), self.expr(INT, depth + 1), self.expr(INT, depth + 1))
            if k < 0.67:
                return ("if", self.expr(INT, depth + 1), self.expr(INT, depth + 1), self.expr(INT, depth + 1))
            if k < 0.72:
                return ("len", self.expr(LST, depth + 1))
            if k < 0.77:
                return (r.choice(["and", "or"]), self.expr(INT, depth + 1), self.expr(INT, depth + 1))
            if k < 0.80:
                return ("coalesce", r.choice([("null",), self.expr(INT, depth + 1)]), self.expr(INT, depth + 1))
            if k < 0.88:
                c = self.call_expr(depth)
                if c:
                    return c
            if k < 0.92:
                l = self.expr(LST, depth + 1)
                if r.random() < 0.3:
                    # mostly in range: lists here have <= 3 elements, negative indices count from the end
                    return ("idx", ("bin", "++", ("list", [("int", r.randint(0, 9))]), l), ("int", r.choice([0, 0, -1, 0, 1, 5])))
                return ("bin", "%", self.expr(INT, depth + 1), ("int", r.randint(1, 5)))
            if k < 0.96:
                return self.for_expr(depth, want="sum")
            return ("not", self.expr(INT, depth + 1))
        if ty == STR:
            if k < 0.5:
                return self.atom(STR)
            if k < 0.9:
                return ("bin", "$", self.expr(r.choice([STR, INT]), depth + 1), self.expr(r.choice([STR, INT]), depth + 1))
            return ("if", self.expr(INT, depth + 1), self.expr(STR, depth + 1), self.expr(STR, depth + 1))
        if ty == LST:
            if k < 0.35:
                return self.atom(LST)
            if k < 0.5:
                return ("list", [self.expr(INT, depth + 1) for _ in range(r.randint(0, 3))])
            if k < 0.62:
                return ("bin", "++", self.expr(LST, depth + 1), self.expr(LST, depth + 1))
            if k < 0.72:
                return ("range", ("int", r.randint(0, 2)), ("int", r.randint(1, 4)))
            return self.for_expr(depth, want="list")
        if ty == FUN:
            return self.lambda_expr(depth)
        return self.expr(r.choice([INT, INT, STR, LST]), depth)

    def atom(self, ty):
        r = self.r
        vs = self.visible(ty)
        if vs and r.random() < 0.6:
            return ("var", r.choice(vs))
        if ty == INT:
            return ("int", r.randint(-2, 9))
        if ty == STR:
            return ("str", r.choice(["", "a", "b", "xy", "k"]))
        if ty == LST:
            return ("list", [("int", r.randint(0, 5)) for _ in range(r.randint(0, 3))])
        if ty == FUN:
            return self.lambda_expr(3)
        return ("int", r.randint(0, 5))

    def call_expr(self, depth):
        r = self.r
        fs = [n for n in self.visible(FUN)]
        cands = [f for f in self.funcs if f[0] in fs]
        if not cands:
            return None
        name, lo, hi, ret = r.choice(cands)
        n = r.randint(lo, hi)
        if r.random() < 0.05:
            n = hi + 1 if hi < 4 else max(0, lo - 1)   # deliberate arity fault
        return ("call", ("var", name), [self.expr(INT, depth + 1) for _ in range(n)])

    def lambda_expr(self, depth, register=None):
        r = self.r
        nreq = r.randint(0, 2)
        ndef = r.randint(0, 1) if r.random() < 0.35 else 0
        splat = self.name("r") if r.random() < 0.25 else None
        # the splat may sit in the middle: required parameters, ...splat, then trailing parameters
        # (required first, defaulted last)
        splat_pos = None
        if splat is not None and r.random() < 0.5:
            splat_pos = r.randint(0, nreq)
            if r.random() < 0.6:
                ndef = r.randint(1, 2)
        params = []
        self.scopes.append({})
        saved_loop = self.loop_depth
        self.loop_depth = 0
        self.in_lambda += 1
        for _ in range(nreq):
            p = self.name("p")
            params.append((p, None))
        defaults = []
        for _ in range(ndef):
            p = self.name("p")
            # default: constant or an OUTER variable (evaluated at call time before parameters are bound)
            outer = [n for sc in self.scopes[:-1] for n, t in sc.items() if t == INT]
            d = ("var", r.choice(outer)) if outer and r.random() < 0.5 else ("int", r.randint(0, 9))
            defaults.append((p, d))
        for p, _d in params + defaults:
            self.declare(p, INT)
        if splat:
            self.declare(splat, LST)
        body = self.block(depth + 1, nstmts=r.randint(1, 3), result=INT, allow_return=True)
        self.in_lambda -= 1
        self.loop_depth = saved_loop
        self.scopes.pop()
        if register is not None:
            self.funcs.append((register, nreq, nreq + ndef + (2 if splat else 0), INT))
        if splat_pos is not None:
            return ("lambda", params + defaults, splat, body, splat_pos)
        return ("lambda", params + defaults, splat, body)

    # ---------------------------------------------------------------- loops
    def clauses(self, depth):
        # expressions in a for header must not contain break/continue aimed at an enclosing loop (what
        # they mean there is not documented): generate them as if no loop were open
        saved = self.loop_depth
        self.loop_depth = 0
        try:
            return self._clauses(depth)
        finally:
            self.loop_depth = saved

    def _clauses(self, depth):
        r = self.r
        cs = []
        n = r.choice([1, 1, 1, 2, 2, 3])
        clause_vars = []
        for i in range(n):
            k = r.random()
            if i > 0 and k < 0.2:
                cs.append(("if", self.expr(INT, depth + 1)))
                continue
            if (i > 0 and k < 0.38) or (i == 0 and k < 0.07):
                # mid-loop (or leading) declaration clause; sometimes it shadows an earlier clause variable
                if clause_vars and r.random() < 0.35:
                    v = r.choice(clause_vars)
                    e = ("bin", r.choice(["*", "+"]), ("var", v), ("int", r.randint(2, 10)))
                else:
                    v = self.name("m")
                    e = self.expr(INT, depth + 1)
                cs.append(("let", v, e))
                self.declare(v, INT)
                continue
            if k < 0.75:
                v = self.name("x")
                cs.append(("in", v, self.expr(LST, depth + 1)))
                self.declare(v, INT)
                clause_vars.append(v)
            elif k < 0.9:
                iv, v = self.name("i"), self.name("x")
                cs.append(("idx", iv, v, self.expr(LST, depth + 1)))
                self.declare(iv, INT)
                self.declare(v, INT)
                clause_vars += [iv, v]
            elif k < 0.96:
                a, b = self.name("a"), self.name("b")
                pairs = ("list", [("list", [("int", r.randint(0, 5)), ("int", r.randint(0, 5))]) for _ in range(r.randint(0, 3))])
                cs.append(("in2", a, b, pairs))
                self.declare(a, INT)
                self.declare(b, INT)
                clause_vars += [a, b]
            elif k < 0.985:
                # head / rest iteration over rows of different lengths (a row as long as the pattern included)
                a, b = self.name("a"), self.name("t")
                rows = ("list", [("list", [("int", r.randint(0, 5)) for _ in range(r.choice([1, 2, 2, 3, 3, 0 if r.random() < 0.1 else 2]))])
                                 for _ in range(r.randint(1, 3))])
                cs.append(("insplat", a, b, rows))
                self.declare(a, INT)
                self.declare(b, LST)
                clause_vars += [a, b]
            else:
                iv, v = self.name("i"), self.name("t")
                cs.append(("idxsplat", iv, v, self.expr(LST, depth + 1)))
                self.declare(iv, INT)
                self.declare(v, LST)
                clause_vars += [iv, v]
        return cs

    def for_expr(self, depth, want):
        """A `for` used as an expression: yield (list) or yield into sum/len/max/first/last/fn (int)."""
        r = self.r
        self.scopes.append({})
        self.loop_depth += 1
        cs = self.clauses(depth)
        body = self.block(depth + 1, nstmts=r.randint(1, 2), result=INT, in_loop=True)
        self.loop_depth -= 1
        self.scopes.pop()
        into = None
        if want == "sum":
            k = r.random()
            if k < 0.5:
                into = ("sum",)
            elif k < 0.65:
                into = ("len",)
            elif k < 0.8:
                # max/first/last raise on an empty collection: guard with a non-empty fallback is not possible,
                # the model predicts the raise
                into = (r.choice(["max", "first", "last", "min"]),)
            else:
                lv = self.name("q")
                into = ("fn", ("lambda", [(lv, None)], None, ("bin", "+", ("len", ("var", lv)), ("int", r.randint(0, 3)))))
        return ("for", cs, "yield", body, None, into)

    def for_stmt(self, depth):
        r = self.r
        self.scopes.append({})
        self.loop_depth += 1
        cs = self.clauses(depth)
        kind = r.choice(["do", "do", "yield", "yieldkv"])
        key = None
        if kind == "yieldkv":
            # generated before the body: the key is evaluated first and must not see body declarations
            key = self.expr(r.choice([INT, STR]), depth + 2)
        body = self.block(depth + 1, nstmts=r.randint(1, 3), result=INT if kind != "do" else None, in_loop=True)
        self.loop_depth -= 1
        self.scopes.pop()
        return ("for", cs, kind, body, key, None)

    def while_stmt(self, depth):
        r = self.r
        c = self.name("w")
        limit = r.randint(1, 4)
        self.scopes.append({})
        self.loop_depth += 1
        body = self.block(depth + 1, nstmts=r.randint(1, 3), result=None, in_loop=True)
        self.loop_depth -= 1
        self.scopes.pop()
        # the counter is advanced first, so `continue` cannot make the loop spin
        loop = ("while", ("bin", "<", ("var", c), ("int", limit)), ("seq", [("opassign", c, "+", ("int", 1)), body]))
        return ("seq", [("decl", c, ("int", 0)), loop])

    # ---------------------------------------------------------------- statements
    def block(self, depth, nstmts, result=None, in_loop=False, allow_return=False):
        stmts = []
        for _ in range(nstmts):
            if self.budget <= 0:
                break
            stmts.append(self.stmt(depth, in_loop, allow_return))
        if result is not None:
            stmts.append(self.expr(result, depth + 1))
        if len(stmts) == 1:
            return stmts[0]
        if not stmts:
            return ("null",)
        return ("seq", stmts)

    def stmt(self, depth, in_loop=False, allow_return=False):
        r = self.r
        self.spend(2)
        k = r.random()
        if depth > 4:
            k = k * 0.45
        if k < 0.16:
            ty = r.choice([INT, INT, LST, STR])
            e = self.expr(ty, depth + 1)
            if r.random() < 0.12 and self.visible() and (len(self.scopes) > 1 or r.random() < 0.2):
                n = r.choice(self.visible())      # shadowing in a new scope, or a redeclaration fault
                ty = ANY
            else:
                n = self.name()
            self.declare(n, ty)
            return ("decl", n, e)
        if k < 0.28:
            vs = [v for v in self.visible(INT) if v not in self.readonly]
            if vs and r.random() < 0.97:
                n = r.choice(vs)
                return ("assign", n, self.expr(INT, depth + 1)) if r.random() < 0.5 else ("opassign", n, r.choice(["+", "*", "-"]), self.expr(INT, depth + 1))
            if vs:
                return ("assign", self.name("u"), self.expr(INT, depth + 1))     # undeclared-name fault
            n = self.name()
            e = self.expr(INT, depth + 1)
            self.declare(n, INT)
            return ("decl", n, e)
        if k < 0.34:
            vs = [v for v in self.visible(LST) if v not in self.readonly]
            if vs:
                return ("opassign", r.choice(vs), "++", self.expr(LST, depth + 1))
        if k < 0.42:
            return ("print", self.expr(r.choice([INT, STR, INT]), depth + 1))
        if k < 0.50 and (in_loop or self.loop_depth > 0):
            # non-local exits: only lexically inside the loops they target
            lv = r.randrange(self.loop_depth) if self.loop_depth > 0 else 0
            lv = min(lv, r.choice([0, 0, 1, 2]))
            cond = self.expr(INT, depth + 1)
            kind = r.random()
            if kind < 0.4:
                ex = ("break", lv, None)
            elif kind < 0.65:
                ex = ("break", lv, self.expr(INT, depth + 2))
            else:
                ex = ("continue", lv)
            return ("if", cond, ex, None)
        if k < 0.55 and self.in_lambda and allow_return:
            return ("if", self.expr(INT, depth + 1), ("return", self.expr(INT, depth + 2)), None)
        if k < 0.63:
            # names declared in a branch may not exist afterwards at run time: keep them out of the
            # generator's static picture (the run-time scope is still the enclosing one)
            c = self.expr(INT, depth + 1)
            self.scopes.append({})
            a = self.block(depth + 1, r.randint(1, 2), in_loop=in_loop, allow_return=allow_return)
            self.scopes.pop()
            self.scopes.append({})
            b = self.block(depth + 1, 1, in_loop=in_loop, allow_return=allow_return) if r.random() < 0.5 else None
            self.scopes.pop()
            return ("if", c, a, b)
        if k < 0.72:
            return self.for_stmt(depth)
        if k < 0.78:
            return self.while_stmt(depth)
        if k < 0.86:
            n = self.name("f")
            if r.random() < 0.25:
                # recursive function with a decreasing argument
                p = self.name("n")
                self.declare(n, FUN)
                body = ("if", ("bin", "<=", ("var", p), ("int", 0)), ("int", r.randint(0, 3)),
                        ("bin", r.choice(["+", "*"]), ("var", p), ("call", ("var", n), [("bin", "-", ("var", p), ("int", 1))])))
                self.funcs.append((n, 1, 1, INT))
                return ("seq", [("decl", n, ("lambda", [(p, None)], None, body)),
                                ("print", ("call", ("var", n), [("int", r.randint(0, 4))]))])
            lam = self.lambda_expr(depth, register=n)
            self.declare(n, FUN)
            return ("decl", n, lam)
        if k < 0.91:
            # try / throw
            thrown = r.choice([("int", r.randint(0, 3)), ("str", "e"), self.expr(INT, depth + 2)])
            self.scopes.append({})
            body = self.block(depth + 1, r.randint(1, 2), in_loop=in_loop, allow_return=allow_return)
            self.scopes.pop()
            if r.random() < 0.6:
                body = ("seq", [body, ("if", self.expr(INT, depth + 1), ("throw", thrown), None)])
            self.scopes.append({})
            if r.random() < 0.75:
                ev = self.name("e")
                # the caught value may be the text of a builtin error: handlers only use it when printing is not involved
                self.declare(ev, ANY)
                handler = r.choice([("int", r.randint(0, 9)), ("list", [("var", ev)]), ("var", ev)])
                pat = ("name", ev)
            else:
                pat = ("lit", r.randint(0, 3))
                handler = ("int", r.randint(10, 19))
            self.scopes.pop()
            return ("try", body, pat, handler)
        if k < 0.95:
            arms = []
            for _ in range(r.randint(1, 3)):
                self.scopes.append({})
                pk = r.random()
                if pk < 0.55:
                    pat = ("lit", r.randint(0, 3))
                elif pk < 0.85:
                    outer_ints = [n_ for n_ in self.readonly if self.scopes[0].get(n_) == INT]
                    if outer_ints and r.random() < 0.4:
                        # (C17) an arm whose pattern shadows an outer variable: other arms still mean the outer one
                        bn = r.choice(sorted(outer_ints))
                    else:
                        bn = self.name("s")
                    self.declare(bn, INT)
                    pat = ("bind", bn)
                else:
                    pat = ("wild",)
                arms.append((pat, self.block(depth + 1, r.randint(0, 1), result=INT, in_loop=in_loop, allow_return=allow_return)))
                self.scopes.pop()
            if r.random() < 0.85 and arms[-1][0][0] == "lit":
                arms.append((("wild",), ("int", r.randint(20, 29))))
            return ("print", ("switch", self.expr(INT, depth + 1), arms))
        if k < 0.98 and self.allow_eval:
            inner = self.block(depth + 1, r.randint(1, 2), result=INT)
            return ("print", ("eval", inner)) if r.random() < 0.7 else ("eval", inner)
        return self.expr(INT, depth + 1)

    def program(self):
        r = self.r
        stmts = []
        # hazard templates first, then random statements
        for _ in range(r.randint(0, 2)):
            stmts.extend(self.hazard())
        while self.budget > 0 and len(stmts) < 14:
            stmts.append(self.stmt(0))
        stmts.append(self.expr(r.choice([INT, LST, STR, INT]), 0))
        return ("seq", stmts)

    # ---------------------------------------------------------------- hazard templates
    def hazard(self):
        r = self.r
        k = r.randrange(13)
        if k == 12:
            # the callee expression is evaluated before the arguments: an argument that reassigns the function
            # variable (or changes what the callee expression reads) does not affect the call in progress
            f, n, p = self.name("st"), self.name("n"), self.name("p")
            self.declare(f, FUN)
            self.declare(n, INT)
            self.funcs.append((f, 1, 1, INT))
            c1, c2 = r.randint(1, 9), r.randint(10, 99)
            lam1 = ("lambda", [(p, None)], None, ("bin", "+", ("var", p), ("int", c1)))
            lam2 = ("lambda", [(p, None)], None, ("bin", "*", ("var", p), ("int", c2)))
            arg = ("seq", [("assign", f, lam2), ("opassign", n, "+", ("int", 1)), ("int", r.randint(2, 7))])
            q = self.name("q")
            callee = ("seq", [("opassign", n, "*", ("int", 10)), ("lambda", [(q, None)], None, ("list", [("var", n), ("var", q)]))])
            arg2 = ("seq", [("opassign", n, "+", ("int", 3)), ("var", n)])
            out = [("decl", f, lam1), ("decl", n, ("int", r.randint(1, 4))),
                   ("print", ("call", ("var", f), [arg])), ("print", ("call", ("var", f), [("int", 1)])),
                   ("print", ("list", [("call", callee, [arg2]), ("var", n)]))]
            return out if r.random() < 0.7 else out[:4]
        if k == 10:
            # the try body runs in the enclosing scope: what it declares is visible afterwards
            t, e = self.name("t"), self.name("e")
            self.declare(t, INT)
            body = ("seq", [("decl", t, self.expr(INT, 2)), ("if", self.expr(INT, 2), ("throw", ("int", 1)), None), ("int", 0)])
            return [("try", body, ("name", e), ("int", 5)), ("print", ("bin", "+", ("var", t), ("int", 1)))]
        if k == 11:
            # key and value of `yield k: v` are evaluated key first, once per iteration
            x = self.name("x")
            key = ("seq", [("print", ("bin", "$", ("str", "k"), ("var", x))), ("bin", "%", ("var", x), ("int", 2))])
            val = ("seq", [("print", ("bin", "$", ("str", "v"), ("var", x))), ("bin", "*", ("var", x), ("int", 10))])
            loop = ("for", [("in", x, ("list", [("int", 1), ("int", 2), ("int", 3)]))], "yieldkv", val, key, None)
            d = self.name("d")
            return [("decl", d, loop), ("print", ("len", ("list", [("int", 0)])))]
        if k == 8:
            # a leading declaration clause lives in the loop's scope only: the name can be declared
            # again afterwards (and a second such loop in the same scope is fine)
            t, i, acc = self.name("t"), self.name("i"), self.name("n")
            self.declare(acc, INT)
            loop = lambda c: ("for", [("let", t, ("int", c)), ("in", i, ("list", [("int", 1), ("int", 2)]))], "do",
                              ("opassign", acc, "+", ("bin", "*", ("var", t), ("var", i))), None, None)
            tail = r.choice([("decl", t, ("str", "outer")), ("print", ("try", ("var", t), ("name", self.name("e")), ("str", "unbound")))])
            return [("decl", acc, ("int", 0)), loop(r.randint(2, 5)), loop(r.randint(2, 5)), tail, ("print", ("var", acc))]
        if k == 9:
            # splat in the middle followed by defaulted parameters, called with every small arity
            f = self.name("f")
            a, rr, x, y = self.name("p"), self.name("r"), self.name("p"), self.name("p")
            self.declare(f, FUN)
            two = r.random() < 0.5
            params = [(a, None), (x, ("int", 7))] + ([(y, ("int", 8))] if two else [])
            body = ("list", [("var", a), ("var", rr), ("var", x)] + ([("var", y)] if two else []))
            lam = ("lambda", params, rr, body, 1)
            self.funcs.append((f, 1, 4, LST))
            calls = [("call", ("var", f), [("int", 10 + j) for j in range(nargs)]) for nargs in range(1, 5)]
            return [("decl", f, lam), ("print", ("list", calls))]
        if k == 0:
            # closures created per loop iteration and called later
            fs, x, f = self.name("fs"), self.name("x"), self.name("g")
            self.declare(fs, LST)
            body = ("lambda", [], None, ("bin", "*", ("var", x), ("int", r.randint(1, 3))))
            return [("decl", fs, ("for", [("in", x, ("range", ("int", 1), ("int", r.randint(1, 4))))], "yield", body, None, None)),
                    ("print", ("for", [("in", f, ("var", fs))], "yield", ("call", ("var", f), []), None, ("sum",)))]
        if k == 1:
            # counter closure escaping its defining scope
            mk, c, a, b = self.name("mk"), self.name("c"), self.name("ca"), self.name("cb")
            inner = ("lambda", [], None, ("seq", [("opassign", c, "+", ("int", 1)), ("var", c)]))
            self.declare(a, FUN)
            self.declare(b, FUN)
            self.funcs.append((a, 0, 0, INT))
            self.funcs.append((b, 0, 0, INT))
            return [("decl", mk, ("lambda", [(c, None)], None, inner)),
                    ("decl", a, ("call", ("var", mk), [("int", r.randint(0, 5))])),
                    ("decl", b, ("call", ("var", mk), [("int", 10)])),
                    ("print", ("list", [("call", ("var", a), []), ("call", ("var", a), []), ("call", ("var", b), []), ("call", ("var", a), [])]))]
        if k == 2:
            # inner := shadowing followed by a read of the outer variable; = reaches through scopes
            v, f = self.name("o"), self.name("h")
            self.declare(v, INT)
            body = ("seq", [("decl", v, ("int", 100)), ("opassign", v, "+", ("int", 1)), ("var", v)])
            body2 = ("seq", [("assign", v, ("bin", "+", ("var", v), ("int", 5))), ("var", v)])
            return [("decl", v, ("int", r.randint(0, 5))), ("decl", f, ("lambda", [], None, r.choice([body, body2]))),
                    ("print", ("list", [("call", ("var", f), []), ("var", v), ("call", ("var", f), []), ("var", v)]))]
        if k == 3:
            # multi-level break / continue out of nested loops inside yield
            x, y = self.name("x"), self.name("y")
            lv = r.choice([0, 1])
            ex = r.choice([("break", lv, None), ("break", lv, ("bin", "*", ("var", x), ("var", y))), ("continue", lv)])
            inner = ("for", [("in", y, ("list", [("int", 10), ("int", 20), ("int", 30)]))], r.choice(["yield", "do"]),
                     ("seq", [("if", ("bin", "==", ("bin", "+", ("var", x), ("var", y)), ("int", r.choice([12, 21, 32, 13]))), ex, None),
                              ("bin", "+", ("var", x), ("var", y))]), None, None)
            return [("print", ("bin", "$", ("str", ""), ("for", [("in", x, ("list", [("int", 1), ("int", 2), ("int", 3)]))],
                                                       "yield", inner, None, r.choice([None, ("len",)]))))]
        if k == 4:
            # return from inside loops inside a lambda
            f, x, y = self.name("f"), self.name("x"), self.name("y")
            self.declare(f, FUN)
            self.funcs.append((f, 1, 1, INT))
            p = self.name("p")
            body = ("seq", [("for", [("in", x, ("range", ("int", 0), ("int", 3))), ("in", y, ("range", ("int", 0), ("int", 2)))], "do",
                             ("if", ("bin", "==", ("bin", "+", ("var", x), ("var", y)), ("var", p)), ("return", ("bin", "*", ("var", x), ("int", 10))), None), None, None),
                            ("int", -1)])
            return [("decl", f, ("lambda", [(p, None)], None, body)),
                    ("print", ("list", [("call", ("var", f), [("int", r.randint(0, 7))]), ("call", ("var", f), [("int", 9)])]))]
        if k == 5:
            # throw crossing calls and loops into the nearest catch
            f, x = self.name("f"), self.name("x")
            p = self.name("p")
            self.declare(f, FUN)
            self.funcs.append((f, 1, 1, INT))
            body = ("seq", [("for", [("in", x, ("range", ("int", 0), ("var", p)))], "do",
                             ("if", ("bin", "==", ("var", x), ("int", r.randint(0, 3))), ("throw", ("bin", "+", ("var", x), ("int", 100))), None), None, None),
                            ("var", p)])
            e = self.name("e")
            return [("decl", f, ("lambda", [(p, None)], None, body)),
                    ("print", ("try", ("bin", "+", ("call", ("var", f), [("int", r.randint(0, 4))]), ("int", 1)), ("name", e), ("bin", "*", ("var", e), ("int", 2))))]
        if k == 6:
            # while loop: fresh scope per iteration + closure capture
            fs, i, j, g = self.name("fs"), self.name("i"), self.name("j"), self.name("g")
            self.declare(fs, LST)
            loop = ("while", ("bin", "<", ("var", i), ("int", r.randint(1, 4))),
                    ("seq", [("decl", j, ("bin", "*", ("var", i), ("int", 2))), ("opassign", fs, "++", ("list", [("lambda", [], None, ("var", j))])),
                             ("opassign", i, "+", ("int", 1))]))
            return [("decl", fs, ("list", [])), ("decl", i, ("int", 0)), loop,
                    ("print", ("for", [("in", g, ("var", fs))], "yield", ("call", ("var", g), []), None, None))]
        # redeclaration / undeclared faults inside try
        v = self.name("z")
        e = self.name("e")
        self.declare(v, INT)
        bad = r.choice([("decl", v, ("int", 2)), ("assign", self.name("nope"), ("int", 1)), ("bin", "+", ("int", 1), ("str", "a")),
                        ("call", ("int", 5), [("int", 1)]), ("idx", ("list", [("int", 1)]), ("int", 7))])
        return [("decl", v, ("int", 1)), ("print", ("try", ("seq", [bad, ("int", 0)]), ("name", e), ("int", 7))), ("print", ("var", v))]


def canon_model_value(v):
    return to_canon(v)


def shard(ctx, si, n):
    sh = core.Shard("C05")
    r = core.rng_for("C05", ctx.seed, si)
    w = core.Worker()
    total = max(1, ctx.plan["programs"] // n)
    try:
        done = 0
        while done < total:
            batch = []
            while len(batch) < 200:
                g = Gen(r, r.randint(15, ctx.plan["size"]))
                try:
                    ast = g.program()
                    text = M.render(ast)
                except RecursionError:
                    continue
                try:
                    res = M.run_program(ast)
                except M.Decline as d:
                    sh.count("model-declined:" + str(d).split(" ")[0])
                    sh.excluded += 1
                    continue
                if res["o"] == "ok" and M.contains_unknown(res["value"]):
                    sh.count("model-declined:unknown-in-result")
                    sh.excluded += 1
                    continue
                batch.append((text, res))
            done += len(batch)
            evs = core.eval_all(w, [b[0] for b in batch], fresh_each=True, fuel=400000, jid="c05")
            for (text, res), ev in zip(batch, evs):
                st = res["stats"]
                nontriv = res["steps"] >= 15 and any(k.split(":")[0] in ("call", "break", "continue", "into", "return", "catch", "switch", "eval") for k in st)
                sh.seen(text, nontriv)
                for k, v in st.items():
                    sh.count("model:" + k, v)
                o = ev.get("o")
                replay = {"job": {"kind": "eval", "stmts": [text]},
                          "expected": {"outcome": res["o"], "value": to_canon(res.get("value")) if res["o"] == "ok" else None,
                                       "thrown": None if res["o"] == "ok" or res.get("builtin") else to_canon(res.get("thrown")),
                                       "out": res["out"]}}
                if o in ("crash", "timeout", "skipped", "lost", "fuel", "depth", "panic"):
                    sh.inconc("c05:" + o, text[:200])
                    continue
                if o == "parse":
                    sh.violation("C05|generated-program-does-not-parse", "generator bug or parser defect: %s: %s" % (ev.get("err"), text[:200]), replay)
                    continue
                want_o = res["o"]
                got_o = "throw" if o == "throw" else ("ok" if o in ("ok", "empty") else o)
                out = ev.get("out", "")
                if not isinstance(out, str):
                    out = str(out)
                first_kind = first_construct(st)
                if got_o != want_o:
                    sh.violation("C05|outcome|%s-vs-%s|%s" % (want_o, got_o, first_kind),
                                 "program %s: model says %s, interpreter says %s %s" % (text[:300], want_o, o, (ev.get("err") or "")[:100]), replay)
                    continue
                if out != res["out"]:
                    sh.violation("C05|output|%s" % first_kind, "program %s printed %r, model says %r" % (text[:300], out[:120], res["out"][:120]), replay)
                    continue
                if want_o == "ok":
                    if norm(ev.get("v")) != to_canon(res["value"]):
                        sh.violation("C05|value|%s" % first_kind, "program %s = %s, model says %s" % (text[:300], str(norm(ev.get("v")))[:120], str(to_canon(res["value"]))[:120]), replay)
                        continue
                elif not res.get("builtin"):
                    if norm(ev.get("thrown")) != to_canon(res["thrown"]):
                        sh.violation("C05|thrown-value|%s" % first_kind, "program %s threw %s, model says %s" % (text[:300], str(norm(ev.get("thrown")))[:100], str(to_canon(res["thrown"]))[:100]), replay)
                        continue
                sh.count("agree:" + want_o)
                sh.sample({"program": text[:400], "value": ev.get("v"), "out": out[:80], "outcome": o}, cap=3)
    finally:
        w.close()
    return sh


def first_construct(st):
    """Coarse label of what the program exercised (for stable violation keys)."""
    ks = sorted(k.split(":")[0] for k in st)
    for pref in ("break", "continue", "into", "return", "catch", "switch", "eval", "call", "fault", "throw"):
        if pref in ks:
            return pref
    return "plain"
