"""C12  Patterns, destructuring, switch and runtime type annotations.

Three runtime monitors over the real interpreter (nlmon harness):

  (a) pat   random patterns (nesting depth <= 3) x values of every kind, bound in five syntactic
            contexts (declaration / assignment, lambda parameters, for clauses, switch arms, catch).
            Oracle: the Python reference matcher `Matcher` below, written from the property
            statement and DESIGN Appendix A ("Patterns"), never from the Rust code paths.  Bound
            names are observed with the harness `observe` option (declaration/assignment) or
            returned by the body (the other contexts bind in an inner scope).
  (b) hist  annotation histories: `x: T = v`, then ~20 statements that assign to x (plain,
            operator-, every-, swap, destructuring, indexed, through closures / loops); after every
            statement that completed without raising the harness probe `x is T` must be true.
  (c) is    the is/type table: `v is T == (T in classes(v))` for every pool value and every named
            type, `v is type(v)`, and `T(x) is T` whenever the constructor / conversion succeeds.
  (d) readme the README's own examples of patterns, switch and annotations (fixed list).

A violation whose observation is exactly what the reference predicts when ONE named deviation
("quirk") is switched on is keyed by that deviation (one key per root cause); everything else is keyed by
context, kind of disagreement and pattern skeleton.
"""
import math
from fractions import Fraction

from .. import core, pool
from ..values import norm, to_canon, from_canon, src_str, Vec, NDict, Inst, Opaque

RULE = (
    "(a) case = (context, pattern(s), value): patterns are drawn from the grammar name | _ | int/str/null literal | "
    "-k | literally e | [..] / (..,) sequences with at most one ...splat at any position and (p = default) items | "
    "(p or q) with shared and disjoint names | (p and q) | (p: T) with T a builtin type name, a struct type, "
    "satisfying(pred) or empty | Foo(..)/Bar(..) struct patterns | h .+ t | xs +. x | n + k | k + n | -x | a / b | a * k | "
    "k * a | comparison chains lo < x < hi (one slot), nesting depth <= 3; the value is built to match the pattern "
    "(then perturbed with probability 0.3) or drawn from the hostile pool (ints of both representations, rationals, "
    "floats, complex, strings incl. non-ASCII, bytes, lists, vectors, dicts, finite and infinite streams, functions, "
    "types, struct instances, null); contexts: `P := v` / `P: T = v`, `P = v` on predeclared names, lambda with one "
    "parameter and with a parameter list applied to ...v, `for (P <- [v])` / `for (P := v)`, `switch` with 1-4 arms, "
    "`try throw v catch P`.  Literal-bearing patterns are not generated for lambda/for (the parser forbids them).  "
    "distinct = distinct statement text; non-trivial = the pattern has at least one composite node.  "
    "Left out because the statement/README does not define them (counted as `either`/`skip`, never judged): "
    "n + k when v - k < 0, non-integer operands of a * k, integers/floats under a / b, complex or NaN under "
    "comparison chains, strings/dicts/streams under .+ and +., vectors under + and *, dicts with >= 2 keys under "
    "sequence patterns (iteration order), annotations placed directly on operator/struct patterns, non-empty "
    "annotations on undelimited sequences that contain a splat, two splats, duplicate names in one alternative, "
    "values of names that belong only to an `or` alternative that was not taken, infinite streams spread into "
    "a lambda call.  "
    "(b) case = one statement of a history on variables x: T, z: T2, y (untyped); distinct = (declaration, statement "
    "prefix); non-trivial = statement completed or raised after touching an annotated variable; statements that "
    "raise require nothing.  pop/remove/consume are not part of the property and are not generated.  "
    "(c) exhaustive grid pool value x named type (15 builtin types + Foo + Bar), v is type(v), T(v) is T.  "
    "(d) the README's own pattern/switch/annotation examples with the results it states (33 fixed statements).")
ASSUMPTIONS = [
    "the Python reference matcher encodes the property statement and DESIGN Appendix A; it shares no code with eval.rs",
    "literal/`literally` patterns match by `==`: for ints, rationals, non-NaN floats, strings, bytes, null and lists of these the "
    "oracle uses exact Python equality, for every other pair it asks the interpreter's own `==` (the statement defines literal matching by ==)",
    "classes(v) = {type(v), anything} + {number} for the four numeric types + {func} for types + {the struct type} for instances (DESIGN C12)",
    "a statement that raises requires nothing (partial bindings, null left by a failed op-assign are allowed)",
    "fuel/depth/timeout/crash/panic outcomes are inconclusive here (C14 owns panics)",
]
PLAN = {
    "quick": {"patterns": 30000, "histories": 4000, "shards": 16},
    "thorough": {"patterns": 300000, "histories": 40000, "shards": 32},
}
EXHAUSTIVE = {}
REG = dict(level="exploration", min_nontrivial=8000, min_nontrivial_thorough=150000,
           technique="runtime reference-model monitor: Python pattern matcher / type classifier as oracle over generated "
                     "pattern x value x context cases, invariant monitor (`x is T` probe after every non-raising statement) over "
                     "annotation histories, exhaustive is/type/constructor table over the hostile pool",
           claim="On every executed case the interpreter bound exactly the names the reference matcher predicts (or raised when "
                 "it predicts no match), switch ran the first matching arm, `x is T` held after every non-raising statement "
                 "touching an annotated x, and `v is T` agreed with type(v)/constructors on the pool grid - except for the "
                 "reported violations. Exploration bounded by pattern depth 3, the value pool and history length 20; not a proof.",
           note="Corners the statement does not define are generated but not judged (listed in the rule). Trusts the harness "
                "value dump and the `observe`/`probe` options.")

ANY = ("any",)
BUILTIN_TYPES = ["nulltype", "int", "rational", "float", "complex", "number", "str", "list", "dict", "vector",
                 "bytes", "stream", "func", "type", "anything"]
STRUCTS = {"Foo": 2, "Bar": 1}
NAMED_TYPES = BUILTIN_TYPES + ["Foo", "Bar"]
UNB = "§U"
PRE0 = "§0"


# ---------------------------------------------------------------- model values

class Fn(Opaque):
    """function or type held in a prelude variable"""
    def __init__(self, name, c, is_type):
        Opaque.__init__(self, c)
        self.name = name
        self.is_type = is_type


class Stm(Opaque):
    """stream held in a prelude variable; elems is None for infinite streams"""
    def __init__(self, name, c, elems):
        Opaque.__init__(self, c)
        self.name = name
        self.elems = elems


def is_num(v):
    return isinstance(v, (int, Fraction, float, complex)) and not isinstance(v, bool)


def is_real(v):
    return isinstance(v, (int, Fraction, float)) and not isinstance(v, bool)


def is_nan(v):
    return isinstance(v, float) and v != v


def vsrc(v):
    """Noulith source (usable as an operand) for a model value."""
    if isinstance(v, (Fn, Stm)):
        return v.name
    if v is None:
        return "null"
    if isinstance(v, int):
        return str(v) if v >= 0 else "(-%d)" % (-v)
    if isinstance(v, Fraction):
        if v.denominator == 1:
            return "rational(%s)" % vsrc(v.numerator)
        return "(%s/%d)" % (vsrc(v.numerator), v.denominator)
    if isinstance(v, float):
        if v != v:
            return "(0.0/0.0)"
        if v == math.inf:
            return "(1.0/0.0)"
        if v == -math.inf:
            return "(0.0 - 1.0/0.0)"
        r = repr(abs(v))
        if "e" in r:
            m, e = r.split("e")
            if "." not in m:
                m += ".0"
            r = "%se%d" % (m, int(e))
        return "(-%s)" % r if math.copysign(1.0, v) < 0 else r
    if isinstance(v, complex):
        return "(%s + %s * 1i)" % (vsrc(v.real), vsrc(v.imag))
    if isinstance(v, str):
        return src_str(v)
    if isinstance(v, (bytes, bytearray)):
        return "B[%s]" % ", ".join(str(b) for b in v)
    if isinstance(v, Vec):
        return "V(%s)" % ", ".join(vsrc(x) for x in v)
    if isinstance(v, list):
        return "[%s]" % ", ".join(vsrc(x) for x in v)
    if isinstance(v, NDict):
        body = ", ".join("%s: %s" % (vsrc(k), vsrc(x)) for k, x in v.m.values())
        if v.has_default:
            body = ":" + vsrc(v.default) + (", " + body if body else "")
        return "{%s}" % body
    if isinstance(v, Inst):
        return "%s(%s)" % (v.name, ", ".join(vsrc(x) for x in v.fields))
    raise TypeError("vsrc: %r" % (v,))


def vsrc_big(v):
    """Like vsrc, but every integer (at any depth of lists) is written as an expression whose result the
    interpreter holds in big-integer representation although the value is small (`N // 1`, `N + 2^70 - 2^70`):
    `==`, and therefore literal patterns, must not see the difference.  None where v has no integer in a
    position this rewriting reaches."""
    hit = [False]

    def go(x):
        if isinstance(x, bool) or isinstance(x, (Fn, Stm)):
            return vsrc(x)
        if isinstance(x, int):
            hit[0] = True
            form = ("(%s // 1)", "(%s + 2^70 - 2^70)", "((%s * 3) /! 3)", "(%s %%%% (10^30))" if x >= 0 else "(%s // 1)")[abs(x) % 4]
            return form % vsrc(x)
        if type(x) is list:
            return "[%s]" % ", ".join(go(y) for y in x)
        return vsrc(x)
    out = go(v)
    return out if hit[0] else None


def vcanon(v):
    """normalised canonical form of a model value"""
    if isinstance(v, Opaque):
        return norm(v.c)
    if isinstance(v, Vec):
        return to_canon(v)
    if isinstance(v, list):
        return {"l": [vcanon(x) for x in v]}
    if isinstance(v, NDict):
        import json
        items = [[vcanon(k), vcanon(x)] for k, x in v.m.values()]
        items.sort(key=lambda kv: json.dumps(kv[0], sort_keys=True))
        out = {"d": items}
        if v.has_default:
            out["def"] = vcanon(v.default)
        return out
    if isinstance(v, Inst):
        return {"inst": {"struct": v.name, "fields": [vcanon(x) for x in v.fields]}}
    return to_canon(v)


def model_of(name, c):
    """model value of a prelude variable from its observed canonical form"""
    if isinstance(c, dict) and "fn" in c:
        return Fn(name, c, None)
    if isinstance(c, dict) and "st" in c:
        st = c["st"]
        elems = None
        if not st.get("more") and not st.get("err"):
            elems = [from_canon(x) for x in st.get("head", [])]
        m = Stm(name, c, elems)
        m.replen = st.get("len")          # what the stream's own len() reports (None = "infinite")
        return m
    return from_canon(c)


def classes(v):
    """the set of named types that classify v (DESIGN C12)"""
    s = {"anything"}
    if v is None:
        s.add("nulltype")
    elif isinstance(v, Fn):
        s.add("func")
        if v.is_type:
            s.add("type")
    elif isinstance(v, Stm):
        s.add("stream")
    elif isinstance(v, Inst):
        s.add(v.name)
        s.add("struct_instance")
    elif isinstance(v, int):
        s |= {"int", "number"}
    elif isinstance(v, Fraction):
        s |= {"rational", "number"}
    elif isinstance(v, float):
        s |= {"float", "number"}
    elif isinstance(v, complex):
        s |= {"complex", "number"}
    elif isinstance(v, str):
        s.add("str")
    elif isinstance(v, (bytes, bytearray)):
        s.add("bytes")
    elif isinstance(v, Vec):
        s.add("vector")
    elif isinstance(v, list):
        s.add("list")
    elif isinstance(v, NDict):
        s.add("dict")
    else:
        raise TypeError("classes: %r" % (v,))
    return s


# predicates usable under satisfying(...): (prelude name, source, python)
PREDS = {
    "p_big": ("\\v -> (v is int and v > 3)", lambda v: isinstance(v, int) and v > 3),
    "p_pair": ("\\v -> (v is list and len(v) == 2)", lambda v: isinstance(v, list) and not isinstance(v, Vec) and len(v) == 2),
    "p_str": ("\\v -> v is str", lambda v: isinstance(v, str)),
    "p_true": ("\\v -> 1", lambda v: True),
    "p_false": ("\\v -> 0", lambda v: False),
    "p_pi": ("\\v -> (v is list and len(v) == 2 and v[0] is int)",
             lambda v: isinstance(v, list) and not isinstance(v, Vec) and len(v) == 2 and isinstance(v[0], int)),
}
EXTRA = [
    ("xbar", "Bar(7)"), ("xs_he", '"hé"'), ("xs_e", '"é"'), ("xs_jp", '"日本語"'),
    ("xnest", "Foo(Foo(1, 2), [3, Bar(4)])"), ("xfb", "Foo(Bar(1), \"s\")"), ("tbar", "Bar"),
    ("r2", "(1 to 2)"), ("xwv", "stream([1, 2])"), ("lm2", "(1 to 2 lazy_map (* 2))"), ("xl2", "[[1, 2], \"ab\"]"), ("q31", "rational(3)"),
]
PRELUDE = pool.PRELUDE + ["struct Bar (ba)"] + ["%s := %s" % (k, s) for k, (s, _f) in PREDS.items()] + \
    ["%s := %s" % (k, s) for k, s in EXTRA]
# dicts holding functions / instances / streams as values cannot be rendered back to source by this module
_SKIP = {"dfn", "dinst", "dstream"}
TABLE_NAMES = [n_ for n_ in pool.NAMES if n_ not in _SKIP] + [k for k, _ in EXTRA]
KIND_OF = {p[0]: p[2] for p in pool.POOL}
KIND_OF.update({"xbar": "inst", "xs_he": "str", "xs_e": "str", "xs_jp": "str", "xnest": "inst", "xfb": "inst",
                "tbar": "type", "r2": "stream", "xwv": "stream", "lm2": "stream", "xl2": "list", "q31": "rational"})


def build_table(w):
    """name -> model value of every prelude value variable (observed once in an untouched environment)"""
    ev = core.eval_all(w, ["0"], prelude=PRELUDE, fresh_each=True, observe=TABLE_NAMES)[0]
    table = {}
    for name in TABLE_NAMES:
        c = ev["vars"][name]
        m = model_of(name, c)
        if isinstance(m, Fn):
            m.is_type = KIND_OF[name] == "type"
        table[name] = m
    return table


# ---------------------------------------------------------------- patterns
#
# ("name", n) ("wild",) ("lit", int>=0 | str | None) ("neglit", k>0) ("literally", src, value)
# ("seq", [item..], delimited)   item = pattern | ("splat", p) | ("default", p, src, value)
# ("or", a, b) ("and", a, b) ("ann", p, T)   T = ("b", name) | ("s", struct) | ("sat", pred) | ("cmp19",) | ("any",)
# ("struct", name, [item..])
# ("cons", h, t) ("snoc", xs, x) ("plus", n, k, side) ("mul", a, k, side) ("neg", x) ("div", a, b)
# ("cmp", [operand..], [op..])   operands: ints and exactly one pattern (the slot)

COMPOSITE = {"seq", "or", "and", "ann", "struct", "cons", "snoc", "plus", "mul", "neg", "div", "cmp", "neglit",
             "literally", "lit"}
DEFAULTS = [("5", 5), ('"d"', "d"), ("[1, 2]", [1, 2]), ("null", None), ("0", 0), ("(1/2)", Fraction(1, 2))]
LITERALLY = [("5", 5), ("(1/2)", Fraction(1, 2)), ("2.5", 2.5), ("(1 + 2)", 3), ('"ab"', "ab"), ("[1, 2]", [1, 2]),
             ("null", None), ("[]", []), ("V(1, 2)", Vec([1, 2])), ("B[1]", b"\x01"), ("(2^64)", 2 ** 64),
             ("{1: 2}", NDict([(1, 2)])), ("(1 + 0i)", complex(1, 0)), ("1.0", 1.0), ("[1, [2.0]]", [1, [2.0]])]
LIT_INTS = [0, 1, 2, 3, 5, 7, 12, 255, 18446744073709551616]
LIT_STRS = ["a", "", "ab", "hé"]
CMP_OPS = ["<", "<=", ">", ">="]


class Gen:
    def __init__(self, r, lits=True):
        self.r = r
        self.lits = lits
        self.k = 0

    def fresh(self):
        self.k += 1
        return "n%d" % self.k

    def atom(self):
        r = self.r
        x = r.random()
        if x < 0.58 or (not self.lits and x < 0.85):
            return ("name", self.fresh())
        if x < 0.70 or not self.lits:
            return ("wild",)
        if x < 0.90:
            y = r.random()
            if y < 0.6:
                return ("lit", r.choice(LIT_INTS))
            if y < 0.85:
                return ("lit", r.choice(LIT_STRS))
            if y < 0.93:
                return ("lit", None)
            return ("neglit", r.choice([1, 2, 5]))
        s, v = r.choice(LITERALLY)
        return ("literally", s, v)

    def simple(self):
        return ("name", self.fresh()) if self.r.random() < 0.85 else ("wild",)

    def typ(self):
        r = self.r
        x = r.random()
        if x < 0.55:
            return ("b", r.choice(BUILTIN_TYPES))
        if x < 0.70:
            return ("s", r.choice(["Foo", "Foo", "Bar"]))
        if x < 0.90:
            return ("sat", r.choice(sorted(PREDS)))
        if x < 0.95:
            return ("cmp19",)
        return ANY

    def items(self, d, lo, hi, allow_splat=True, allow_default=True):
        r = self.r
        n = r.randint(lo, hi)
        its = [self.pat(d - 1) for _ in range(n)]
        if allow_default and n and r.random() < 0.28:
            k = r.randint(1, min(n, 2))
            if r.random() < 0.8:
                idx = range(n - k, n)           # trailing defaults
            else:
                idx = r.sample(range(n), k)      # defaults anywhere (only useful when enough values arrive)
            for i in idx:
                s, v = r.choice(DEFAULTS)
                sub = its[i] if its[i][0] in ("name", "wild", "ann") and r.random() < 0.9 else self.simple()
                its[i] = ("default", sub, s, v)
        if allow_splat and r.random() < 0.38:
            x = r.random()
            sub = ("name", self.fresh()) if x < 0.8 else (("wild",) if x < 0.9 else ("ann", ("name", self.fresh()), ("b", r.choice(["list", "list", "anything", "int"]))))
            its.insert(r.randint(0, len(its)), ("splat", sub))
        return its

    def wide(self):
        """a sequence pattern with 7..12 simple items, usually with trailing defaults (arity-dependent paths of
        the matcher: preallocation, early length checks)"""
        r = self.r
        n = r.randint(7, 12)
        its = [self.simple() if r.random() < 0.85 else self.atom() for _ in range(n)]
        if r.random() < 0.75:
            for i in range(n - r.randint(1, 3), n):
                s, v = r.choice(DEFAULTS)
                its[i] = ("default", self.simple(), s, v)
        if r.random() < 0.2:
            its.insert(r.randint(0, len(its)), ("splat", ("name", self.fresh())))
        return ("seq", its, r.random() < 0.5)

    def pat(self, d):
        r = self.r
        if d <= 0:
            return self.atom()
        if r.random() < 0.035:
            return self.wide()
        x = r.random()
        if x < 0.22:
            return self.atom()
        if x < 0.50:
            delim = r.random() < 0.5
            its = self.items(d, 0 if delim else 1, 4)
            return ("seq", its, delim)
        if x < 0.58:
            return self.orpat(d)
        if x < 0.64:
            a = self.pat(d - 1)
            b = self.pat(d - 1)
            return ("and", a, b)
        if x < 0.78:
            return self.ann(d)
        if x < 0.84:
            sn = r.choice(["Foo", "Foo", "Bar"])
            ar = STRUCTS[sn]
            if r.random() < 0.75:
                its = self.items(d, ar, ar, allow_splat=False, allow_default=False)
            else:
                its = self.items(d, max(0, ar - 1), ar + 1)
            return ("struct", sn, its)
        return self.op(d)

    def ann(self, d):
        r = self.r
        x = r.random()
        if x < 0.5:
            sub = self.simple()
        elif x < 0.8 and d > 1:
            sub = ("seq", self.items(d, 0, 3), True)
        elif x < 0.9:
            sub = ("seq", [self.simple() for _ in range(r.randint(1, 3))], False)
        else:
            sub = self.simple()
        return ("ann", sub, self.typ())

    def orpat(self, d):
        r = self.r
        a = self.pat(d - 1)
        k0 = self.k
        b = self.pat(d - 1)
        # let the second alternative reuse names of the first one (the usual way `or` is written)
        na = names_of(a)
        nb = [n for n in names_of(b) if int(n[1:]) > k0]
        if na and nb and r.random() < 0.7:
            ren = {}
            cand = list(na)
            r.shuffle(cand)
            for n in nb:
                if cand and r.random() < 0.7:
                    ren[n] = cand.pop()
            b = rename(b, ren)
        return ("or", a, b)

    def op(self, d):
        r = self.r
        k = r.choice(["cons", "snoc", "plus", "mul", "neg", "div", "cmp", "cons", "snoc"] if self.lits else ["cons", "snoc", "neg", "div"])
        sub = lambda: self.pat(d - 1) if r.random() < 0.5 else self.simple()
        if k in ("cons", "snoc"):
            return (k, sub(), sub())
        if k == "plus":
            return ("plus", self.simple(), r.choice([0, 1, 1, 2, 5]), r.choice(["nk", "kn"]))
        if k == "mul":
            return ("mul", self.simple(), r.choice([1, 2, 2, 3, 10, 0]), r.choice(["ak", "ka"]))
        if k == "neg":
            return ("neg", self.simple())
        if k == "div":
            return ("div", self.simple(), self.simple())
        slot = self.simple()
        lo, hi = sorted(r.sample(range(0, 13), 2))      # negative bounds are not literals (they parse as -(k))
        form = r.choice(["lo<x<hi", "lo<x", "x<hi", "hi>x>lo", "x>lo"])
        o1, o2 = r.choice(["<", "<="]), r.choice(["<", "<="])
        g = {"<": ">", "<=": ">="}
        if form == "lo<x<hi":
            return ("cmp", [lo, slot, hi], [o1, o2])
        if form == "lo<x":
            return ("cmp", [lo, slot], [o1])
        if form == "x<hi":
            return ("cmp", [slot, hi], [o1])
        if form == "hi>x>lo":
            return ("cmp", [hi, slot, lo], [g[o1], g[o2]])
        return ("cmp", [slot, lo], [g[o1]])


def children(p):
    k = p[0]
    if k in ("seq",):
        return [it[1] if it[0] in ("splat", "default") else it for it in p[1]]
    if k == "struct":
        return [it[1] if it[0] in ("splat", "default") else it for it in p[2]]
    if k in ("or", "and", "cons", "snoc", "div"):
        return [p[1], p[2]]
    if k in ("ann", "plus", "mul", "neg"):
        return [p[1]]
    if k == "cmp":
        return [o for o in p[1] if isinstance(o, tuple)]
    return []


def names_of(p, acc=None):
    acc = [] if acc is None else acc
    if p[0] == "name":
        if p[1] not in acc:
            acc.append(p[1])
    for c in children(p):
        names_of(c, acc)
    return acc


def rename(p, ren):
    k = p[0]
    f = lambda q: rename(q, ren)
    fi = lambda it: ("splat", f(it[1])) if it[0] == "splat" else (("default", f(it[1]), it[2], it[3]) if it[0] == "default" else f(it))
    if k == "name":
        return ("name", ren.get(p[1], p[1]))
    if k == "seq":
        return ("seq", [fi(it) for it in p[1]], p[2])
    if k == "struct":
        return ("struct", p[1], [fi(it) for it in p[2]])
    if k in ("or", "and", "cons", "snoc", "div"):
        return (k, f(p[1]), f(p[2]))
    if k == "ann":
        return ("ann", f(p[1]), p[2])
    if k in ("plus", "mul"):
        return (k, f(p[1]), p[2], p[3])
    if k == "neg":
        return ("neg", f(p[1]))
    if k == "cmp":
        return ("cmp", [f(o) if isinstance(o, tuple) else o for o in p[1]], p[2])
    return p


def has_kind(p, kinds):
    return p[0] in kinds or any(has_kind(c, kinds) for c in children(p))


def has_literal(p):
    return has_kind(p, {"lit", "neglit", "literally", "plus", "mul", "cmp"})


def dup_names_in_alt(p):
    """True if some name occurs twice on one matching path (only `or` alternatives may share names)."""
    def walk(q):
        # returns list of names bound on the (union of) paths, raising on duplicates within a path
        k = q[0]
        if k == "name":
            return [q[1]]
        if k == "or":
            a, b = walk(q[1]), walk(q[2])
            return list(dict.fromkeys(a + b))
        out = []
        for c in children(q):
            for n in walk(c):
                if n in out:
                    raise ValueError(n)
                out.append(n)
        return out
    try:
        walk(p)
        return False
    except ValueError:
        return True


def annotated_names(p, under=False, acc=None):
    """(names under some annotation, names not under any annotation)"""
    acc = acc if acc is not None else (set(), set())
    if p[0] == "name":
        acc[0 if under else 1].add(p[1])
    for c in children(p):
        annotated_names(c, under or p[0] == "ann", acc)
    return acc


def tsrc(T):
    if T[0] == "b":
        return T[1]
    if T[0] == "s":
        return T[1]
    if T[0] == "sat":
        return "satisfying(%s)" % T[1]
    if T[0] == "cmp19":
        return "satisfying(1 < _ < 9)"
    return ""


def ritem(it):
    if it[0] == "splat":
        return "..." + rp(it[1])
    if it[0] == "default":
        return "(%s = %s)" % (rp(it[1]), it[2])
    return rp(it)


def ritem_bare(it):
    """item of an undelimited top-level sequence: an annotated splat is written `...name: T` (the
    annotation belongs to the splat itself), everything else as in ritem"""
    if it[0] == "splat" and it[1][0] == "ann" and it[1][1][0] in ("name", "wild") and it[1][2] != ANY:
        return "...%s: %s" % (rp(it[1][1]), tsrc(it[1][2]))
    return ritem(it)


def rp(p):
    """operand-safe rendering"""
    k = p[0]
    if k == "name":
        return p[1]
    if k == "wild":
        return "_"
    if k == "lit":
        v = p[1]
        return "null" if v is None else (src_str(v) if isinstance(v, str) else str(v))
    if k == "neglit":
        return "(-%d)" % p[1]
    if k == "literally":
        return "(literally %s)" % p[1]
    if k == "seq":
        its = [ritem(it) for it in p[1]]
        if p[2]:
            return "[%s]" % ", ".join(its)
        return "(%s,)" % its[0] if len(its) == 1 else "(%s)" % ", ".join(its)
    if k == "struct":
        return "%s(%s)" % (p[1], ", ".join(ritem(it) for it in p[2]))
    if k in ("or", "and"):
        return "(%s %s %s)" % (rp(p[1]), k, rp(p[2]))
    if k == "ann":
        return "(%s: %s)" % (rp(p[1]), tsrc(p[2])) if p[2] != ANY else "(%s:)" % rp(p[1])
    if k == "cons":
        return "(%s .+ %s)" % (rp(p[1]), rp(p[2]))
    if k == "snoc":
        return "(%s +. %s)" % (rp(p[1]), rp(p[2]))
    if k == "plus":
        return "(%s + %d)" % (rp(p[1]), p[2]) if p[3] == "nk" else "(%d + %s)" % (p[2], rp(p[1]))
    if k == "mul":
        return "(%s * %d)" % (rp(p[1]), p[2]) if p[3] == "ak" else "(%d * %s)" % (p[2], rp(p[1]))
    if k == "neg":
        return "(-%s)" % rp(p[1])
    if k == "div":
        return "(%s / %s)" % (rp(p[1]), rp(p[2]))
    if k == "cmp":
        out = []
        for i, o in enumerate(p[1]):
            out.append(rp(o) if isinstance(o, tuple) else ("(-%d)" % -o if o < 0 else str(o)))
            if i < len(p[2]):
                out.append(p[2][i])
        return "(%s)" % " ".join(out)
    raise KeyError(k)


def rbare(p):
    """rendering for a position that takes an `annotated pattern` (switch arm, catch, for, LHS of :=):
    the outer parentheses of sequences / operators / annotations are not needed there"""
    k = p[0]
    if k == "seq" and not p[2]:
        its = [ritem(it) for it in p[1]]
        return its[0] + "," if len(its) == 1 else ", ".join(its)
    if k in ("cons", "snoc", "plus", "mul", "div", "cmp", "neglit", "literally", "neg"):
        return rp(p)[1:-1]
    if k == "ann":
        sub = p[1]
        s = rbare(sub) if sub[0] == "seq" and not sub[2] and len(sub[1]) > 1 else rp(sub)
        return "%s: %s" % (s, tsrc(p[2]))
    return rp(p)


def skeleton(p):
    k = p[0]
    sk = skeleton
    si = lambda it: "..." + sk(it[1]) if it[0] == "splat" else ("(%s=D)" % sk(it[1]) if it[0] == "default" else sk(it))
    if k == "name":
        return "n"
    if k == "wild":
        return "_"
    if k == "lit":
        return "null" if p[1] is None else ("S" if isinstance(p[1], str) else "L")
    if k == "neglit":
        return "-L"
    if k == "literally":
        return "lit(%s)" % p[1]
    if k == "seq":
        its = ",".join(si(it) for it in p[1])
        return "[%s]" % its if p[2] else "(%s,)" % its
    if k == "struct":
        return "%s(%s)" % (p[1], ",".join(si(it) for it in p[2]))
    if k in ("or", "and"):
        return "(%s %s %s)" % (sk(p[1]), k, sk(p[2]))
    if k == "ann":
        return "(%s:%s)" % (sk(p[1]), tsrc(p[2]))
    if k in ("cons", "snoc", "div"):
        return "(%s%s%s)" % (sk(p[1]), {"cons": ".+", "snoc": "+.", "div": "/"}[k], sk(p[2]))
    if k in ("plus", "mul"):
        o = "+" if k == "plus" else "*"
        return "(%s%sL)" % (sk(p[1]), o) if p[3][0] in "na" else "(L%s%s)" % (o, sk(p[1]))
    if k == "neg":
        return "(-%s)" % sk(p[1])
    if k == "cmp":
        return "(cmp %s)" % "".join(p[2])
    return k


# ---------------------------------------------------------------- reference matcher

class NoMatch(Exception):
    pass


class Either(Exception):
    """the statement does not say whether this binds: both outcomes are accepted"""


class Skip(Exception):
    """the reference cannot predict (e.g. dict iteration order)"""


# Named deviations from the statement that the reference can emulate.  They are used ONLY to give a violation a
# stable root-cause key ("the observation is exactly what the statement predicts plus this one deviation");
# the verdict itself always comes from the reference with no deviation switched on.
#   0  a failed `or` alternative keeps the names it had already declared, so the next alternative cannot declare them
#   1  `rational` as an annotation accepts no value (is_type has no rational arm)
#   2  `a, (b = d) := v` (undelimited, directly under := or `: T =`) does not see the default
#   3  the length test of a sequence pattern uses the UTF-8 byte count of a string, the items are its characters
#   4  the length test uses what the stream's len() reports (0 for negative-step ranges, "infinite" for stream(list))
QUIRKS = ["or-keeps-bindings-of-failed-alternative", "rational-annotation-rejects-rationals",
          "default-ignored-in-bare-declaration", "string-arity-counts-utf8-bytes", "stream-arity-from-reported-len"]


class Matcher:
    def __init__(self, eq, quirks=()):
        self.eq = eq
        self.q = set(quirks)
        self.bound = {}
        self.declared = set()
        self.bare_decl_top = None      # the top-level undelimited sequence of a bare `a, b := v`

    # -- types
    def is_t(self, v, T):
        if T == ANY:
            return True
        if T[0] == "b":
            if T[1] == "rational" and QUIRKS[1] in self.q:
                return False
            return T[1] in classes(v)
        if T[0] == "s":
            return isinstance(v, Inst) and v.name == T[1]
        if T[0] == "sat":
            return bool(PREDS[T[1]][1](v))
        if T[0] == "cmp19":
            return self.cmp_ok([1, v, 9], ["<", "<"])
        raise KeyError(T)

    def cmp_ok(self, vals, ops):
        for x in vals:
            if isinstance(x, complex) or is_nan(x):
                raise Either()
            if not is_real(x):
                return False         # the comparison raises -> not true
        for i, o in enumerate(ops):
            a, b = vals[i], vals[i + 1]
            ok = a < b if o == "<" else a <= b if o == "<=" else a > b if o == ">" else a >= b
            if not ok:
                return False
        return True

    # -- binding
    def bind(self, name, v, T):
        if T is not None:
            if name in self.declared:
                if QUIRKS[0] in self.q:
                    raise NoMatch()
                raise Skip()
            if not self.is_t(v, T):
                raise NoMatch()
            self.declared.add(name)
        self.bound[name] = v

    def items_of(self, v):
        if isinstance(v, Stm):
            if v.elems is None:
                raise NoMatch()           # "can't unpack from infinite sequence"
            return list(v.elems)
        if isinstance(v, Opaque) or isinstance(v, Inst) or v is None or is_num(v):
            raise NoMatch()
        if isinstance(v, str):
            return list(v)
        if isinstance(v, (bytes, bytearray)):
            return list(v)
        if isinstance(v, list):
            return list(v)
        if isinstance(v, NDict):
            if len(v.m) >= 2:
                raise Skip()              # iteration order of dict keys is not defined
            return [k for k, _ in v.m.values()]
        raise NoMatch()

    def mseq(self, items, vals, T, arity=None, ignore_defaults=False):
        """sequence rule: equal length, except that one splat absorbs the middle and that missing trailing
        items are filled from their defaults"""
        n = len(items)
        splats = [i for i, it in enumerate(items) if it[0] == "splat"]
        if len(splats) > 1:
            raise Skip()
        nonsplat = [it for it in items if it[0] != "splat"]
        m_ = len(nonsplat)
        L = len(vals) if arity is None else arity
        vals = list(vals)
        if arity is not None:
            # emulation of deviations 3/4 only (never used for a verdict): defaults are chosen from a length that is
            # not the number of items: a default is used when its position is >= that length, a plain item may not
            # follow a used default, the values are then distributed by position
            used, j = [], 0
            for it in nonsplat:
                if it[0] == "default":
                    if arity <= j and not ignore_defaults:
                        used.append(it[3])
                elif used:
                    raise NoMatch()
                j += 1
            vals = vals + used
            if not splats and n != arity + len(used):
                raise NoMatch()
        elif L < m_:
            missing = nonsplat[L:]
            if ignore_defaults or any(it[0] != "default" for it in missing):
                raise NoMatch()
            vals = vals + [it[3] for it in missing]
        if splats:
            s = splats[0]
            if len(vals) < n - 1:
                raise NoMatch()
            after = n - s - 1
            parts = vals[:s] + [list(vals[s:len(vals) - after])] + vals[len(vals) - after:]
        else:
            if len(vals) != n:
                raise NoMatch()
            parts = vals
        for it, x in zip(items, parts):
            self.m(it[1] if it[0] in ("splat", "default") else it, x, T)

    def m(self, p, v, T):
        k = p[0]
        if k == "name":
            return self.bind(p[1], v, T)
        if k == "wild":
            if T is not None and not self.is_t(v, T):
                raise NoMatch()
            return
        if k == "lit":
            if not self.eq(p[1], v):
                raise NoMatch()
            return
        if k == "neglit":                 # `-k` matches the values v with -v == k
            if not is_num(v) or not self.eq(p[1], -v):
                raise NoMatch()
            return
        if k == "literally":
            if not self.eq(p[2], v):
                raise NoMatch()
            return
        if k == "ann":
            return self.m(p[1], v, p[2])
        if k == "seq":
            if p[2] and T is not None:
                if not self.is_t(v, T):
                    raise NoMatch()
                T = ANY
            vals = self.items_of(v)
            arity = None
            if isinstance(v, str) and QUIRKS[3] in self.q:
                arity = len(v.encode("utf-8"))
            if isinstance(v, Stm) and QUIRKS[4] in self.q:
                if v.replen is None:
                    raise NoMatch()
                arity = v.replen
            return self.mseq(p[1], vals, T, arity=arity,
                             ignore_defaults=(p is self.bare_decl_top and QUIRKS[2] in self.q))
        if k == "struct":
            if not (isinstance(v, Inst) and v.name == p[1]):
                raise NoMatch()
            return self.mseq(p[2], list(v.fields), T)
        if k == "or":
            snap = (dict(self.bound), set(self.declared))
            try:
                return self.m(p[1], v, T)
            except NoMatch:
                if QUIRKS[0] not in self.q:
                    self.bound, self.declared = snap
            return self.m(p[2], v, T)
        if k == "and":
            self.m(p[1], v, T)
            return self.m(p[2], v, T)
        if k in ("cons", "snoc"):
            if isinstance(v, (str, NDict, Stm)):
                raise Either()
            if isinstance(v, Vec):
                if not v:
                    raise NoMatch()
                parts = [v[0], Vec(v[1:])] if k == "cons" else [Vec(v[:-1]), v[-1]]
            elif isinstance(v, list):
                if not v:
                    raise NoMatch()
                parts = [v[0], list(v[1:])] if k == "cons" else [list(v[:-1]), v[-1]]
            elif isinstance(v, (bytes, bytearray)):
                if not v:
                    raise NoMatch()
                parts = [v[0], bytes(v[1:])] if k == "cons" else [bytes(v[:-1]), v[-1]]
            else:
                raise NoMatch()
            return self.mseq([p[1], p[2]], parts, T)
        if k == "plus":
            if isinstance(v, Vec) or isinstance(v, complex) or is_nan(v):
                raise Either()
            if not is_real(v):
                raise NoMatch()
            if isinstance(v, float) and math.isinf(v):
                raise Either()
            d = v - p[2]
            if not d >= 0:
                raise Either()            # n + k on v < k: the statement only says "inverts +"
            return self.m(p[1], d, T)
        if k == "mul":
            if isinstance(v, Vec) or (is_num(v) and not isinstance(v, int)):
                raise Either()
            if not isinstance(v, int):
                raise NoMatch()
            if p[2] == 0:
                raise NoMatch()          # a zero factor cannot be inverted: the pattern never matches
            if v % p[2] != 0:
                raise Either()
            return self.m(p[1], v // p[2], T)
        if k == "neg":
            if isinstance(v, Vec):
                return self.m(p[1], Vec([-x for x in v]), T)
            if not is_num(v):
                raise NoMatch()
            return self.m(p[1], -v, T)
        if k == "div":
            if isinstance(v, Fraction):
                return self.mseq([p[1], p[2]], [v.numerator, v.denominator], T)
            if is_num(v) or isinstance(v, Vec):
                raise Either()
            raise NoMatch()
        if k == "cmp":
            vals = [v if isinstance(o, tuple) else o for o in p[1]]
            if not self.cmp_ok(vals, p[2]):
                raise NoMatch()
            slot = [o for o in p[1] if isinstance(o, tuple)][0]
            return self.m(slot, v, T)
        raise KeyError(k)


TRUSTED = (int, Fraction, float, str, bytes)


def trusted_eq_value(v):
    if v is None:
        return True
    if isinstance(v, bool) or isinstance(v, (Vec, NDict, Inst, Opaque, complex)):
        return False
    if isinstance(v, float):
        return v == v
    if isinstance(v, TRUSTED):
        return True
    if isinstance(v, list):
        return all(trusted_eq_value(x) for x in v)
    return False


def py_eq(a, b):
    if a is None or b is None:
        return a is None and b is None
    if is_real(a) and is_real(b):
        return a == b
    if isinstance(a, str) and isinstance(b, str):
        return a == b
    if isinstance(a, bytes) and isinstance(b, bytes):
        return a == b
    if isinstance(a, list) and isinstance(b, list):
        return len(a) == len(b) and all(py_eq(x, y) for x, y in zip(a, b))
    return False


class EqOracle:
    """`==` for literal patterns: exact Python equality on plain data, the interpreter's own == otherwise."""
    def __init__(self, sh):
        self.sh = sh
        self.w = None
        self.cache = {}

    def __call__(self, a, b):
        if trusted_eq_value(a) and trusted_eq_value(b):
            return py_eq(a, b)
        text = "%s == %s" % (vsrc(a), vsrc(b))
        if text not in self.cache:
            if self.w is None:
                self.w = core.Worker()
            ev = core.eval_all(self.w, [text], prelude=PRELUDE, fresh_each=True, child_each=True, rebase_every=1000000, fuel=200000)[0]
            self.sh.count("eq-asked-interpreter")
            if ev.get("o") == "ok":
                self.cache[text] = norm(ev.get("v")) == {"i": "1"}
            else:
                self.cache[text] = None
        r = self.cache[text]
        if r is None:
            raise Skip()
        return r

    def close(self):
        if self.w is not None:
            self.w.close()


# ---------------------------------------------------------------- value generation

class Values:
    def __init__(self, r, table):
        self.r = r
        self.table = table
        self.names = sorted(table)
        self.bytype = {}
        for n in self.names:
            for c in classes(table[n]):
                self.bytype.setdefault(c, []).append(table[n])

    def atom(self):
        r = self.r
        x = r.random()
        if x < 0.40:
            return self.table[r.choice(self.names)]
        if x < 0.65:
            return r.choice([0, 1, 2, 3, 5, 7, 12, -1, -5, 255, 2 ** 64, 4, 6, 10])
        if x < 0.78:
            return r.choice(["a", "", "ab", "abc", "hé", "d"])
        if x < 0.84:
            return r.choice([Fraction(1, 2), Fraction(-3, 4), Fraction(3, 1), Fraction(7, 2)])
        if x < 0.90:
            return r.choice([2.5, 1.0, 5.0, -0.0, 0.5])
        if x < 0.93:
            return None
        if x < 0.96:
            return r.choice([b"", b"\x01", b"\x01\x02", Vec([1, 2]), Vec([]), Vec([Fraction(1, 2), 2.0, 3])])
        return r.choice([NDict(), NDict([(1, 2)]), NDict([("a", [1])]), NDict([(1, 2), (3, 4)])])

    def value(self, d=2):
        r = self.r
        if d <= 0 or r.random() < 0.5:
            return self.atom()
        x = r.random()
        if x < 0.75:
            return [self.value(d - 1) for _ in range(r.randint(0, 4))]
        if x < 0.88:
            return Inst("Foo", [self.value(d - 1), self.value(d - 1)])
        if x < 0.94:
            return Inst("Bar", [self.value(d - 1)])
        return self.atom()

    def num(self):
        return self.r.choice([0, 1, 2, 3, 5, 7, 12, -1, -5, 255, 2 ** 64, Fraction(1, 2), Fraction(7, 2), 2.5, 6, 10, 20])

    def of_type(self, T):
        r = self.r
        if T == ANY:
            return self.value()
        if T[0] == "b":
            if T[1] == "list" and r.random() < 0.6:
                return [self.value(1) for _ in range(r.randint(0, 3))]
            if T[1] == "int" and r.random() < 0.6:
                return r.choice([0, 1, 5, -3, 2 ** 70, 12])
            return r.choice(self.bytype[T[1]])
        if T[0] == "s":
            return Inst(T[1], [self.value(1) for _ in range(STRUCTS[T[1]])])
        if T[0] == "sat":
            return {"p_big": lambda: r.randint(0, 12), "p_pair": lambda: [self.value(1), self.value(1)],
                    "p_str": lambda: r.choice(["a", "xy", ""]), "p_true": self.value, "p_false": self.value,
                    "p_pi": lambda: [r.randint(0, 9), self.value(1)]}[T[1]]()
        if T[0] == "cmp19":
            return r.choice([0, 1, 2, 5, 8, 9, 10, 2.5, Fraction(7, 2), "a"])
        return self.value()

    def seq_for(self, items, exact=None):
        r = self.r
        nonsplat = [it for it in items if it[0] != "splat"]
        trailing = 0
        for it in reversed(nonsplat):
            if it[0] == "default":
                trailing += 1
            else:
                break
        drop = r.randint(1, trailing) if trailing and r.random() < 0.5 else 0
        out = []
        if drop:
            for it in nonsplat[:len(nonsplat) - drop]:
                out.append(self.for_pat(it[1] if it[0] == "default" else it))
            return out
        for it in items:
            if it[0] == "splat":
                out.extend(self.value(1) for _ in range(r.randint(0, 3)))
            elif it[0] == "default":
                out.append(self.for_pat(it[1]))
            else:
                out.append(self.for_pat(it))
        return out

    def container(self, vals):
        r = self.r
        x = r.random()
        if x < 0.80 or not vals:
            return vals if x < 0.93 else r.choice(["", b"", Vec([])])
        if all(isinstance(v, str) and len(v) == 1 for v in vals):
            return "".join(vals)
        if all(isinstance(v, int) and 0 <= v < 256 for v in vals) and x < 0.9:
            return bytes(vals)
        if all(is_num(v) for v in vals):
            return Vec(vals)
        return vals

    def for_pat(self, p):
        """a value that is likely to match p"""
        r = self.r
        k = p[0]
        if k in ("name", "wild"):
            return self.value(1)
        if k == "lit":
            v = p[1]
            if isinstance(v, int) and r.random() < 0.15:
                return r.choice([float(v), Fraction(v, 1)]) if abs(v) < 2 ** 53 else v
            return v
        if k == "neglit":
            return -p[1] if r.random() < 0.9 else float(-p[1])
        if k == "literally":
            v = p[2]
            if isinstance(v, Fraction) and r.random() < 0.3:
                return float(v)
            return v
        if k == "seq":
            return self.container(self.seq_for(p[1]))
        if k == "struct":
            vals = self.seq_for(p[2])
            ar = STRUCTS[p[1]]
            while len(vals) < ar:
                vals.append(self.value(1))
            return Inst(p[1], vals[:ar])
        if k in ("or", "and"):
            return self.for_pat(p[1] if r.random() < 0.5 else p[2])
        if k == "ann":
            if p[1][0] == "seq" and r.random() < 0.6:
                return self.for_pat(p[1])
            return self.of_type(p[2])
        if k in ("cons", "snoc"):
            hp, tp = (p[1], p[2]) if k == "cons" else (p[2], p[1])
            t = self.for_pat(tp)
            h = self.for_pat(hp)
            if isinstance(t, Vec) and is_num(h):
                return Vec([h] + list(t)) if k == "cons" else Vec(list(t) + [h])
            if isinstance(t, (bytes, bytearray)) and isinstance(h, int) and 0 <= h < 256:
                return bytes([h]) + bytes(t) if k == "cons" else bytes(t) + bytes([h])
            if not isinstance(t, list) or isinstance(t, Vec):
                t = [self.value(1) for _ in range(r.randint(0, 2))]
            return [h] + t if k == "cons" else t + [h]
        if k == "plus":
            n = self.for_pat(p[1])
            if not is_real(n) or is_nan(n) or n < 0:
                n = r.randint(0, 20)
            return n + p[2]
        if k == "mul":
            n = self.for_pat(p[1])
            if not isinstance(n, int):
                n = r.randint(-5, 20)
            return n * p[2] + (0 if r.random() < 0.85 else 1)
        if k == "neg":
            x = r.random()
            return self.num() if x < 0.9 else Vec([1, -2])
        if k == "div":
            return r.choice([Fraction(1, 2), Fraction(-3, 4), Fraction(7, 2), Fraction(3, 1), Fraction(2 ** 70, 3), 6])
        if k == "cmp":
            return r.choice([r.randint(-3, 13), r.randint(-3, 13), 2.5, Fraction(7, 2), 5.0])
        return self.value(1)

    def perturb(self, v):
        r = self.r
        x = r.random()
        if x < 0.35:
            return self.value(2)
        if isinstance(v, list) and not isinstance(v, Vec):
            v = list(v)
            if v and x < 0.55:
                v.pop(r.randrange(len(v)))
            elif x < 0.75:
                v.insert(r.randint(0, len(v)), self.value(1))
            elif v:
                i = r.randrange(len(v))
                v[i] = self.perturb(v[i]) if r.random() < 0.5 else self.value(1)
            return v
        if isinstance(v, Inst):
            f = list(v.fields)
            if f:
                i = r.randrange(len(f))
                f[i] = self.perturb(f[i])
            return Inst(v.name if x < 0.8 else r.choice(["Foo", "Bar"]), f if x < 0.8 else [self.value(1) for _ in range(STRUCTS["Foo"])][:2])
        if isinstance(v, int):
            return v + r.choice([-1, 1, 2]) if x < 0.7 else self.atom()
        return self.atom()


# ---------------------------------------------------------------- (a) cases

CTXS = ["declare", "declare", "assign", "lambda1", "lambdaN", "for", "switch", "switch", "catch"]


def res_expr(names, guarded, head=None):
    parts = [] if head is None else [str(head)]
    for n in names:
        parts.append('(try %s catch _ -> "%s")' % (n, UNB) if guarded else n)
    return "[%s]" % ", ".join(parts)


def make_case(r, vals, ctx):
    """-> dict(ctx, pats, value, text, names, mode ...) or None"""
    lits = ctx not in ("lambda1", "lambdaN", "for")
    g = Gen(r, lits=lits)
    depth = r.choice([1, 2, 2, 3, 3])
    narms = r.randint(1, 4) if ctx == "switch" else 1
    pats = []
    for _ in range(narms):
        for _try in range(20):
            if ctx == "lambdaN":
                p = ("seq", g.items(depth, 1, 4), False)
            else:
                p = g.pat(depth)
            if dup_names_in_alt(p) or (not lits and has_literal(p)):
                continue
            break
        else:
            return None
        pats.append(p)
    # the value: built for one of the patterns, perturbed sometimes; or anything at all
    x = r.random()
    if x < 0.72:
        v = vals.for_pat(r.choice(pats))
        if r.random() < 0.3:
            v = vals.perturb(v)
    else:
        v = vals.value(2)
    return render_case(r, ctx, pats, v)


def render_case(r, ctx, pats, v, bare=None):
    """statement text for binding value v to the pattern(s) in the given context"""
    coin = (lambda p_: r.random() < p_) if bare is None else (lambda p_: bare)
    if ctx == "lambdaN" and isinstance(v, Stm) and v.elems is None:
        return None                           # spreading an infinite stream into a call never returns
    vs = vsrc(v)
    if r.random() < 0.2:
        vs = vsrc_big(v) or vs
    p = pats[0]
    guarded = any(has_kind(q, {"or"}) for q in pats)
    names = names_of(p)
    case = {"ctx": ctx, "pats": pats, "value": v, "bare": False, "form": ctx}
    if ctx == "declare":
        bare = coin(0.7)
        case["bare"] = bare
        if p[0] == "ann" and bare:
            text = "%s = %s" % (rbare(p), vs) if p[2] != ANY else "%s := %s" % (rp(p[1]), vs)
            case["form"] = "declare-annotated"
        else:
            text = "%s := %s" % (rbare(p) if bare else rp(p), vs)
        case["observe"] = True
    elif ctx == "assign":
        if p[0] in ("neg", "neglit"):
            return None                       # `-x = v` parses as an operator-assignment
        under, plain = annotated_names(p)
        if under & plain:
            return None
        bare = coin(0.5) and p[0] == "seq" and not p[2]
        case["bare"] = bare
        if bare and p[1] and p[1][0][0] == "neg":
            return None
        pre = "".join('%s := "%s"; ' % (n, PRE0) for n in names if n in plain)
        text = "%s%s = %s" % (pre, rbare(p) if bare else rp(p), vs)
        case["observe"] = True
    elif ctx == "lambda1":
        text = "(\\%s -> %s)(%s)" % (rp(p), res_expr(names, guarded), vs)
    elif ctx == "lambdaN":
        params = []
        for it in p[1]:
            if it[0] == "default":
                params.append("%s = %s" % (rp(it[1]), it[2]))
            elif it[0] == "splat":
                # in a parameter list `...name: T` annotates the splat itself
                params.append(ritem_bare(it) if r.random() < 0.7 else "..." + rp(it[1]))
            elif it[0] == "ann" and r.random() < 0.5 and it[2] != ANY:
                params.append(rbare(it) if not (it[1][0] == "seq" and not it[1][2]) else rp(it))
            else:
                params.append(rp(it))
        text = "(\\%s -> %s)(...%s)" % (", ".join(params), res_expr(names, guarded), vs)
    elif ctx == "for":
        bare = coin(0.5)
        if r.random() < 0.7:
            text = "for (%s <- [%s]) yield %s" % (rbare(p) if bare else rp(p), vs, res_expr(names, guarded))
        else:
            if bare and p[0] == "ann":
                bare = False
            text = "for (%s := %s) yield %s" % (rbare(p) if bare else rp(p), vs, res_expr(names, guarded))
            case["form"] = "for-declare"
        case["bare"] = bare
    elif ctx == "switch":
        arms = []
        for i, q in enumerate(pats):
            bare = coin(0.5)
            arms.append("case %s -> %s" % (rbare(q) if bare else rp(q), res_expr(names_of(q), guarded, head=i)))
        text = "switch (%s) %s" % (vs, " ".join(arms))
        if r.random() < 0.3:
            # the same switch inside a frozen function: the freeze pass rewrites the arms' patterns and bodies
            # (it resolves names and analyses arm reachability) and must not change which arm runs
            text = "(freeze \\sv__ -> switch (sv__) %s)(%s)" % (" ".join(arms), vs)
            case["form"] = "switch-frozen"
    elif ctx == "catch":
        bare = coin(0.5)
        text = "try (throw %s) catch %s -> %s" % (vs, rbare(p) if bare else rp(p), res_expr(names, guarded))
    else:
        raise KeyError(ctx)
    case["text"] = text
    case["names"] = names
    case["guarded"] = guarded
    return case


def predict(case, eq, quirks=()):
    """-> ("match", bindings, arm) | ("nomatch",) | ("either",) | ("skip",)"""
    ctx, v = case["ctx"], case["value"]
    for i, p in enumerate(case["pats"]):
        mt = Matcher(eq, quirks)
        try:
            if ctx == "assign":
                mt.m(p, v, None)
            elif ctx == "lambdaN":
                if isinstance(v, Stm) and v.elems is None:
                    raise Skip()
                mt.mseq(p[1], mt.items_of(v), ANY)
            else:
                if (ctx == "declare" or case["form"] == "for-declare") and case["bare"] and p[0] == "seq" and not p[2]:
                    mt.bare_decl_top = p
                if ctx == "declare" and case["bare"] and p[0] == "ann" and p[1][0] == "seq" and not p[1][2]:
                    mt.bare_decl_top = p[1]
                mt.m(p, v, ANY)
            return ("match", mt.bound, i)
        except NoMatch:
            continue
        except Either:
            return ("either",)
        except Skip:
            return ("skip",)
    return ("nomatch",)


def observed_of(case, ev):
    """-> ("raise",) | ("match", {name: canon or UNB}, arm) | None (not decidable)"""
    o = ev.get("o")
    if o == "throw":
        return ("raise",)
    if o != "ok":
        return None
    if case.get("observe"):
        out = {}
        for n in case["names"]:
            c = (ev.get("vars") or {}).get(n)
            if c is None and n not in (ev.get("vars") or {}):
                out[n] = UNB
            elif isinstance(c, dict) and (c.get("absent") or c.get("borrowed")):
                out[n] = UNB
            else:
                out[n] = norm(c)
                if out[n] == {"s": PRE0}:
                    out[n] = UNB
        return ("match", out, 0)
    v = ev.get("v")
    try:
        if case["form"] == "for":
            v = v["l"][0]
        elif case["form"] == "for-declare":
            v = v["l"][0]
        lst = v["l"]
        arm = 0
        names = case["names"]
        if case["ctx"] == "switch":
            arm = int(lst[0]["i"])
            lst = lst[1:]
            names = names_of(case["pats"][arm])
        out = {}
        for n, c in zip(names, lst):
            c = norm(c)
            out[n] = UNB if c == {"s": UNB} else c
        return ("match", out, arm)
    except Exception:
        return None


def consistent(pred, obs):
    if pred[0] in ("either", "skip"):
        return True
    if pred[0] == "nomatch":
        return obs[0] == "raise"
    if obs[0] != "match":
        return False
    if pred[2] != obs[2]:
        return False
    for n, v in pred[1].items():
        if obs[1].get(n) != vcanon(v):
            return False
    return True


def disagreement(pred, obs):
    if pred[0] == "nomatch":
        return "should-raise-but-bound"
    if obs[0] == "raise":
        return "should-bind-but-raised"
    if pred[2] != obs[2]:
        return "wrong-arm"
    return "wrong-binding"


def fixed_cases(table):
    """Inputs every run contains (so that each corner family is exercised at every seed); judged by the same
    reference matcher as the random cases."""
    import random
    r = random.Random(0)
    N = lambda i: ("name", "n%d" % i)
    half = Fraction(1, 2)
    out = []
    spec = [
        ("declare", [("seq", [N(1), N(2)], False)], "hé", True),
        ("declare", [("seq", [N(1), N(2)], True)], "hé", False),
        ("switch", [("seq", [N(1), N(2), N(3)], True), ("wild",)], table["xs_jp"], False),
        ("lambda1", [("seq", [N(1), ("splat", N(2))], False)], "日本", False),
        ("for", [("seq", [N(1), N(2)], False)], table["xs_he"], True),
        ("catch", [("seq", [N(1)], True)], "é", False),
        ("declare", [("seq", [N(1), N(2), N(3)], False)], table["r51"], True),
        ("switch", [("seq", [N(1), N(2), N(3)], True), ("wild",)], table["r51"], False),
        ("declare", [("seq", [N(1), N(2)], False)], table["xwv"], True),
        ("declare", [("seq", [N(1), N(2), N(3)], False)], table["r13"], True),
        ("declare", [("seq", [N(1), N(2), N(3)], False)], table["lmap"], True),
        ("lambdaN", [("seq", [N(1), ("splat", N(2))], False)], table["r13"], False),
        ("switch", [("or", ("seq", [N(1), ("lit", 1)], True), ("seq", [N(1), ("lit", 2)], True))], [5, 2], False),
        ("declare", [("or", ("seq", [N(1), ("lit", 1)], True), ("seq", [N(1), ("lit", 2)], True))], [5, 2], False),
        ("catch", [("or", ("seq", [N(1), ("lit", 1)], True), ("seq", [N(1), ("lit", 2)], True))], [5, 2], False),
        ("lambda1", [("or", ("seq", [N(1), ("ann", N(2), ("b", "int"))], True), ("seq", [N(1), N(2)], True))], [5, "s"], False),
        ("for", [("or", ("seq", [N(1), ("ann", N(2), ("b", "int"))], True), ("seq", [N(1), N(2)], True))], [5, "s"], False),
        ("assign", [("or", ("seq", [N(1), ("lit", 1)], True), ("seq", [N(1), ("lit", 2)], True))], [5, 2], False),
        ("switch", [("or", ("seq", [N(1), ("lit", 1)], True), N(1))], [5, 2], False),
        ("declare", [("seq", [N(1), ("default", N(2), "5", 5)], False)], [1], True),
        ("declare", [("seq", [N(1), ("default", N(2), "5", 5)], False)], [1], False),
        ("declare", [("seq", [N(1), ("default", N(2), "5", 5)], True)], [1], False),
        ("assign", [("seq", [N(1), ("default", N(2), "5", 5)], False)], [1], True),
        ("lambdaN", [("seq", [N(1), ("default", N(2), "5", 5)], False)], [1], False),
        ("switch", [("seq", [N(1), ("default", N(2), "5", 5)], False)], [1], True),
        ("for", [("seq", [N(1), ("default", N(2), "5", 5)], False)], [1], True),
        ("declare", [("ann", N(1), ("b", "rational"))], half, True),
        ("switch", [("ann", ("wild",), ("b", "rational")), ("wild",)], half, True),
        ("lambda1", [("ann", N(1), ("b", "number"))], half, False),
        ("declare", [("ann", N(1), ("s", "Foo"))], table["ifoo"], True),
        ("declare", [("seq", [N(1), ("splat", N(2)), N(3)], False)], [1], True),
        ("lambdaN", [("seq", [("splat", N(1))], False)], [], False),
        ("declare", [("seq", [N(1), ("splat", N(2))], False)], [], True),
        # an annotated splat must not pass its type on to the items after it
        ("lambdaN", [("seq", [N(1), ("splat", ("ann", N(2), ("b", "list"))), N(3)], False)], [1, 2, 3, 4], False),
        ("lambdaN", [("seq", [("splat", ("ann", N(1), ("b", "list"))), ("default", N(2), "5", 5)], False)], [], False),
        ("lambdaN", [("seq", [("splat", ("ann", N(1), ("b", "list"))), N(2)], False)], [1, "a"], False),
        ("declare", [("seq", [N(1), ("splat", ("ann", N(2), ("b", "list"))), N(3)], True)], [1, 2, "z"], True),
        ("switch", [("seq", [("splat", ("ann", N(1), ("b", "list"))), N(2), N(3)], True)], [1, 2, 3], True),
        ("for", [("seq", [N(1), ("splat", ("ann", N(2), ("b", "anything"))), N(3)], True)], ["a", 2, None], True),
    ]
    for ctx, pats, v, bare in spec:
        c = render_case(r, ctx, pats, v, bare=bare)
        if c is not None:
            c["fixed"] = True
            out.append(c)
    return out


def run_patterns(sh, w, r, table, total, eq, fixed=False):
    vals = Values(r, table)
    obs_names = ["n%d" % i for i in range(1, 40)]
    done = 0
    if fixed:
        batch = fixed_cases(table)
        for c in batch:
            c["pred"] = predict(c, eq)
        evs = core.eval_all(w, [c["text"] for c in batch], prelude=PRELUDE, fresh_each=True, child_each=True,
                            fuel=300000, observe=obs_names, jid="c12f")
        for c, ev in zip(batch, evs):
            sh.count("fixed-directed-cases")
            judge_pattern(sh, c, ev, eq)
    while done < total:
        batch = []
        while len(batch) < 250 and done + len(batch) < total:
            c = make_case(r, vals, r.choice(CTXS))
            if c is None:
                continue
            try:
                c["pred"] = predict(c, eq)
            except RecursionError:
                continue
            batch.append(c)
        done += len(batch)
        # (wide and deeply nested patterns use more names than the fixed list holds: observe every name of the batch)
        names = sorted(set(obs_names) | {n_ for c in batch for n_ in c["names"]}, key=lambda n_: int(n_[1:]))
        evs = core.eval_all(w, [c["text"] for c in batch], prelude=PRELUDE, fresh_each=True, child_each=True,
                            fuel=300000, observe=names, jid="c12a")
        for c, ev in zip(batch, evs):
            judge_pattern(sh, c, ev, eq)


def judge_pattern(sh, c, ev, eq):
    text = c["text"]
    nontriv = any(q[0] in COMPOSITE for q in c["pats"])
    sh.seen(text, nontrivial=nontriv)
    sh.count("ctx:" + c["form"])
    for q in c["pats"]:
        sh.count("top:" + q[0])
    pred = c["pred"]
    sh.count("predicted:" + pred[0])
    o = ev.get("o")
    replay = {"job": {"kind": "eval", "prelude": PRELUDE, "stmts": [text], "observe": c["names"], "fresh_each": True},
              "expected": (pred[0], {n: vcanon(v) for n, v in pred[1].items()}, pred[2]) if pred[0] == "match" else pred[0]}
    if o not in ("ok", "throw"):
        if o == "parse":
            sh.inconc("generator-parse-error", text[:300])
        else:
            sh.inconc(str(o), text[:300])
        return
    obs = observed_of(c, ev)
    if obs is None:
        sh.inconc("undecodable-result", text[:300])
        return
    sh.count("observed:" + obs[0])
    if pred[0] == "match" and obs[0] == "match":
        sh.count("value-kind-bound:" + "+".join(sorted({type(v).__name__ for v in pred[1].values()}))[:60])
    if consistent(pred, obs):
        if pred[0] == "match":
            sh.sample({"stmt": text, "predicted": "bind " + str({n: vsrc(v) if not isinstance(v, Opaque) else v.name for n, v in pred[1].items()})[:200],
                       "observed": str(obs[1])[:300]}, cap=3)
        return
    kind = disagreement(pred, obs)
    # Is the observation exactly what the reference predicts with one (or two) of the named deviations switched on?
    # (a deviation that turns the prediction into "either" cannot be refuted and counts as the explanation too)
    why = None
    # deviations that are still present on the tree (known findings) are tried before the ones that have
    # been repaired in /repo, so that an observation both could explain keeps its known key
    order = [QUIRKS[0], QUIRKS[2], QUIRKS[1], QUIRKS[3], QUIRKS[4]]
    combos = [(q,) for q in order] + [(a, b) for i, a in enumerate(order) for b in order[i + 1:]]
    for qs in combos:
        try:
            pq = predict(c, eq, quirks=qs)
        except Exception:
            continue
        if pq != pred and pq[0] != "skip" and consistent(pq, obs):
            why = qs[0]
            break
    if why:
        key = "C12|pat|%s" % why
        sh.count("explained:" + why + "|" + c["form"])
    else:
        key = "C12|pat|%s|%s|%s" % (c["form"], kind, "/".join(skeleton(q) for q in c["pats"])[:90])
    want = ("bind %s%s" % ({n: vsrc(v) for n, v in pred[1].items()}, " in arm %d" % pred[2] if c["ctx"] == "switch" else "")) if pred[0] == "match" else "raise"
    got = "raised: %s" % (ev.get("err") or "")[:90] if obs[0] == "raise" else "bound %s%s" % (
        {n: v for n, v in obs[1].items()}, " in arm %d" % obs[2] if c["ctx"] == "switch" else "")
    sh.violation(key, "`%s` expected %s, observed %s%s" % (text[:220], want[:160], got[:200], " [%s]" % why if why else ""), replay)


# ---------------------------------------------------------------- (b) annotation histories

HIST_TYPES = {
    # type source -> (well-typed value sources, python classifier key)
    "int": ["3", "(-7)", "2^70", "0", "12"],
    "rational": ["(1/2)", "rational(3)"],
    "float": ["1.5", "(0.0/0.0)", "2.0"],
    "complex": ["1i", "(2.5 - 1i)"],
    "number": ["3", "(1/2)", "2.5", "1i"],
    "str": ['"abc"', '""', '"hé"'],
    "list": ["[1, 2, 3]", "[]", "[[1], [2]]", '["a", 2]'],
    "dict": ["{1: 2}", "{:0}", "{}"],
    "vector": ["V(1, 2)", "V()"],
    "bytes": ["B[1, 2]", "B[]"],
    "stream": ["(1 to 3)", "(1 to 3 lazy_map (* 2))"],
    "func": ["id", "(\\v -> v)", "int", "+"],
    "type": ["int", "Foo", "list"],
    "nulltype": ["null"],
    "anything": ["1", "[1]", "null", '"s"'],
    "Foo": ["Foo(1, [2])", "Foo(null, Foo(1, 2))"],
    "Bar": ["Bar(0)"],
    "satisfying(p_big)": ["5", "10", "2^70"],
    "satisfying(p_pair)": ["[1, 2]", '["a", [3]]'],
    "satisfying(p_pi)": ["[1, 2]", "[7, \"q\"]"],
    "satisfying(p_str)": ['"s"', '""'],
    "satisfying(1 < _ < 9)": ["5", "2.5", "(7/2)"],
}
HIST_WEIGHTS = ["int", "int", "list", "list", "str", "number", "float", "rational", "satisfying(p_pi)", "satisfying(p_pi)",
                "satisfying(p_big)", "satisfying(p_big)", "satisfying(1 < _ < 9)"] + sorted(HIST_TYPES)
EXPRS = ["1", "0", "(-2)", "2^70", "(1/2)", "(4/2)", "1.5", "1i", '"s"', '""', '"ab"', "B[1]", "[]", "[1, 2]", "[x]", "[x, y]",
         "[[1, 2], 3]", "V(1, 2)", "{}", "{1: 2}", "(1 to 3)", "id", "int", "Foo(1, 2)", "Bar(0)", "null", "x", "y", "z",
         "[5, \"q\"]", "[\"q\", 5]", "7", "4", "(x, y)", "len", "2.0", "[1, 2, 3]", "[9, 9]"]
OPS = ["+", "-", "*", "/", "//", "%", "max", "min", "$", "++", "append", ".+", "+.", "&", "|", "zip", "!!", "."]   # no ^ / **: results must stay small
OP_RHS = ["1", "2", "0", "x", "y", "[1]", '"t"', "(1/2)", "2.5", "str", "len", "list", "int", "float", "id", "[5]", "3", "null"]
IDX = ["0", "1", "(-1)", "5", '"k"', "1", "fa", "fb", "ba", "0:1", ":", "1:"]


NUM_OPS = [("+", "1"), ("-", "1"), ("*", "2"), ("//", "2"), ("/", "2"), ("%", "3"), ("max", "7"), ("min", "2"),
           (".", "str"), (".", "float"), (".", "int"), ("+", "(1/2)"), ("+", "2.5"), ("*", "1.0"), ("-", "20"), ("/", "4"), ("+", "1i")]
LIST_OPS = [("++", "[5]"), ("append", "1"), ("+.", "3"), (".", "reverse"), (".", "len"), (".", "sort"),
            ("zip", "[7, 8]"), (".", "tail"), ("++", '["q", 5]'), (".", "first"), (".", "vector"), (".", "set")]
GOOD_OPS = {
    "int": NUM_OPS, "number": NUM_OPS, "float": NUM_OPS, "rational": NUM_OPS, "complex": NUM_OPS, "satisfying(p_big)": NUM_OPS,
    "satisfying(1 < _ < 9)": NUM_OPS,
    "str": [("$", '"t"'), ("$", "1"), ("++", '"q"'), ("*", "2"), (".", "len"), (".", "list"), (".", "reverse"), (".", "upper"), (".", "bytes")],
    "list": LIST_OPS, "satisfying(p_pair)": LIST_OPS, "satisfying(p_pi)": LIST_OPS,
    "dict": [("||", "{3: 4}"), ("|.", "5"), (".", "keys"), (".", "len"), ("&&", "{1: 1}"), (".", "list")],
    "vector": [("+", "1"), ("*", "2"), ("append", "3"), ("append", '"a"'), (".", "list"), (".", "sum"), ("++", "V(9)"), ("++", "[1]")],
    "bytes": [("append", "3"), ("append", "300"), ("++", "B[1]"), (".", "list"), (".", "str"), ("++", "[1]")],
    "stream": [(".", "list"), ("++", "[1]"), (".", "tail"), ("zip", "[1, 2]"), (".", "stream"), ("lazy_map", "id")],
    "func": [(">>>", "str"), ("<<<", "str"), (".", "type"), ("on", "len")],
    "type": [(".", "type"), (">>>", "str"), (".", "str")],
    "Foo": [(".", "fa"), (".", "str"), (".", "type")], "Bar": [(".", "ba"), (".", "str")],
}
GOOD_IDX = {"list": ["0", "(-1)", "1"], "satisfying(p_pair)": ["0", "1"], "satisfying(p_pi)": ["0", "1", "0", "(-1)"],
            "str": ["0", "(-1)"], "dict": ["1", '"k"', "[1]"], "vector": ["0", "1"], "bytes": ["0", "(-1)"], "stream": ["0", "1"],
            "Foo": ["fa", "fb"], "Bar": ["ba"], "anything": ["0"]}
IDX_RHS = ["1", "7", '"a"', "null", "[1]", "300", "(1/2)", "x", "y", "2.5"]


def hist_stmt(r, tx, tz):
    """-> (kind, text, typed variables the statement certainly assigns when it completes)"""
    well = lambda T: r.choice(HIST_TYPES[T])
    E = lambda T: well(T) if r.random() < 0.55 else r.choice(EXPRS)

    def oprhs():
        if tx in GOOD_OPS and r.random() < 0.6:
            return r.choice(GOOD_OPS[tx])
        return r.choice(OPS), r.choice(OP_RHS)

    def idx(sl=False):
        if tx in GOOD_IDX and r.random() < 0.65:
            return r.choice(GOOD_IDX[tx])
        return r.choice(IDX if sl else IDX[:9])
    k = r.choice(["assign", "assign", "opassign", "opassign", "every", "swap", "destructure", "destructure", "index",
                  "index-op", "every-slice", "every-op", "nested", "and", "or"])
    if k == "assign":
        if r.random() < 0.5:
            return "assign-well-typed", "x = %s" % well(tx), ["x"]
        return k, "x = %s" % E(tx), ["x"]
    if k == "opassign":
        return k, "x %s= %s" % oprhs(), ["x"]
    if k == "every":
        f = r.choice(["every x = %s", "every x, y = %s", "every x, z = %s", "every y, x = %s"])
        return k, f % E(tx), ["x", "z"] if "z" in f else ["x"]
    if k == "swap":
        f = r.choice(["swap x, y", "swap y, x", "swap x, z", "swap z, x", "swap x, y[0]", "swap x[0], y", "swap x[0], x[1]", "swap x, x"])
        return k, f, ["x", "z"] if "z" in f else ["x"]
    if k == "destructure":
        f = r.choice(["x, y = %s, %s", "y, x = [%s, %s]", "[x, [y]] = [%s, [%s]]", "y, ...x = [%s, %s]", "...x, y = [%s, %s]",
                      "x, z = %s, %s", "(h .+ x) = [%s, %s]", "(x +. h) = [%s, %s]", "Foo(x, y) = Foo(%s, %s)", "[(x + 1), y] = [%s, %s]",
                      "[(-x), y] = [%s, %s]", "[(x / h), y] = [%s, %s]", "x, (y = 5) = [%s]", "y, (x = %s) = [%s]", "[1 < x < 9, y] = [%s, %s]",
                      "x, y = [%s, %s]"])
        n = f.count("%s")
        args = tuple(E(tx) for _ in range(n))
        pre = "h := 0; " if " h" in f or "h " in f else ""
        return k, pre + f % args, ["x", "z"] if "z" in f else ["x"]
    if k == "index":
        return k, "x[%s] = %s" % (idx(), r.choice(IDX_RHS if r.random() < 0.6 else EXPRS)), ["x"]
    if k == "index-op":
        return k, "x[%s] %s= %s" % (idx(), r.choice(["+", "+", "*", "$", "++", "append", "max", "."]), r.choice(OP_RHS)), ["x"]
    if k == "every-slice":
        return k, "every x[%s] = %s" % (r.choice(IDX[9:]) if r.random() < 0.6 else idx(True), r.choice(IDX_RHS if r.random() < 0.6 else EXPRS)), ["x"]
    if k == "every-op":
        f = r.choice(["every x %s= %s", "every x, y %s= %s", "every x[%s] %%s= %%s" % r.choice(IDX[9:])])
        return k, f % oprhs(), ["x"]
    if k == "nested":
        f = r.choice(["(\\ -> (x = %s))()", "for (i <- [%s]) x = i", "for (i <- [%s]) x += i", "if (1) x = %s",
                      "switch (%s) case v -> (x = v)", "(\\v -> (x, y = v, v))(%s)", "[%s] each (\\v -> (x = v))",
                      "k := 0; while (k < 2) (k += 1; x = %s)"])
        return k, f % E(tx), ["x"]
    if k == "and":
        c = r.random()
        if c < 0.4:
            return k, "(x and y) = %s" % E(tx), ["x"]
        if c < 0.6:
            return k, "(x and z) = %s" % E(tx), ["x", "z"]
        return "and-op", "(x and y) %s= %s" % oprhs(), ["x"]
    f = r.choice(["(x or y) = %s", "(y or x) = %s", "(x or z) = %s", "[(x or y), (y or x)] = [%s, 1]"])
    return "or", f % E(tx), []         # an `or` target may legitimately leave x unassigned


def run_histories(sh, w, r, count, length=20):
    for _ in range(count):
        tx = r.choice(HIST_WEIGHTS)
        tz = r.choice(HIST_WEIGHTS)
        vx, vz = r.choice(HIST_TYPES[tx]), r.choice(HIST_TYPES[tz])
        decl = ["x: %s = %s" % (tx, vx), "z: %s = %s" % (tz, vz), "y := %s" % r.choice(["0", "[1, 2]", '"w"', "null"])]
        body = [hist_stmt(r, tx, tz) for _ in range(length)]
        stmts = decl + [b[1] for b in body]
        probes = ["x is %s" % tx, "z is %s" % tz]
        prelude = ["struct Foo (fa, fb)", "struct Bar (ba)"] + ["%s := %s" % (k, s) for k, (s, _f) in PREDS.items()]
        job = {"id": "c12b", "kind": "eval", "prelude": prelude, "stmts": stmts, "probe": probes, "fuel": 200000,
               "values": False, "mem": 256 << 20}
        evs = core.eval_all(w, stmts, prelude=prelude, probe=probes, fuel=200000, values=False, mem=256 << 20, jid="c12b")
        sh.count("hist:histories")
        sh.count("hist:type:" + tx)
        alive = True
        for i, ev in enumerate(evs):
            o = ev.get("o")
            text = stmts[i]
            case = "%s | %s | #%d %s" % (decl[0], decl[1], i, text)
            replay = {"job": dict(job, stmts=stmts[:i + 1]), "expected": "x is %s (and z is %s) true after every statement that did not raise" % (tx, tz)}
            if i < 3:
                # declarations: a well-typed initial value must be accepted
                if i < 2:
                    sh.seen(case, nontrivial=True)
                    T = (tx, tz)[i]
                    if o == "throw":
                        sh.violation("C12|hist|declaration-refused|%s" % T,
                                     "`%s` raised although the value is classified as %s: %s" % (text, T, (ev.get("err") or "")[:100]), replay)
                        alive = alive and i == 1          # without x there is no history; without z it goes on
                    elif o != "ok":
                        sh.inconc("hist:" + str(o), case[:300])
                        alive = False
                    else:
                        pr = (ev.get("probe") or [{}, {}])[i]
                        if not (pr.get("o") == "ok" and norm(pr.get("v")) == {"i": "1"}):
                            sh.violation("C12|hist|after-declaration|%s" % T, "after `%s`, `%s` is %s" % (text, probes[i], str(pr)[:80]), replay)
                continue
            if not alive:
                break
            kind, _t, touched = body[i - 3]
            sh.seen(case, nontrivial=o in ("ok", "throw"))
            sh.count("hist:stmt:" + kind)
            if o == "throw":
                sh.count("hist:raised:" + kind)
                if kind == "assign-well-typed":
                    sh.violation("C12|hist|well-typed-assignment-refused|%s" % tx,
                                 "%s; ...; `%s` raised although the value is classified as %s: %s" % (decl[0], text, tx, (ev.get("err") or "")[:100]), replay)
                continue
            if o != "ok":
                if o == "panic":
                    sh.inconc("panic", case[:300])
                    break
                sh.inconc("hist:" + str(o), case[:300])
                if o in ("crash", "timeout", "skipped", "lost"):
                    break
                continue
            sh.count("hist:completed:" + kind)
            pr = ev.get("probe") or []
            prev = evs[i - 1].get("probe") or []
            for j, (var, T) in enumerate((("x", tx), ("z", tz))):
                if j >= len(pr):
                    continue
                held_before = j < len(prev) and prev[j].get("o") == "ok" and norm(prev[j].get("v")) == {"i": "1"}
                # required when the statement certainly assigned the variable, or when the invariant held before
                # (then the variable is either unchanged or was assigned through a checked path)
                if var not in touched and not held_before:
                    continue
                p = pr[j]
                if p.get("o") == "ok" and norm(p.get("v")) == {"i": "1"}:
                    sh.count("hist:invariant-held")
                    continue
                if p.get("o") not in ("ok", "throw"):
                    sh.inconc("hist:probe-" + str(p.get("o")), case[:300])
                    continue
                sh.violation("C12|hist|%s|%s" % (kind, T),
                             "%s; %s; ... `%s` completed without raising but afterwards `%s` gives %s" % (
                                 decl[0], decl[1], text, probes[j], str(p.get("v") if p.get("o") == "ok" else p.get("err"))[:80]), replay)
        if evs and len(evs) > 5:
            sh.sample({"history": stmts[:8], "outcomes": [e.get("o") for e in evs[:8]],
                       "probes": [[norm(p.get("v")) for p in (e.get("probe") or [])] for e in evs[:8]]}, cap=4)


# ---------------------------------------------------------------- (c) is / type table

CTOR_FIXED = ['int("3")', "int(2.7)", "rational(2)", 'rational("1/2")', "rational(0.5)", "float(1)", 'float("1.5")', 'list("ab")',
              "dict([[1, 2]])", "vector([1])", 'bytes("a")', "stream([1])", "Foo(1, 2)", "Bar(1)", "str(5)", "number(\"7\")",
              "type(3)", "list(1 to 3)", "bytes([1, 2])", "vector(1 to 2)", "dict({1: 2})", "stream(\"ab\")", "int(7/2)"]


def run_is_table(sh, w, table, part, nparts):
    names = [n for i, n in enumerate(sorted(table)) if i % nparts == part]
    stmts, meta = [], []
    for n in names:
        stmts.append("[%s]" % ", ".join("%s is %s" % (n, T) for T in NAMED_TYPES))
        meta.append(("row", n))
        stmts.append("%s is type(%s)" % (n, n))
        meta.append(("typeof", n))
        for T in NAMED_TYPES:
            args = ", ".join([n] * STRUCTS.get(T, 1))
            stmts.append("%s(%s) is %s" % (T, args, T))
            meta.append(("ctor", n, T))
    if part == 0:
        for e in CTOR_FIXED:
            T = e.split("(")[0]
            stmts.append("%s is %s" % (e, T))
            meta.append(("ctor", e, T))
        for sname in ("Foo(1, 2)", "Bar(1)", "Foo(Foo(1, 2), 3)"):
            stmts.append("%s is type(%s)" % (sname, sname))
            meta.append(("typeof", sname))
    evs = core.eval_all(w, stmts, prelude=PRELUDE, fresh_each=True, child_each=True, fuel=60000, mem=256 << 20, jid="c12c")
    for s, mt, ev in zip(stmts, meta, evs):
        o = ev.get("o")
        what = mt[0]
        n = mt[1]
        v = table.get(n)
        kind = KIND_OF.get(n, "expr")
        infinite = n in pool.INFINITE
        replay = {"job": {"kind": "eval", "prelude": PRELUDE, "stmts": [s], "fresh_each": True}}
        sh.seen(s, nontrivial=True)
        sh.count("is:" + what)
        if o in ("fuel", "depth", "timeout", "crash", "skipped", "lost", "panic"):
            if infinite or "huge" in (pool.BY_NAME.get(n, ("", "", "", ""))[3]):
                sh.excluded += 1
                sh.count("is:excluded-infinite-or-huge-" + o)
            else:
                sh.inconc("is:" + o, s)
            continue
        if what == "row":
            if o != "ok":
                sh.violation("C12|is|raised|%s" % kind, "`%s` raised: %s" % (s[:80], (ev.get("err") or "")[:80]), replay)
                continue
            got = [x.get("i") for x in ev["v"]["l"]]
            cl = classes(v)
            for T, g in zip(NAMED_TYPES, got):
                want = "1" if T in cl else "0"
                if g != want:
                    replay2 = {"job": {"kind": "eval", "prelude": PRELUDE, "stmts": ["%s is %s" % (n, T)], "fresh_each": True}, "expected": int(want)}
                    sh.violation("C12|is|%s|%s|%s-should-be-%s" % (kind, T, g, want),
                                 "`%s is %s` (%s = %s) gives %s, expected %s: type(%s)/constructors classify it as %s" % (
                                     n, T, n, (pool.BY_NAME.get(n) or (n, dict(EXTRA).get(n)))[1], g, want, n, sorted(cl - {"anything"})), replay2)
                else:
                    sh.count("is:cell-agrees")
            continue
        if what == "typeof":
            replay["expected"] = 1
            if o != "ok" or norm(ev.get("v")) != {"i": "1"}:
                sh.violation("C12|is-typeof|%s" % (kind if kind != "expr" else "inst"),
                             "`%s` gives %s, expected 1 (v is type(v) for every v)" % (s, str(ev.get("v") if o == "ok" else ev.get("err"))[:80]), replay)
            continue
        if what == "annot-typeof":
            replay["expected"] = 1
            if o != "ok":
                sh.violation("C12|annot-typeof|%s" % kind,
                             "`%s` raised (%s): a parameter annotated with type(v) must accept v" % (s, (ev.get("err") or "")[:80]), replay)
            continue
        if what == "ctor":
            T = mt[2]
            if o == "throw":
                sh.count("is:ctor-refused")
                continue
            replay["expected"] = 1
            sh.count("is:ctor-succeeded:" + T)
            if o != "ok" or norm(ev.get("v")) != {"i": "1"}:
                sh.violation("C12|is-ctor|%s" % T, "`%s` gives %s, expected 1 (what %s(...) returns is a %s)" % (
                    s, str(ev.get("v"))[:60], T, T), replay)


# ---------------------------------------------------------------- (d) the README's own examples

README_CASES = [
    ('switch (5) case _: satisfying! 1 < _ < 9 -> "between" case _ -> "not sure"', "between"),
    ('switch (10) case _: satisfying! 1 < _ < 9 -> "between" case _ -> "not sure"', "not sure"),
    ('switch (5) case 1 < _ < 9 -> "between" case _ -> "not sure"', "between"),
    ('switch (5) case 1 < v < 9 -> v case _ -> "not sure"', 5),
    ('switch ("s") case _: int -> "int" case _ -> "not sure"', "not sure"),
    ('switch (3) case _: int -> "int" case _ -> "not sure"', "int"),
    ('switch (2) case 1 -> "b" case 2 -> "d"', "d"),
    ("x : int = 3; x", 3),
    ("x, y : int = [1, 2]; [x, y]", [1, 2]),
    ("x, : int = [2]; x", 2),
    ("a := 0; a, (c:) = 1, 2; [a, c]", [1, 2]),
    ("a := 0; a, (d: int) = 3, 4; [a, d]", [3, 4]),
    ("a, ...b := [1, 2, 3]; [a, b]", [1, [2, 3]]),
    ("every a, b, c := 1; [a, b, c]", [1, 1, 1]),
    ("x := [0] ** 5; every x[2:4] = 1; x", [0, 0, 1, 1, 0]),
    ("(\\a: int, (b, c) -> [a, b, c])(1, [2, 3])", [1, 2, 3]),
    ("x := [1, 2]; x! zip+= [3, 4]; x", [4, 6]),
    ("x := 0; x += 5; x", 5),
    ("x := 1; y := 2; swap x, y; [x, y]", [2, 1]),
    ("try throw [1, 2] catch a, b -> a + b", 3),
    ("struct Pt (px, py = 7); switch (Pt(1)) case Pt(a, b) -> [a, b]", [1, 7]),
    ("switch (-5) case -5 -> 1 case _ -> 2", 1),
]
README_RAISES = ["x: int = 3; x = \"s\"", "x: int = \"s\"", "switch (3) case 1 -> 1 case 2 -> 2", "x, y: int = [1, \"s\"]",
                 "a, b := [1, 2, 3]", "a, b, ...c := [1]", "(\\a: int -> a)(\"s\")", "try throw 5 catch a, b -> 0",
                 "x: int = 3; x append= 1", "x: int = 3; every x = null", "x: int = 3; y := \"s\"; swap x, y"]


def run_readme(sh, w):
    stmts = [c[0] for c in README_CASES] + README_RAISES
    evs = core.eval_all(w, stmts, fresh_each=True, fuel=200000, jid="c12d")
    for i, (s, ev) in enumerate(zip(stmts, evs)):
        sh.seen("readme|" + s, nontrivial=True)
        sh.count("readme:cases")
        o = ev.get("o")
        replay = {"job": {"kind": "eval", "stmts": [s], "fresh_each": True}}
        if o not in ("ok", "throw"):
            sh.inconc("readme:" + str(o), s)
            continue
        if i < len(README_CASES):
            want = to_canon(README_CASES[i][1])
            replay["expected"] = want
            if o != "ok" or norm(ev.get("v")) != want:
                sh.violation("C12|readme|%s" % s[:60], "`%s` gives %s, the README/statement says %s" % (
                    s, str(norm(ev.get("v")) if o == "ok" else ev.get("err"))[:100], want), replay)
        else:
            replay["expected"] = "raises"
            if o != "throw":
                sh.violation("C12|readme-raise|%s" % s[:60], "`%s` must raise, gave %s" % (s, str(ev.get("v"))[:80]), replay)


# ---------------------------------------------------------------- shard

def shard(ctx, si, n):
    sh = core.Shard("C12")
    r = core.rng_for("C12", ctx.seed, si)
    w = core.Worker(cpu_budget=20.0)
    eq = EqOracle(sh)
    try:
        import time as _t
        t0 = _t.time()
        table = build_table(w)
        run_is_table(sh, w, table, si, n)
        if si == 0:
            run_readme(sh, w)
        t1 = _t.time()
        run_patterns(sh, w, r, table, ctx.plan["patterns"] // n, eq, fixed=(si == 0))
        t2 = _t.time()
        run_histories(sh, w, core.rng_for("C12", ctx.seed, si, "hist"), max(1, ctx.plan["histories"] // n))
        t3 = _t.time()
        sh.count("wall_ms:is-table", int((t1 - t0) * 1000))
        sh.count("wall_ms:patterns", int((t2 - t1) * 1000))
        sh.count("wall_ms:histories", int((t3 - t2) * 1000))
    finally:
        eq.close()
        w.close()
    return sh
