"""C06  Integer arithmetic is exact at every magnitude and representation.

Monitor: reference-model monitor.  Python's unbounded int is the oracle; every operand value is
produced in several ways (literal, int("..."), difference of big values, result of `//`, ...) so
that the same mathematical operation is observed on machine-word and big-integer representations;
the harness reports the representation flag so the evidence can say both were exercised.
"""
import math
from .. import core
from ..values import norm

RULE = ("cases = (operator, operand values, producer forms); operands from the boundary set "
        "{0,+-1,+-2,+-2^31,+-2^32,+-2^62..2^64 and neighbours} and random ints of 1..4000 bits, each "
        "rendered through a randomly chosen producer (literal, int(str), N + 2^70 - 2^70, N // 1, "
        "(10^30 + N) - 10^30); distinct = distinct (expression text); non-trivial = at least one "
        "operand outside [-2^31, 2^31] or held in big representation")
ASSUMPTIONS = ["Python int arithmetic is exact", "zero divisors and negative shift counts are excluded here (C14)"]
PLAN = {"quick": {"triples": 500000}, "thorough": {"triples": 1200000}}

REG = dict(level="exploration", min_nontrivial=1000,
           technique="runtime reference-model monitor (Python int oracle) over seeded operand/producer sweeps with representation flag observed",
           claim="Held on every executed (operator, operands, producer) case: each result of the real interpreter is compared with Python's exact int arithmetic; operands cross +-2^63 and are produced in machine-word and big representation. Exploration, not proof: says nothing about operand values not generated.",
           note="Trusts CPython int arithmetic and the harness's structural value dump; is_prime/factorize operands bounded (trial division).")

B63 = 1 << 63


def boundary():
    vals = {0, 1, -1, 2, -2, 3, 7, -7, 10, 255, 256}
    for k in (31, 32, 53, 62, 63, 64):
        for d in (-2, -1, 0, 1, 2):
            vals.add((1 << k) + d)
            vals.add(-(1 << k) + d)
    vals |= {10 ** 18, 10 ** 19, -(10 ** 19), 10 ** 30, -(10 ** 30), 3037000499, 3037000500, -3037000500}
    return sorted(vals)


BOUNDARY = boundary()


def rand_int(r):
    k = r.random()
    if k < 0.45:
        return r.choice(BOUNDARY)
    if k < 0.65:
        return r.randint(-1000, 1000)
    bits = r.choice([8, 16, 31, 32, 33, 62, 63, 64, 65, 100, 128, 300, 1000, 4000])
    v = r.getrandbits(bits)
    return -v if r.random() < 0.5 else v


def lit(n):
    return str(n) if n >= 0 else "(-%d)" % (-n)


def produce(r, n):
    """Source text evaluating to n, with a tag naming the producer."""
    k = r.random()
    if k < 0.35:
        return lit(n), "literal"
    if k < 0.5:
        return 'int("%d")' % n, "parse"
    if k < 0.65:
        return "(%s + 2^70 - 2^70)" % lit(n), "bigdiff"
    if k < 0.8:
        return "(%s // 1)" % lit(n), "floordiv1"
    if k < 0.9:
        return "((10^30 + %s) - 10^30)" % lit(n), "bigdiff2"
    return "(%s * 1)" % lit(n), "mul1"


def trunc_rem(a, b):
    return a - b * int(_trunc_div(a, b))


def _trunc_div(a, b):
    q = abs(a) // abs(b)
    return q if (a >= 0) == (b >= 0) else -q


def small_prime(n):
    if n < 2:
        return False
    if n % 2 == 0:
        return n == 2
    i = 3
    while i * i <= n:
        if n % i == 0:
            return False
        i += 2
    return True


def _chernick(lo, count):
    """Carmichael numbers (6k+1)(12k+1)(18k+1) with all three factors prime: Fermat pseudoprimes to every
    coprime base, least factor 6k+1 (so the interpreter's trial division still terminates quickly)."""
    out, k = [], lo
    while len(out) < count:
        if small_prime(6 * k + 1) and small_prime(12 * k + 1) and small_prime(18 * k + 1):
            out.append((6 * k + 1) * (12 * k + 1) * (18 * k + 1))
        k += 1
    return out


# composites that fool probabilistic tests, each with a least prime factor < 10^6 (is_prime is exact trial
# division: a replacement by a Fermat / Miller-Rabin / fixed-base test would accept these)
PSEUDOPRIMES = [341, 561, 645, 1105, 1729, 2047, 2465, 2821, 6601, 8911, 3215031751, 4759123141, 1122004669633,
                3825123056546413051, 2 ** 64 + 1, 2 ** 71 - 1, 2 ** 73 - 1, 2 ** 79 - 1, 2 ** 83 - 1, 2 ** 97 - 1,
                2 ** 113 - 1, 2 ** 131 - 1] + _chernick(1, 6) + _chernick(260000, 12) + _chernick(900000, 6)
PSEUDO_SET = set(PSEUDOPRIMES)      # composite by construction (import-time self-check below)
assert all(any(a % p == 0 for p in range(2, 1000)) or not small_prime(a) for a in PSEUDOPRIMES)
PRIMES_LT_1E6 = [p for p in range(2, 2000) if small_prime(p)] + [65537, 99991, 274177, 999983]


# expected value: returns ("v", int) | ("throw",) | None (case not applicable)
def expect(op, a, b):
    if op == "+":
        return ("v", a + b)
    if op == "-":
        return ("v", a - b)
    if op == "*":
        return ("v", a * b)
    if op == "//":
        return ("v", a // b) if b != 0 else None
    if op == "%":
        return ("v", trunc_rem(a, b)) if b != 0 else None
    if op == "%%":
        return ("v", a % b) if b != 0 else None
    if op == "/!":
        if b == 0:
            return None
        return ("v", a // b) if a % b == 0 else ("throw",)
    if op == "^":
        return ("v", a ** b)
    if op == "gcd":
        return ("v", math.gcd(a, b))
    if op == "lcm":
        return ("v", abs(a * b) // math.gcd(a, b) if a and b else 0)
    if op == "&":
        return ("v", a & b)
    if op == "|":
        return ("v", a | b)
    if op == "~":
        return ("v", a ^ b)
    if op == "<<":
        return ("v", a << b)
    if op == ">>":
        return ("v", a >> b)
    if op == "<":
        return ("v", int(a < b))
    if op == "<=":
        return ("v", int(a <= b))
    if op == ">":
        return ("v", int(a > b))
    if op == ">=":
        return ("v", int(a >= b))
    if op == "==":
        return ("v", int(a == b))
    if op == "!=":
        return ("v", int(a != b))
    if op == "<=>":
        return ("v", (a > b) - (a < b))
    if op == "max":
        return ("v", max(a, b))
    if op == "min":
        return ("v", min(a, b))
    raise KeyError(op)


BINOPS = ["+", "-", "*", "//", "%", "%%", "/!", "^", "gcd", "lcm", "&", "|", "~", "<<", ">>",
          "<", "<=", ">", ">=", "==", "!=", "<=>", "max", "min"]
UNOPS = ["neg", "not", "abs", "signum", "even", "odd", "is_prime", "factorize", "identity"]


def gen_case(r):
    """-> (expr_text, expectation, meta) or None"""
    if r.random() < 0.78:
        op = r.choice(BINOPS)
        a = rand_int(r)
        b = rand_int(r)
        if op == "^":
            b = r.choice([0, 1, 2, 3, 5, 31, 62, 63, 64, 65, 100])
            if a.bit_length() * b > 20000:
                b = 2
            if r.random() < 0.12:
                # exponents beyond a machine half-word / word: only bases whose power stays small
                a = r.choice([0, 1, -1])
                b = r.choice([2 ** 31, 2 ** 32, 2 ** 32 + 1, 3 * 2 ** 32, 2 ** 33 - 1, 2 ** 63, 2 ** 64, 2 ** 64 + 1, 10 ** 30 + 1])
            elif r.random() < 0.15:
                # results straddling the machine-word boundary from small operands
                a = r.choice([2, -2, 3, -3, 7, -7, 10, 15, 240, -240, 255, 256, 1000, 3037000499, 3037000500, -3037000500, 2097152, -2097152])
                b = r.choice([2, 3, 7, 8, 9, 15, 16, 19, 20, 21, 22, 23, 31, 39, 40, 62, 63, 64])
        elif op in ("<<", ">>"):
            b = r.choice([0, 1, 2, 31, 32, 62, 63, 64, 65, 100, 200])
        elif op == "/!" and r.random() < 0.7 and b != 0:
            a = b * rand_int(r) if abs(b).bit_length() < 2100 else a
        elif op in ("//", "%", "%%") and r.random() < 0.3 and b != 0:
            # near-multiples stress the rounding direction
            a = b * r.randint(-5, 5) + r.choice([-1, 0, 1])
        if op in ("==", "<", "<=", ">", ">=", "!=", "<=>") and r.random() < 0.4:
            b = a + r.choice([-1, 0, 0, 1])
        exp = expect(op, a, b)
        if exp is None:
            return None
        sa, ta = produce(r, a)
        sb, tb = produce(r, b)
        if op in ("gcd", "lcm", "max", "min") and r.random() < 0.5:
            text = "%s(%s, %s)" % (op, sa, sb)
        else:
            text = "%s %s %s" % (sa, op, sb)
        return text, exp, {"op": op, "a": a, "b": b, "prod": [ta, tb]}
    op = r.choice(UNOPS)
    a = rand_int(r)
    sa, ta = produce(r, a)
    if op == "neg":
        return "-(%s)" % sa, ("v", -a), {"op": op, "a": a, "prod": [ta]}
    if op == "not":
        return "~(%s)" % sa, ("v", ~a), {"op": op, "a": a, "prod": [ta]}
    if op == "abs":
        return "abs(%s)" % sa, ("v", abs(a)), {"op": op, "a": a, "prod": [ta]}
    if op == "signum":
        return "signum(%s)" % sa, ("v", (a > 0) - (a < 0)), {"op": op, "a": a, "prod": [ta]}
    if op == "even":
        return "even(%s)" % sa, ("v", int(a % 2 == 0)), {"op": op, "a": a, "prod": [ta]}
    if op == "odd":
        return "odd(%s)" % sa, ("v", int(a % 2 == 1)), {"op": op, "a": a, "prod": [ta]}
    if op == "identity":
        return sa, ("v", a), {"op": op, "a": a, "prod": [ta]}
    if op == "is_prime":
        a = r.choice([r.randint(-5, 200), r.randint(0, 10 ** 6), r.choice([2 ** 31 - 1, 2 ** 31 + 11, 10 ** 9 + 7, 10 ** 9 + 8,
                      4294967291, 4294967297, 999999999989, 999999999991]),
                      r.choice(PSEUDOPRIMES),
                      r.choice(PRIMES_LT_1E6) * (r.getrandbits(r.choice([40, 64, 70, 128, 200])) | 3)])
        sa, ta = produce(r, a)
        # is_prime is trial division: operands are primes <= 10^12 or have a least prime factor < 10^6 (a bound of
        # the exploration: a prime beyond 2^64 would never finish); the Python oracle is trial division as well
        exp = 0 if a in PSEUDO_SET else int(small_prime(a))
        return "is_prime(%s)" % sa, ("v", exp), {"op": op, "a": a, "prod": [ta]}
    if op == "factorize":
        a = r.choice([r.randint(1, 5000), r.randint(1, 10 ** 9), -r.randint(2, 10 ** 6),
                      2 ** r.randint(1, 70), 3 ** r.randint(1, 45) * 2 ** r.randint(0, 20),
                      r.choice([2 ** 31 - 1, 10 ** 9 + 7]) * r.choice([2, 3, 65537])])
        sa, ta = produce(r, a)
        return "factorize(%s)" % sa, ("factor", a), {"op": op, "a": a, "prod": [ta]}
    raise KeyError(op)


def check_factor(a, c):
    """factorize result: list of [p, e] pairs, primes ascending (with [-1, 1] first for negatives),
    product equals a."""
    try:
        pairs = [(int(p["l"][0]["i"]), int(p["l"][1]["i"])) for p in c["l"]]
    except Exception:
        return "not a list of [p, e] pairs"
    prod = 1
    prev = None
    for p, e in pairs:
        if e < 1:
            return "exponent < 1"
        if p == -1:
            if prev is not None or e != 1:
                return "misplaced -1"
        else:
            if p < 2 or (p < 10 ** 12 and not small_prime(p)):
                return "factor %d is not prime" % p
            if prev is not None and prev != -1 and p <= prev:
                return "factors not ascending"
        prev = p
        prod *= p ** e
    if prod != a:
        return "product %d != %d" % (prod, a)
    return None


EXTREMES = [0, 1, -1, 2, -2, 1 << 31, -(1 << 31), 1 << 32, B63 - 1, B63, -B63, -B63 + 1, -B63 - 1, 1 << 64, -(1 << 64)]


def grid_cases():
    """Every binary operator on every ordered pair of extreme values (0, +-1, +-2, +-2^31, 2^32, +-2^63 and their
    neighbours, +-2^64), each operand once as a literal (machine word where it fits) and once computed through big
    arithmetic: the corners where a machine-word fast path and the big path meet (seed-independent)."""
    out = []
    for op in BINOPS:
        for a in EXTREMES:
            for b in EXTREMES:
                if op in ("^", "<<", ">>") and not (0 <= b <= 64):
                    continue
                exp = expect(op, a, b)
                if exp is None:
                    continue
                for pa in ("literal", "bigdiff"):
                    for pb in ("literal", "bigdiff"):
                        sa = lit(a) if pa == "literal" else "(%s + 2^70 - 2^70)" % lit(a)
                        sb = lit(b) if pb == "literal" else "(%s + 2^70 - 2^70)" % lit(b)
                        text = "%s(%s, %s)" % (op, sa, sb) if op in ("gcd", "lcm", "max", "min") else "%s %s %s" % (sa, op, sb)
                        out.append((text, exp, {"op": op, "a": a, "b": b, "prod": [pa, pb]}))
    return out


def shard(ctx, si, n):
    sh = core.Shard("C06")
    r = core.rng_for("C06", ctx.seed, si)
    total = ctx.plan["triples"] // n
    w = core.Worker()
    try:
        done = 0
        grid = [c for i, c in enumerate(grid_cases()) if i % n == si]
        sh.count("grid:extreme-pairs", len(grid))
        while done < total or grid:
            cases = []
            if grid:
                cases, grid = grid[:250], grid[250:]
            while len(cases) < 250:
                c = gen_case(r)
                if c:
                    cases.append(c)
            done += len(cases)
            evs = core.eval_all(w, [c[0] for c in cases], jid="c06")
            for (text, exp, meta), ev in zip(cases, evs):
                vals = [meta["a"]] + ([meta["b"]] if "b" in meta else [])
                nontriv = any(abs(v) > 2 ** 31 for v in vals) or any(p != "literal" for p in meta["prod"])
                sh.seen(text, nontriv)
                sh.count("op:" + meta["op"])
                for p in meta["prod"]:
                    sh.count("producer:" + p)
                o = ev.get("o")
                replay = {"job": {"kind": "eval", "stmts": [text]}, "meta": {k: str(v) for k, v in meta.items()}}
                if o in ("crash", "timeout", "skipped", "fuel", "depth"):
                    if o == "crash" and ev.get("why") not in ("alloc", "stack", "killed"):
                        sh.violation("crash|" + meta["op"], "%s crashed the interpreter: %s" % (text[:120], ev.get("stderr", "")[-200:]), replay)
                    else:
                        sh.inconc(o + ":" + str(ev.get("why", "")), text[:200])
                    continue
                if exp[0] == "throw":
                    if o != "throw":
                        sh.violation("C06|%s|should-raise" % meta["op"], "%s should raise (inexact), got %s" % (text[:160], o), replay)
                    continue
                if o != "ok":
                    sh.violation("C06|%s|%s" % (meta["op"], o), "%s -> %s %s" % (
                        text[:160], o, (ev.get("err") or (ev.get("panic") or {}).get("msg") or "")[:120]), replay)
                    continue
                v = ev.get("v")
                if exp[0] == "factor":
                    why = check_factor(exp[1], v) if v else "null result"
                    if why:
                        sh.violation("C06|factorize|" + why.split(" ")[0], "%s: %s" % (text[:160], why), replay)
                    continue
                if v is not None and "i" in v and v.get("big") == 1 and abs(exp[1]) < B63:
                    sh.count("results_small_value_in_big_repr")
                got = norm(v)
                want = {"i": str(exp[1])}
                if got != want:
                    replay["expected"] = want
                    sh.violation("C06|%s|wrong" % meta["op"],
                                 "%s = %s, expected %s" % (text[:160], str(got)[:80], str(exp[1])[:80]), replay)
                sh.sample({"expr": text, "observed": v, "expected": str(exp[1])})
    finally:
        w.close()
    return sh
