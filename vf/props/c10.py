"""C10  Indexing and slicing follow Python semantics on every sequence kind.

Monitor: reference-model monitor over an exhaustive bounded grid.  The oracle is Python's own list /
bytes indexing and slicing (strings are modelled as their UTF-8 bytes; a result that is not valid
UTF-8 is expected as `bytes`).  Sub-monitors:

  index    s[i] in five spellings (s[i], s !! i, index(s, i), (_[i])(s), (!! i)(s)), sequence held in
           a variable and written inline (uniquely owned stream)
  slice    s[a:b] for all pairs of bounds (incl. omitted), section spelling (_[a:b])(s)
  access   first second third last tail butlast take drop !! !? !% uncons unsnoc uncons? unsnoc? only
           against the equivalent index/slice expression of the model
  write    x[i] = v, x[i] += v, x |.. [i, v], remove x[i], remove x[a:b], every x[a:b] = v, pop x,
           pop x[i], x[i][j] = v, swap x[i], x[j]: the variable afterwards (observed by the harness)
           must be the Python list with exactly the position changed that the read addresses
  nested   (thorough) random nested lists and random index paths, read and write
"""
from fractions import Fraction
from .. import core
from ..values import norm, to_canon, Vec, src

RULE = ("cases = (sequence kind, length, access spelling, index or pair of slice bounds); the grid "
        "kinds {list, ascii string, multi-byte string, vector, bytes, 6 kinds of finite stream} x lengths "
        "0..6 (thorough 0..12) x indices/bounds in [-len-3, len+3] + {+-2^31, 2^31-1, 2^32, +-(2^63-1), -2^63, "
        "2^63, -2^63-1, +-2^64} + the same small values in big representation + {1.0, 1/2, rational(1), \"a\", "
        "[1], null} + omitted bound is enumerated completely (seed-independent); distinct = distinct case "
        "text; non-trivial = the sequence is non-empty or the index is not a plain in-word integer")
ASSUMPTIONS = [
    "CPython list/bytes indexing and slicing is the specification of 'Pythonic'",
    "slice bounds that do not fit a machine word may either raise or clamp like Python (the statement only promises no failure for in-word bounds); a null bound may raise or mean 'omitted'",
    "`s !? i` for -len <= i < 0 may give s[i] or null (the statement does not say which of the two the 'or null' accessor corresponds to); a non-integer index may give null or raise",
    "`!?` and `!%` refusing streams with a type error is counted (counter unsupported:...) and not judged",
    "fuel / crash outcomes are inconclusive here (C14 owns them); a panic on one of these cases is a violation (neither an element, a clamped slice nor an index error), and so is a break/continue/return leaving an access",
]
PLAN = {
    "quick": {"maxlen": 6, "nested": 0, "shards": 16},
    "thorough": {"maxlen": 12, "nested": 40000, "shards": 32},
}
EXHAUSTIVE = {"quick": True, "thorough": True}

REG = dict(level="exploration", min_nontrivial=50000,
           technique="runtime reference-model monitor: exhaustive bounded grid (kind x length x index/slice bounds x spelling) against CPython list/bytes indexing, write addressing observed through the variable afterwards",
           claim="Every access of the enumerated grid (all sequence kinds, lengths 0..6, every index and pair of slice bounds near the ends plus machine-word extremes and non-integers, read spellings, accessor builtins and write forms) gave exactly the value or error Python list/bytes indexing gives. Exhaustive for the bounded grid only; says nothing about longer sequences or other element values.",
           note="Trusts CPython slicing and the harness's structural value dump; out-of-word slice bounds and `!?` with in-range negative index are accepted either way (unspecified); panics are left to C14.")

B63 = 1 << 63
EXTREMES = [2 ** 31, -2 ** 31, 2 ** 31 - 1, 2 ** 32, B63 - 1, -(B63 - 1), -B63, B63, -B63 - 1, 2 ** 64, -2 ** 64]
INCONC = ("fuel", "depth", "timeout", "crash", "skipped", "lost", "panic", "parse", "empty")


# ---------------------------------------------------------------- index descriptors

class Ix:
    """An index / slice bound: py is a Python int, or None; cls in int|nonint|null|omit."""
    __slots__ = ("py", "text", "cls", "tag")

    def __init__(self, py, text, cls, tag):
        self.py, self.text, self.cls, self.tag = py, text, cls, tag


def lit(i):
    return str(i) if i >= 0 else "(-%d)" % (-i)


OMIT = Ix(None, "", "omit", "omit")
NONINT = [Ix(None, "1.0", "nonint", "float"), Ix(None, "(1/2)", "nonint", "rational"),
          Ix(None, "rational(1)", "nonint", "rational-integral"), Ix(None, '"a"', "nonint", "str"),
          Ix(None, "[1]", "nonint", "list")]
NULL = Ix(None, "null", "null", "null")


def int_ixs(n):
    out = [Ix(i, lit(i), "int", "near") for i in range(-n - 3, n + 4)]
    out += [Ix(i, lit(i), "int", "extreme") for i in EXTREMES]
    for k in sorted({0, -1, n, -n - 1, n - 1}):
        out.append(Ix(k, "(%s // 1)" % lit(k), "int", "bigrepr"))
    return out


def near_ixs(n):
    return [Ix(i, lit(i), "int", "near") for i in range(-n - 3, n + 4)]


def fits(i):
    return -B63 <= i < B63


def icls(ix, n):
    """coarse class of an index for violation keys"""
    if ix.cls != "int":
        return ix.cls if ix.cls != "nonint" else "nonint"
    i = ix.py
    if not fits(i):
        return "beyond"
    if abs(i) >= 2 ** 31:
        return "extreme"
    if 0 <= i < n:
        return "in"
    if -n <= i < 0:
        return "neg-in"
    return "out" if i >= 0 else "neg-out"


# ---------------------------------------------------------------- sequence models

class M:
    """kind: list|str|vec|bytes|stream; items: list of Python values, or bytes for str/bytes."""

    def __init__(self, kind, sub, items, text):
        self.kind, self.sub, self.items, self.text = kind, sub, items, text
        self.n = len(items)
        self.name = None

    @property
    def label(self):
        return self.kind if self.kind == self.sub else "%s:%s" % (self.kind, self.sub)

    @property
    def klabel(self):
        """label used in violation keys: both WrappedVec states share one"""
        return "stream:wrapped" if self.sub == "wrapped_off" else self.label


def soft(bs):
    try:
        return {"s": bytes(bs).decode("utf-8")}
    except UnicodeDecodeError:
        return {"b": bytes(bs).hex()}


def whole_c(m, items):
    """canonical value of a (sub)sequence of the model's kind"""
    if m.kind == "str":
        return soft(items)
    if m.kind == "bytes":
        return {"b": bytes(items).hex()}
    if m.kind == "vec":
        return to_canon(Vec(items))
    return to_canon(list(items))       # list; streams are compared by content


def elem_c(m, j):
    """canonical value of element j (0 <= j < n)"""
    if m.kind == "str":
        return soft(m.items[j:j + 1])
    if m.kind == "bytes":
        return {"i": str(m.items[j])}
    return to_canon(m.items[j])


def content(c):
    """stream results are compared by content: a fully drawn stream counts as the list of its elements"""
    if isinstance(c, dict):
        if "st" in c:
            st = c["st"]
            if st.get("more") or st.get("err") is not None:
                return {"st-unfinished": st.get("err") or "more than 64 elements"}
            return {"l": [content(x) for x in st.get("head", [])]}
        if "l" in c:
            return {"l": [content(x) for x in c["l"]]}
    return c


LIST_ITEMS = [10, "b", [30], 4.5, None, 60, 70, Fraction(1, 2), "i", 100, [], 120]
VEC_ITEMS = [10, 2.5, Fraction(1, 2), 40, -5, 60, 7.25, 80, 90, 100, 110, 120]
BYTE_ITEMS = bytes([1, 2, 255, 0, 128, 65, 7, 8, 9, 10, 11, 12])
ASCII = b"abcdefghijkl"
PIECES = [("é", 2), ("€", 3), ("\U0001F600", 4), ("a", 1)]


def mb_strings(n):
    """distinct strings of exactly n UTF-8 bytes that contain a multi-byte character"""
    out = []
    for rot in range(4):
        ps = PIECES[rot:] + PIECES[:rot]
        s, rem, k = "", n, 0
        while rem > 0:
            ch, sz = ps[k % 4]
            k += 1
            if sz <= rem:
                s += ch
                rem -= sz
        if any(ord(c) > 127 for c in s) and s not in out:
            out.append(s)
    return out[:2]


def tens(n):
    return [10 * (i + 1) for i in range(n)]


def stream_models(n):
    t = tens(n)
    return [
        M("stream", "range", t, "(10 til %d by 10)" % (10 * n + 10)),
        M("stream", "range_neg", t[::-1], "(%d til 0 by (-10))" % (10 * n)),
        M("stream", "wrapped", t, "stream(%s)" % src(t)),
        M("stream", "wrapped_off", t, "(stream(%s)[1:])" % src([0] + t)),
        M("stream", "mapped", t, "((1 to %d) lazy_map (* 10))" % n),
        M("stream", "range_drop", t, "((0 til %d by 10) drop 1)" % (10 * n + 10)),
        # bounds that are not a whole number of steps away from the start (closed forms that count from the
        # end bound instead of the last element go wrong exactly here)
        M("stream", "range_ragged", t, "(10 til %d by 10)" % (10 * n + 5)),
        M("stream", "range_to_ragged", t, "(10 to %d by 10)" % (10 * n + 7)),
        M("stream", "range_neg_ragged", t[::-1], "(%d til 3 by (-10))" % (10 * n)),
        M("stream", "range_ragged_drop", t, "((0 til %d by 10) drop 1)" % (10 * n + 4)),
    ]


def read_models(maxlen):
    ms = []
    for n in range(maxlen + 1):
        ms.append(M("list", "list", LIST_ITEMS[:n], src(LIST_ITEMS[:n])))
        ms.append(M("str", "ascii", ASCII[:n], src(ASCII[:n].decode())))
        for s in mb_strings(n):
            ms.append(M("str", "mb", s.encode("utf-8"), src(s)))
        ms.append(M("vec", "vec", VEC_ITEMS[:n], src(Vec(VEC_ITEMS[:n]))))
        ms.append(M("bytes", "bytes", BYTE_ITEMS[:n], src(BYTE_ITEMS[:n])))
        ms.extend(stream_models(n))
    for i, m in enumerate(ms):
        m.name = "q%d" % i
    return ms


# ---------------------------------------------------------------- expectations

class Exp:
    """ok-values that are acceptable (canonical, content-normalised for streams) and whether raising is acceptable"""
    __slots__ = ("vals", "throw")

    def __init__(self, vals, throw):
        self.vals, self.throw = vals, throw

    def show(self):
        parts = ["null" if v is None else str(v)[:160] for v in self.vals]
        if self.throw:
            parts.append("<raises>")
        return " or ".join(parts)


def V_(c):
    return Exp([c], False)


THROW = Exp([], True)


def exp_index(m, ix):
    if ix.cls != "int":
        return THROW
    i = ix.py
    if -m.n <= i < m.n:
        return V_(elem_c(m, i % m.n))
    return THROW


def exp_slice(m, a, b):
    """a, b: Ix (possibly OMIT)"""
    if a.cls == "nonint" or b.cls == "nonint":
        return THROW
    lo = a.py if a.cls == "int" else None
    hi = b.py if b.cls == "int" else None
    val = whole_c(m, m.items[lo:hi])
    soft_ = any(x.cls == "null" for x in (a, b)) or any(x.cls == "int" and not fits(x.py) for x in (a, b))
    return Exp([val], soft_)


def exp_safe(m, ix):
    if ix.cls != "int":
        return Exp([None], True)
    i = ix.py
    if 0 <= i < m.n:
        return V_(elem_c(m, i))
    if -m.n <= i < 0:
        return Exp([elem_c(m, i % m.n), None], False)
    return V_(None)


def exp_cyclic(m, ix):
    if ix.cls != "int" or m.n == 0:
        return THROW
    v = elem_c(m, ix.py % m.n)
    return Exp([v], not fits(ix.py))


# ---------------------------------------------------------------- case collection / judging

class Case:
    __slots__ = ("text", "exp", "key", "m", "nontriv", "op", "defs", "xexp", "base", "verdict")

    def __init__(self, text, exp, key, m, nontriv, op, defs=(), xexp=None, base=None):
        self.text, self.exp, self.key, self.m, self.nontriv, self.op = text, exp, key, m, nontriv, op
        self.defs = list(defs)
        self.xexp = xexp          # [content of x after success, content of x after a raise]
        self.base = base          # the same access in its plain spelling (judged earlier); a spelling variant that
        self.verdict = None       # fails exactly like its base is counted under the base's key


class Runner:
    def __init__(self, sh, w, prelude):
        self.sh, self.w, self.prelude = sh, w, prelude
        self.perkey = {}
        self.njudged = 0
        self.pending = []        # (stmt_text, [cases])  read cases, batched
        self.wpending = []       # write cases, one per statement, x observed

    def add(self, cases):
        """cases that must not raise may share one statement (a list literal)"""
        safe = [c for c in cases if not c.exp.throw]
        for c in cases:
            if c.exp.throw:
                self.pending.append((c.text, [c]))
        chunk = []
        for c in safe + [None]:
            # a chunk never separates a spelling variant from its base
            if chunk and (c is None or (c.base is None and len(chunk) >= 20)):
                if len(chunk) == 1:
                    self.pending.append((chunk[0].text, chunk))
                else:
                    self.pending.append(("[" + ", ".join(x.text for x in chunk) + "]", chunk))
                chunk = []
            if c is not None:
                chunk.append(c)
        if len(self.pending) >= 300:
            self.flush()

    def addw(self, case):
        self.wpending.append(case)
        if len(self.wpending) >= 300:
            self.flushw()

    def flush(self):
        batch, self.pending = self.pending, []
        if not batch:
            return
        evs = core.eval_all(self.w, [b[0] for b in batch], prelude=self.prelude, fresh_each=True, child_each=True,
                            rebase_every=2000, fuel=200000, jid="c10")
        redo = []
        for (text, cases), ev in zip(batch, evs):
            if len(cases) == 1:
                self.judge(cases[0], ev)
                continue
            v = ev.get("v")
            if ev.get("o") == "ok" and isinstance(v, dict) and "l" in v and len(v["l"]) == len(cases):
                for c, x in zip(cases, v["l"]):
                    self.judge(c, {"o": "ok", "v": x})
            else:
                redo.extend(cases)
        if redo:
            self.sh.count("batches_rerun_singly", len(redo))
            evs = core.eval_all(self.w, [c.text for c in redo], prelude=self.prelude, fresh_each=True, child_each=True,
                                rebase_every=2000, fuel=200000, jid="c10r")
            for c, ev in zip(redo, evs):
                self.judge(c, ev)

    def flushw(self):
        batch, self.wpending = self.wpending, []
        if not batch:
            return
        evs = core.eval_all(self.w, [c.text for c in batch], prelude=self.prelude, fresh_each=True, child_each=True,
                            rebase_every=2000, fuel=200000, observe=["x"], jid="c10w")
        for c, ev in zip(batch, evs):
            self.judge(c, ev)

    def replay(self, c):
        job = {"kind": "eval", "prelude": c.defs, "stmts": [c.text], "fresh_each": True}
        if c.xexp is not None:
            job["observe"] = ["x"]
        rp = {"job": job, "expected": c.exp.show()}
        if c.xexp is not None:
            rp["expected_x_afterwards"] = c.xexp
        return rp

    def violation(self, c, key, what, replay):
        """at most 2 recorded occurrences per key and shard (core caps the list at 400 entries per shard)"""
        c.verdict = key.rsplit("|", 1)[1]
        if c.base is not None and c.base.verdict == c.verdict:
            self.sh.count("variant_fails_like_base:" + c.op)
            self.sh.count("violations_total")
            return
        k = self.perkey.get(key, 0)
        self.perkey[key] = k + 1
        if k < 2:
            self.sh.violation(key, what, replay)
        else:
            self.sh.count("violations_total")

    def judge(self, c, ev):
        sh = self.sh
        sh.seen(c.text, c.nontriv)
        sh.count("op:" + c.op)
        sh.count("kind:" + c.m.label)
        sh.count("len:%d" % c.m.n)
        o = ev.get("o")
        if o == "panic":
            # the property promises an element, a clamped slice or an index error for EVERY index: an internal panic
            # (e.g. arithmetic overflow on an extreme index) is neither
            pm = (ev.get("panic") or {}).get("msg", "")
            self.violation(c, "%s|panic" % c.key, "%s panicked inside the interpreter: %s" % (c.text, pm[:100]), self.replay(c))
            return
        if o in INCONC:
            if o == "crash" and ev.get("why") not in ("alloc", "stack", "killed"):
                sh.inconc("crash:" + str(ev.get("why")), c.text)
            else:
                sh.inconc(o, c.text)
            return
        sh.count("outcome:" + ("ok" if o == "ok" else "raise"))
        if o == "ok":
            got = norm(ev.get("v"))
            if c.m.kind == "stream":
                got = content(got)
            if got not in c.exp.vals:
                verdict = "wrong" if c.exp.vals else "noraise"
                self.violation(c, "%s|%s" % (c.key, verdict), "%s = %s, expected %s" % (c.text, str(got)[:160], c.exp.show()),
                             self.replay(c))
                return
        else:
            if o in ("break", "continue", "return"):
                # "raises an index error" means an ordinary catchable error, not a loop exit leaving the access
                self.violation(c, "%s|escaped-%s" % (c.key, o), "%s ended as `%s` (%s) instead of a value or a catchable error" % (
                    c.text, o, str(ev.get("err"))[:60]), self.replay(c))
                return
            if not c.exp.throw:
                err = str(ev.get("err") or ev.get("thrown") or o)
                if c.op in ("!?", "!%") and c.m.kind == "stream" and "type error" in err:
                    sh.count("unsupported:%s|stream" % c.op)
                    return
                self.violation(c, "%s|raised" % c.key, "%s raised (%s), expected %s" % (c.text, err[:100], c.exp.show()),
                             self.replay(c))
                return
        if c.xexp is not None:
            xv = (ev.get("vars") or {}).get("x")
            if isinstance(xv, dict) and ("absent" in xv or "borrowed" in xv):
                sh.inconc("x-not-observable", c.text)
                return
            gx = content(norm(xv))
            # after a raise the variable must still have its old content; after success the new one
            want = c.xexp[0] if o == "ok" else c.xexp[1]
            if gx != want:
                self.violation(c, "%s|%s" % (c.key, "x-wrong" if o == "ok" else "x-changed-by-failed-write"),
                             "after %s (%s) x = %s, expected %s" % (c.text, "ok" if o == "ok" else "raised", str(gx)[:160], str(want)[:160]),
                             self.replay(c))
                return
        self.njudged += 1
        if c.m.n >= 3 and self.njudged % 1009 == 0:
            sh.sample({"case": c.text, "sequence": c.m.text, "outcome": o, "observed": ev.get("v") if o == "ok" else ev.get("err"),
                       "expected": c.exp.show(), "x_afterwards": (ev.get("vars") or {}).get("x")}, cap=5)


def pcls(a, b, n):
    """coarse class of a pair of slice bounds for violation keys (most exotic bound wins)"""
    cs = [icls(a, n), icls(b, n)]
    for c in ("nonint", "null", "beyond", "extreme"):
        if c in cs:
            return c
    if "neg-in" in cs or "neg-out" in cs:
        return "neg"
    return "plain"


def nontriv(m, *ixs):
    return m.n > 0 or any(ix.cls != "int" or ix.tag != "near" for ix in ixs)


# ---------------------------------------------------------------- unit generators

def unit_index(R, m, _):
    d = ["%s := %s" % (m.name, m.text)]
    cases = []
    for ix in int_ixs(m.n) + NONINT + [NULL]:
        e = exp_index(m, ix)
        k = icls(ix, m.n)
        nt = nontriv(m, ix)
        forms = [("index", "%s[%s]" % (m.name, ix.text), d), ("!!", "%s !! %s" % (m.name, ix.text), d),
                 ("index()", "index(%s, %s)" % (m.name, ix.text), d),
                 ("_[i]", "(_[%s])(%s)" % (ix.text, m.name), d), ("(!! i)", "(!! %s)(%s)" % (ix.text, m.name), d)]
        if m.kind == "stream" or ix.tag != "near":
            forms.append(("index-inline", "(%s)[%s]" % (m.text, ix.text), []))
        base = None
        for op, text, defs in forms:
            c = Case(text, e, "C10|%s|%s|%s" % (op, m.klabel, k), m, nt, op, defs, base=base)
            base = base or c
            cases.append(c)
    R.add(cases)


def slice_bounds(m):
    return [OMIT] + int_ixs(m.n) + NONINT + [NULL]


def unit_slice(R, m, ai):
    bounds = slice_bounds(m)
    a = bounds[ai]
    d = ["%s := %s" % (m.name, m.text)]
    cases = []
    for b in bounds:
        e = exp_slice(m, a, b)
        key = "%s|%s" % (m.klabel, pcls(a, b, m.n))
        nt = nontriv(m, a, b)
        base = Case("%s[%s:%s]" % (m.name, a.text, b.text), e, "C10|slice|" + key, m, nt, "slice", d)
        cases.append(base)
        if a.tag in ("near", "omit") and b.tag in ("near", "omit"):
            cases.append(Case("(_[%s:%s])(%s)" % (a.text, b.text, m.name), e, "C10|_[a:b]|" + key, m, nt, "_[a:b]", d, base=base))
            if m.kind == "stream":
                cases.append(Case("(%s)[%s:%s]" % (m.text, a.text, b.text), e, "C10|slice-inline|" + key, m, nt, "slice-inline", [], base=base))
    R.add(cases)


def unit_access(R, m, _):
    d = ["%s := %s" % (m.name, m.text)]
    q = m.name
    n = m.n
    cases = []

    def add(op, text, e, cls=""):
        cases.append(Case(text, e, "C10|%s|%s%s" % (op, m.klabel, "|" + cls if cls else ""), m, True, op, d))

    def at(i):
        return V_(elem_c(m, i % n)) if -n <= i < n else THROW

    for f, i in (("first", 0), ("second", 1), ("third", 2), ("last", -1)):
        add(f, "%s(%s)" % (f, q), at(i))
        add(f, "%s then %s" % (q, f), at(i))
        if m.kind == "stream":
            add(f, "%s(%s)" % (f, m.text), at(i))
    add("tail", "tail(%s)" % q, V_(whole_c(m, m.items[1:])))
    add("butlast", "butlast(%s)" % q, V_(whole_c(m, m.items[:-1])))
    if n:
        add("uncons", "uncons(%s)" % q, V_({"l": [elem_c(m, 0), whole_c(m, m.items[1:])]}))
        add("unsnoc", "unsnoc(%s)" % q, V_({"l": [whole_c(m, m.items[:-1]), elem_c(m, n - 1)]}))
        add("uncons?", "uncons?(%s)" % q, V_({"l": [elem_c(m, 0), whole_c(m, m.items[1:])]}))
        add("unsnoc?", "unsnoc?(%s)" % q, V_({"l": [whole_c(m, m.items[:-1]), elem_c(m, n - 1)]}))
    else:
        add("uncons", "uncons(%s)" % q, THROW)
        add("unsnoc", "unsnoc(%s)" % q, THROW)
        add("uncons?", "uncons?(%s)" % q, V_(None))
        add("unsnoc?", "unsnoc?(%s)" % q, V_(None))
    add("only", "only(%s)" % q, V_(elem_c(m, 0)) if n == 1 else THROW)
    fresh = {"list": "(%s ++ [])", "vec": "(%s ++ V())", "bytes": "(%s ++ B[])", "str": "(%s $ \"\")"}.get(m.kind)
    fresh = fresh % q if fresh else None
    for ix in int_ixs(n) + NONINT + [NULL]:
        k = icls(ix, n)
        e = exp_slice(m, OMIT, ix)
        add("take", "%s take %s" % (q, ix.text), e, k)
        add("take", "take(%s, %s)" % (q, ix.text), e, k)
        e = exp_slice(m, ix, OMIT)
        add("drop", "%s drop %s" % (q, ix.text), e, k)
        add("drop", "drop(%s, %s)" % (q, ix.text), e, k)
        add("!?", "%s !? %s" % (q, ix.text), exp_safe(m, ix), k)
        add("!%", "%s !%% %s" % (q, ix.text), exp_cyclic(m, ix), k)
        if fresh:
            # the same access on a freshly computed, uniquely owned temporary instead of a value held by a variable
            # (literals are shared constants): move-instead-of-copy fast paths must address the same positions
            add("take", "%s take %s" % (fresh, ix.text), exp_slice(m, OMIT, ix), k + "|temp" if k else "temp")
            add("drop", "%s drop %s" % (fresh, ix.text), exp_slice(m, ix, OMIT), k + "|temp" if k else "temp")
    if fresh:
        add("tail", "tail%s" % fresh, V_(whole_c(m, m.items[1:])), "temp")
        add("butlast", "butlast%s" % fresh, V_(whole_c(m, m.items[:-1])), "temp")
        add("last", "last%s" % fresh, at(-1), "temp")
    R.add(cases)


# write addressing ------------------------------------------------------------------------------

def write_models(maxlen):
    ms = []
    for n in range(maxlen + 1):
        t = tens(n)
        ms.append(M("list", "list", t, src(t)))
        ms.append(M("vec", "vec", t, src(Vec(t))))
        ms.append(M("bytes", "bytes", bytes(t), src(bytes(t))))
        ms.append(M("str", "ascii", ASCII[:n], src(ASCII[:n].decode())))
        ms.extend(stream_models(n))
    for i, m in enumerate(ms):
        m.name = "w%d" % i
    return ms


def after_c(m, items):
    """content of x after a successful write: a stream variable has been forced to a list"""
    return whole_c(m, items)


def wcase(R, m, op, k, text, vexp, new_items, defs=(), base=None):
    """text starts with `x := ...;`.  vexp: Exp for the statement value (None = do not care, success expected),
    new_items: items of x after success (None if the write must raise)"""
    old = content(whole_c(m, m.items))
    if new_items is None:
        exp = THROW
        xexp = [old, old]
    else:
        exp = vexp if vexp is not None else Exp([None], False)
        xexp = [content(after_c(m, new_items)), old]
    c = Case(text, exp, "C10|%s|%s|%s" % (op, m.klabel, k), m, True, op, defs, xexp, base=base)
    R.addw(c)
    return c


NEWV = {"list": (999, "999"), "stream": (999, "999"), "vec": (999, "999"), "bytes": (200, "200"), "str": (ord("Z"), '"Z"')}


def repl(m, j, v):
    items = list(m.items)
    items[j] = v
    return bytes(items) if isinstance(m.items, bytes) else items


def unit_write_index(R, m, _):
    n = m.n
    nv, nvtext = NEWV[m.kind]
    d = ["%s := %s" % (m.name, m.text)]
    for ix in int_ixs(n) + NONINT + [NULL]:
        k = icls(ix, n)
        ok = ix.cls == "int" and -n <= ix.py < n
        j = ix.py % n if ok else None
        b = wcase(R, m, "assign", k, "x := %s; x[%s] = %s" % (m.text, ix.text, nvtext), None, repl(m, j, nv) if ok else None)
        wcase(R, m, "assign-shared", k, "x := %s; x[%s] = %s" % (m.name, ix.text, nvtext), None, repl(m, j, nv) if ok else None, d, base=b)
        if m.kind in ("list", "vec", "stream"):
            wcase(R, m, "op-assign", k, "x := %s; x[%s] += 5" % (m.text, ix.text), None, repl(m, j, m.items[j] + 5) if ok else None)
        if m.kind == "list":
            # |.. returns the updated copy; x is the untouched original
            val = Exp([to_canon(repl(m, j, 999))], False) if ok else THROW
            R.addw(Case("x := %s; x |.. [%s, 999]" % (m.text, ix.text), val, "C10||..|%s|%s" % (m.klabel, k), m, True, "|..",
                        [], [content(whole_c(m, m.items))] * 2))
            rest = list(m.items)
            if ok:
                del rest[j]
            b = wcase(R, m, "remove", k, "x := %s; remove x[%s]" % (m.text, ix.text), V_(to_canon(m.items[j])) if ok else None, rest if ok else None)
            wcase(R, m, "remove-shared", k, "x := %s; remove x[%s]" % (m.name, ix.text), V_(to_canon(m.items[j])) if ok else None, rest if ok else None, d, base=b)
    if m.kind == "list":
        wcase(R, m, "pop", "", "x := %s; pop x" % m.text, V_(to_canon(m.items[-1])) if n else None, m.items[:-1] if n else None)


def unit_write_pairs(R, m, _):
    """list only: remove x[a:b], every x[a:b] = v, swap x[i], x[j]"""
    n = m.n
    bounds = [OMIT] + near_ixs(n) + [Ix(i, lit(i), "int", "extreme") for i in (B63 - 1, -B63)]
    for a in bounds:
        for b in bounds:
            k = pcls(a, b, n)
            lo, hi = a.py, b.py
            part = m.items[lo:hi]
            start, stop, _ = slice(lo, hi).indices(n)
            stop = max(stop, start)
            wcase(R, m, "remove-slice", k, "x := %s; remove x[%s:%s]" % (m.text, a.text, b.text), V_(to_canon(part)),
                  m.items[:start] + m.items[stop:])
            wcase(R, m, "every-slice", k, "x := %s; every x[%s:%s] = 999" % (m.text, a.text, b.text), None,
                  m.items[:start] + [999] * (stop - start) + m.items[stop:])
    for a in near_ixs(n):
        for b in near_ixs(n):
            k = pcls(a, b, n)
            ok = -n <= a.py < n and -n <= b.py < n
            new = None
            if ok:
                new = list(m.items)
                i, j = a.py % n, b.py % n
                new[i], new[j] = new[j], new[i]
            wcase(R, m, "swap", k, "x := %s; swap x[%s], x[%s]" % (m.text, a.text, b.text), None, new)


def nest_model(n):
    items = [[10 * (i + 1) + j for j in range(1 + (i % 3))] for i in range(n)]
    m = M("list", "nested", items, src(items))
    m.name = "nest%d" % n
    return m


def unit_write_nested(R, m, _):
    """pop x[i] and x[i][j] = v on a list of lists"""
    n = m.n
    for ix in near_ixs(n) + [Ix(i, lit(i), "int", "extreme") for i in EXTREMES[:6]]:
        k = icls(ix, n)
        ok = -n <= ix.py < n
        j = ix.py % n if ok else None
        if ok and m.items[j]:
            new = [list(r) for r in m.items]
            popped = new[j].pop()
            wcase(R, m, "pop-indexed", k, "x := %s; pop x[%s]" % (m.text, ix.text), V_(to_canon(popped)), new)
        else:
            wcase(R, m, "pop-indexed", k, "x := %s; pop x[%s]" % (m.text, ix.text), None, None)
        for jx in near_ixs(2):
            k2 = k + "," + (icls(jx, len(m.items[j])) if ok else "-")
            ok2 = ok and -len(m.items[j]) <= jx.py < len(m.items[j])
            new = None
            if ok2:
                new = [list(r) for r in m.items]
                new[j][jx.py % len(new[j])] = 999
            wcase(R, m, "assign-path", k2, "x := %s; x[%s][%s] = 999" % (m.text, ix.text, jx.text), None, new)
            # read through the same path
            if ok2:
                e = V_(to_canon(m.items[j][jx.py % len(m.items[j])]))
            else:
                e = THROW
            R.add([Case("(%s)[%s][%s]" % (m.text, ix.text, jx.text), e, "C10|index-path|list:nested|" + k2, m, True, "index-path")])


# random nested paths (thorough) ----------------------------------------------------------------

def rand_nested(r, depth):
    n = r.randint(0, 4)
    out = []
    for _ in range(n):
        if depth < 3 and r.random() < 0.5:
            out.append(rand_nested(r, depth + 1))
        else:
            out.append(r.randint(0, 99))
    return out


def unit_random_nested(R, r, count):
    for _ in range(count):
        val = rand_nested(r, 0)
        m = M("list", "random-nested", val, src(val))
        path = []
        cur = val
        okp = True
        for _ in range(r.randint(1, 4)):
            if isinstance(cur, list):
                ln = len(cur)
                i = r.choice([r.randint(-ln - 1, ln), r.randint(-ln - 1, ln), r.choice(EXTREMES)])
            else:
                i = r.randint(-1, 1)
            path.append(i)
            if okp and isinstance(cur, list) and -len(cur) <= i < len(cur):
                cur = cur[i]
            else:
                okp = False
        ptxt = "".join("[%s]" % lit(i) for i in path)
        k = "depth%d|%s" % (len(path), "in" if okp else "out")
        R.add([Case("(%s)%s" % (m.text, ptxt), V_(to_canon(cur)) if okp else THROW, "C10|index-path|list:random|" + k, m, True, "index-path")])
        new = None
        if okp:
            import copy
            new = copy.deepcopy(val)
            t = new
            for i in path[:-1]:
                t = t[i]
            t[path[-1]] = 999
        wcase(R, m, "assign-path", "random|" + k, "x := %s; x%s = 999" % (m.text, ptxt), None, new)


# ---------------------------------------------------------------- shard

def all_units(maxlen):
    units = []
    rms = read_models(maxlen)
    for m in rms:
        units.append((unit_index, m, 0))
        units.append((unit_access, m, 0))
        for ai in range(len(slice_bounds(m))):
            units.append((unit_slice, m, ai))
    wms = write_models(maxlen)
    for m in wms:
        units.append((unit_write_index, m, 0))
        if m.kind == "list":
            units.append((unit_write_pairs, m, 0))
    for n in range(maxlen + 1):
        units.append((unit_write_nested, nest_model(n), 0))
    prelude = ["%s := %s" % (m.name, m.text) for m in rms + wms]
    return units, prelude


def shard(ctx, si, n):
    sh = core.Shard("C10")
    units, prelude = all_units(ctx.plan["maxlen"])
    w = core.Worker()
    try:
        R = Runner(sh, w, prelude)
        # heavy units first, dealt round-robin
        for u in units[si::n]:
            u[0](R, u[1], u[2])
        if ctx.plan["nested"]:
            r = core.rng_for("C10", ctx.seed, si)
            unit_random_nested(R, r, ctx.plan["nested"] // n)
        R.flush()
        R.flushw()
    finally:
        w.close()
    return sh
