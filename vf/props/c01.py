"""C01  Collections have value semantics: mutation never leaks through an alias.

Sub-monitors
  histories  seeded histories of 30-60 mutation statements over 3-7 variables holding nested, heavily
             aliased lists / dicts (with and without default) / strings / vectors / bytes / struct
             instances.  The generator keeps a Python model (deep copy on every read) and only emits
             statements that are valid in the model state; after EVERY statement the harness dumps all
             variables and they are compared with the model (reference-model monitor).  Physical sharing
             (Rc pointer / strong count per container node) is recorded to show that mutations really
             hit shared payloads (copy-on-write path) as well as unshared ones.
  closures   values captured by closures (`mk := \\c -> (\\ -> c)`) must keep their captured value
  calls      every non-excluded global callable and a family of parameter-mutating user closures is
             applied to variables; the variables must be unchanged afterwards
  inject     (thorough) histories replayed with an error injected at the n-th evaluation step of
             statement k: every variable NOT named by statement k must be unchanged
"""
from .. import core, pool
from ..values import norm, to_canon, src, deep, Vec, NDict, Inst, ckey

RULE = ("case = one statement of a generated history (model-valid mutation statement over nested aliased "
        "collections) checked against the copy-on-assignment model on all variables; distinct = distinct "
        "(history seed, statement index, statement text); non-trivial = a mutation statement executed while a "
        "container node of the target variable was physically shared (Rc strong count > 1), i.e. the "
        "copy-on-write path with a live alias; plus (callable, argument variable) cases for the call monitor")
ASSUMPTIONS = ["the Python model (deep copy on every read) is the specification of copy-on-assignment semantics",
               "only model-valid statements are generated, so no error text is ever predicted",
               "container size <= 12, nesting depth <= 4, ints/short strings as leaves"]
PLAN = {"quick": {"histories": 2400, "calls_pairs": 20, "inject": 300, "shards": 16},
        "thorough": {"histories": 24000, "calls_pairs": 92, "inject": 3000, "shards": 64}}
REG = dict(level="exploration", min_nontrivial=3000,
           technique="reference-model monitor over generated mutation histories: all variables dumped after every statement and compared with a deep-copy Python model; Rc sharing observed per statement; call sweep and fuel-hook fault injection check that unnamed variables never change",
           claim="On every executed history every variable held exactly the model value after every statement, including statements that hit physically shared payloads; calling any swept callable left its argument variables unchanged. Exploration over generated histories only.",
           note="Trusts the harness's structural dump and the Python deep-copy model; bounds: <= 60 statements, <= 7 variables, depth <= 4.")

VARS = ["a", "b", "c", "d", "e", "g", "h"]
STRUCT_PRELUDE = ["struct P (pa, pb)", "res := null", "mk := \\c -> (\\ -> c)", "mut := \\q -> (q[0] = 99; q)",
                  "app := \\q -> (q append= 7; q)", "tmp := null"]


# ---------------------------------------------------------------- model helpers

def is_list(v):
    return isinstance(v, list) and not isinstance(v, Vec)


def rand_leaf(r):
    k = r.random()
    if k < 0.6:
        return r.randint(0, 9)
    if k < 0.85:
        return r.choice(["", "a", "bc", "xyz"])
    return None


def rand_value(r, depth=0):
    k = r.random()
    if depth >= 3 or k < 0.25:
        return rand_leaf(r)
    if k < 0.60:
        return [rand_value(r, depth + 1) for _ in range(r.randint(0, 4))]
    if k < 0.78:
        d = NDict()
        for _ in range(r.randint(0, 3)):
            key = r.choice([1, 2, 3, "k", "m"])
            d.m[ckey(key)] = (key, rand_value(r, depth + 1))
        if r.random() < 0.3:
            d.has_default = True
            d.default = r.choice([0, [], "", [1]])
        return d
    if k < 0.85:
        return Vec(r.randint(0, 9) for _ in range(r.randint(1, 4)))
    if k < 0.90:
        return bytes(r.randint(0, 255) for _ in range(r.randint(1, 4)))
    if k < 0.95:
        return r.choice(["abc", "hello", "q"])
    return Inst("P", [rand_value(r, depth + 1), rand_value(r, depth + 1)])


def vsrc(v):
    if isinstance(v, Inst):
        return "P(%s, %s)" % (vsrc(v.fields[0]), vsrc(v.fields[1]))
    if is_list(v):
        return "[%s]" % ", ".join(vsrc(x) for x in v)
    if isinstance(v, NDict):
        body = ", ".join("%s: %s" % (src(k), vsrc(x)) for k, x in v.m.values())
        if v.has_default:
            body = ":" + vsrc(v.default) + (", " + body if body else "")
        return "{%s}" % body
    return src(v)


def size_of(v):
    if isinstance(v, Inst):
        return 1 + sum(size_of(x) for x in v.fields)
    if is_list(v):
        return 1 + sum(size_of(x) for x in v)
    if isinstance(v, NDict):
        return 1 + sum(size_of(x) for _, x in v.m.values())
    return 1


FIELDS = ["pa", "pb"]


MISSING_KEYS = [1, 2, 7, "k", "zz", "m"]


def random_path(r, v, want=None, maxlen=3, materialise=False):
    """Random valid path into v.  Returns (steps, target) where steps is a list of
    ("i", idx) | ("k", key) | ("f", field index).  want: predicate on the target.
    materialise=True (mutating statements only): the path may go through a MISSING key of a dict that
    has a default; such statements first insert a copy of the default under that key (documented
    behaviour of `d[k] f= v`, `pop d[k]`, ...).  The insertion is applied to the model only for the
    path that is finally returned."""
    for _ in range(12):
        steps = []
        cur = v
        n = r.randint(0, maxlen)
        for _ in range(n):
            if is_list(cur) and cur:
                i = r.randrange(len(cur))
                steps.append(("i", i - len(cur) if r.random() < 0.3 else i))
                cur = cur[i]
            elif isinstance(cur, NDict) and materialise and cur.has_default and r.random() < 0.35:
                key = r.choice(MISSING_KEYS)
                steps.append(("k", key))
                cur = cur.m[ckey(key)][1] if ckey(key) in cur.m else deep(cur.default)
            elif isinstance(cur, NDict) and cur.m:
                kk = r.choice(list(cur.m))
                steps.append(("k", cur.m[kk][0]))
                cur = cur.m[kk][1]
            elif isinstance(cur, Inst):
                f = r.randrange(2)
                steps.append(("f", f))
                cur = cur.fields[f]
            else:
                break
        if want is None or want(cur):
            if materialise:
                cur = materialise_path(v, steps)
            return steps, cur
    return None


def materialise_path(v, steps):
    cur = v
    for kind, x in steps:
        if kind == "i":
            cur = cur[x]
        elif kind == "k":
            if ckey(x) not in cur.m:
                cur.m[ckey(x)] = (x, deep(cur.default))
            cur = cur.m[ckey(x)][1]
        else:
            cur = cur.fields[x]
    return cur


def path_src(name, steps):
    out = name
    for kind, x in steps:
        if kind == "i":
            out += "[%s]" % src(x)
        elif kind == "k":
            out += "[%s]" % src(x)
        else:
            out += "[%s]" % FIELDS[x]
    return out


def get_path(v, steps):
    cur = v
    for kind, x in steps:
        if kind == "i":
            cur = cur[x]
        elif kind == "k":
            cur = cur.m[ckey(x)][1]
        else:
            cur = cur.fields[x]
    return cur


def set_path(root, steps, value):
    """Return root with the slot replaced (mutates the model in place; the model owns its values)."""
    if not steps:
        return value
    cur = root
    for kind, x in steps[:-1]:
        if kind == "i":
            cur = cur[x]
        elif kind == "k":
            cur = cur.m[ckey(x)][1]
        else:
            cur = cur.fields[x]
    kind, x = steps[-1]
    if kind == "i":
        cur[x] = value
    elif kind == "k":
        old = cur.m.get(ckey(x))
        cur.m[ckey(x)] = (old[0] if old else x, value)
    else:
        cur.fields[x] = value
    return root


def path_valid(v, steps):
    """The path exists and every container on it accepts assignment of an arbitrary value
    (list slot, dict key, struct field — not a string/vector/bytes element)."""
    cur = v
    try:
        for kind, x in steps:
            if kind == "i":
                if not is_list(cur):
                    return False
                cur = cur[x]
            elif kind == "k":
                if not isinstance(cur, NDict):
                    return False
                cur = cur.m[ckey(x)][1]
            else:
                if not isinstance(cur, Inst):
                    return False
                cur = cur.fields[x]
        return True
    except Exception:
        return False


# ---------------------------------------------------------------- expression generator (creates sharing)

def gen_expr(r, st, depth=0):
    """-> (source, model value).  Reads are deep copies in the model."""
    names = list(st)
    k = r.random()
    if not names or k < 0.15:
        v = rand_value(r, 1)
        return vsrc(v), v
    w = r.choice(names)
    wv = st[w]
    if k < 0.35:
        return w, deep(wv)
    if k < 0.50:
        p = random_path(r, wv)
        if p:
            return path_src(w, p[0]), deep(p[1])
        return w, deep(wv)
    if k < 0.58 and is_list(wv):
        a = r.randint(0, len(wv))
        b = r.randint(a, len(wv))
        return "%s[%d:%d]" % (w, a, b), deep(wv[a:b])
    if k < 0.66:
        return "[%s, %s]" % (w, w), [deep(wv), deep(wv)]
    if k < 0.72 and size_of(wv) <= 8:
        n = r.randint(0, 3)
        return "([%s] ** %d)" % (w, n), [deep(wv) for _ in range(n)]
    if k < 0.78:
        key = r.choice([1, "k"])
        return "{%s: %s}" % (src(key), w), NDict([(key, deep(wv))])
    if k < 0.84:
        w2 = r.choice(names)
        return "P(%s, %s)" % (w, w2), Inst("P", [deep(wv), deep(st[w2])])
    if k < 0.88:
        return "id(%s)" % w, deep(wv)
    if k < 0.93 and is_list(wv) and wv:
        nv = deep(wv)
        nv[0] = 99
        return "mut(%s)" % w, nv
    if k < 0.97 and is_list(wv):
        return "app(%s)" % w, deep(wv) + [7]
    return "(%s; %s)" % (w, w), deep(wv)


# ---------------------------------------------------------------- statement generator

def total_size(st):
    return sum(size_of(v) for v in st.values())


def gen_stmt(r, st, closures, counter):
    """Returns (source, kind, named_vars) after applying the statement to the model `st`,
    or None if the chosen kind was not applicable."""
    names = list(st)
    kind = r.choice(["decl", "assign", "idx", "idx", "idx", "opassign", "opassign", "opassign", "every_slice", "every_vars",
                     "every_dict", "pop", "remove", "remove_slice", "remove_key", "consume", "swap", "swap", "update",
                     "elem", "dotassign", "closure_make", "closure_call", "forloop", "default_mat", "nested_append", "failed", "failed",
                     "idx_equal_other_type", "and_op", "and_op", "every_op_slice", "idx_order", "swap_same"])
    big = total_size(st) > 160
    if kind == "decl":
        free = [v for v in VARS if v not in st]
        if not free:
            return None
        name = r.choice(free)
        s, v = gen_expr(r, st)
        if big and size_of(v) > 6:
            return None
        st[name] = v
        return "%s := %s" % (name, s), kind, [name]
    names = [n_ for n_ in names if n_ in VARS]     # res/tmp are result slots, never mutation targets
    if not names:
        return None
    x = r.choice(names)
    xv = st[x]
    if kind == "assign":
        s, v = gen_expr(r, st)
        if big and size_of(v) > size_of(xv):
            return None
        # keep histories interesting: rarely replace a container by a leaf
        if size_of(xv) > 1 and size_of(v) == 1 and r.random() < 0.85:
            return None
        st[x] = v
        return "%s = %s" % (x, s), kind, [x]
    if kind == "idx":
        p = random_path(r, xv)
        if not p or not p[0]:
            return None
        # the parent of the target must accept assignment of any value: list slot, dict key, struct field
        s, v = gen_expr(r, st)
        if big and size_of(v) > 6:
            return None
        st[x] = set_path(xv, p[0], v)
        return "%s = %s" % (path_src(x, p[0]), s), kind, [x]
    if kind == "opassign":
        op = r.choice(["+", "append", "++", "$", "max", "*", "||", "|.", "min", "append", "++"])
        want = {"+": lambda t: isinstance(t, int) and not isinstance(t, bool), "*": lambda t: isinstance(t, int),
                "max": lambda t: isinstance(t, int), "min": lambda t: isinstance(t, int),
                "append": is_list, "++": is_list, "$": lambda t: isinstance(t, str),
                "||": lambda t: isinstance(t, NDict), "|.": lambda t: isinstance(t, NDict)}[op]
        p = random_path(r, xv, want)
        if not p:
            return None
        steps, tv = p
        # a string slot inside a string/bytes/vector is not generated (element kinds are fixed there)
        if op in ("+", "*", "max", "min"):
            n = r.randint(0, 9)
            nv = {"+": tv + n, "*": tv * n, "max": max(tv, n), "min": min(tv, n)}[op]
            rs = str(n)
        elif op == "append":
            if big:
                return None
            rs, ev = gen_expr(r, st)
            if size_of(ev) > 8 or len(tv) >= 12:
                return None
            nv = tv + [ev]
        elif op == "++":
            others = [(n_, v_) for n_, v_ in st.items() if is_list(v_) and len(v_) <= 4]
            if others and r.random() < 0.6:
                n_, v_ = r.choice(others)
                rs, ev = n_, deep(v_)
            else:
                ev = [rand_leaf(r) for _ in range(r.randint(0, 2))]
                rs = vsrc(ev)
            if big or len(tv) + len(ev) > 12:
                return None
            nv = tv + ev
        elif op == "$":
            ev = r.choice(["", "z", "yy"])
            if len(tv) > 12:
                return None
            rs, nv = src(ev), tv + ev
        elif op == "||":
            key = r.choice([1, 2, 5, "k", "n"])
            es, ev = gen_expr(r, st)
            if size_of(ev) > 8 or big:
                return None
            rs = "{%s: %s}" % (src(key), es)
            nv = tv  # mutate model in place (model owns it)
            nv = deep(tv)
            old = nv.m.get(ckey(key))
            nv.m[ckey(key)] = (old[0] if old else key, ev)
        else:  # |.
            key = r.choice([1, 2, 5, "k", "n"])
            rs = src(key)
            nv = deep(tv)
            old = nv.m.get(ckey(key))
            nv.m[ckey(key)] = (old[0] if old else key, None)
        st[x] = set_path(xv, steps, nv)
        return "%s %s= %s" % (path_src(x, steps), op, rs), "opassign:" + op, [x]
    if kind == "every_slice":
        p = random_path(r, xv, lambda t: is_list(t) and len(t) > 0)
        if not p:
            return None
        steps, tv = p
        a = r.randint(0, len(tv))
        b = r.randint(a, len(tv))
        s, v = gen_expr(r, st)
        if size_of(v) * (b - a) > 30 or big:
            return None
        for i in range(a, b):
            tv[i] = deep(v)
        return "every %s[%d:%d] = %s" % (path_src(x, steps), a, b, s), kind, [x]
    if kind == "every_vars":
        if len(names) < 2:
            return None
        y = r.choice([n for n in names if n != x])
        s, v = gen_expr(r, st)
        if big and size_of(v) > 6:
            return None
        if size_of(v) == 1 and r.random() < 0.7:
            return None
        st[x] = deep(v)
        st[y] = deep(v)
        return "every %s, %s = %s" % (x, y, s), kind, [x, y]
    if kind == "every_dict":
        p = random_path(r, xv, lambda t: isinstance(t, NDict) and len(t.m) > 0)
        if not p:
            return None
        steps, tv = p
        s, v = gen_expr(r, st)
        if size_of(v) * len(tv.m) > 30 or big:
            return None
        for kk in list(tv.m):
            tv.m[kk] = (tv.m[kk][0], deep(v))
        return "every %s[:] = %s" % (path_src(x, steps), s), kind, [x]
    if kind == "pop":
        p = random_path(r, xv, lambda t: is_list(t) and len(t) > 0, materialise=True)
        if not p:
            return None
        steps, tv = p
        st["res"] = tv.pop()
        return "res = pop %s" % path_src(x, steps), kind, [x, "res"]
    if kind == "remove":
        p = random_path(r, xv, lambda t: is_list(t) and len(t) > 0, materialise=True)
        if not p:
            return None
        steps, tv = p
        i = r.randrange(len(tv))
        shown = i - len(tv) if r.random() < 0.4 else i
        st["res"] = tv.pop(i)
        return "res = remove %s[%d]" % (path_src(x, steps), shown) if shown >= 0 else "res = remove %s[(%d)]" % (path_src(x, steps), shown), kind, [x, "res"]
    if kind == "remove_slice":
        p = random_path(r, xv, lambda t: is_list(t) and len(t) > 0, materialise=True)
        if not p:
            return None
        steps, tv = p
        a = r.randint(0, len(tv))
        b = r.randint(a, len(tv))
        st["res"] = tv[a:b]
        del tv[a:b]
        return "res = remove %s[%d:%d]" % (path_src(x, steps), a, b), kind, [x, "res"]
    if kind == "remove_key":
        p = random_path(r, xv, lambda t: isinstance(t, NDict) and len(t.m) > 0)
        if not p:
            return None
        steps, tv = p
        kk = r.choice(list(tv.m))
        key, val = tv.m.pop(kk)
        st["res"] = val
        return "res = remove %s[%s]" % (path_src(x, steps), src(key)), kind, [x, "res"]
    if kind == "consume":
        p = random_path(r, xv, materialise=True)
        if not p:
            return None
        steps, tv = p
        # consuming an element of a string/vector/bytes is not generated
        st["res"] = deep(tv)
        st[x] = set_path(xv, steps, None)
        return "res = consume %s" % path_src(x, steps), kind, [x, "res"]
    if kind == "swap":
        y = r.choice(names)
        p = random_path(r, st[x])
        q = random_path(r, st[y])
        if not p or not q:
            return None
        va, vb = deep(p[1]), deep(q[1])
        # documented semantics: both values are read, then the two assignments happen in order
        st[x] = set_path(st[x], p[0], vb)
        if not path_valid(st[y], q[0]):
            # the second target vanished because of the first assignment: not generated; undo
            st[x] = set_path(st[x], p[0], va) if path_valid(st[x], p[0]) else st[x]
            return "ABORT"
        st[y] = set_path(st[y], q[0], va)
        if total_size(st) > 260:
            return "ABORT"
        return "swap %s, %s" % (path_src(x, p[0]), path_src(y, q[0])), kind, [x, y]
    if kind == "swap_same":
        # both operands name the SAME slot (cursors of a reversal / partition loop that meet), possibly spelled
        # differently (i and i - len): nothing changes
        q = random_path(r, xv)
        if not q or not q[0]:
            return None
        steps = q[0]
        alt = list(steps)
        k_, i_ = alt[-1]
        if k_ == "i" and r.random() < 0.6:
            parent = get_path(xv, steps[:-1])
            alt[-1] = ("i", i_ - len(parent) if i_ >= 0 else i_ + len(parent))
        return "swap %s, %s" % (path_src(x, steps), path_src(x, alt)), kind, [x]
    if kind == "update":
        free = [v for v in VARS if v not in st]
        if not free or not (is_list(xv) and xv or isinstance(xv, NDict) and xv.m or isinstance(xv, Inst)):
            return None
        name = r.choice(free)
        nv = deep(xv)
        parts = []
        for _ in range(r.randint(1, 2)):
            if is_list(nv):
                i = r.randrange(len(nv))
                s, v = gen_expr(r, st)
                if size_of(v) > 8:
                    return None
                nv[i] = v
                parts.append("%d = %s" % (i, s))
            elif isinstance(nv, NDict):
                kk = r.choice(list(nv.m))
                s, v = gen_expr(r, st)
                if size_of(v) > 8:
                    return None
                nv.m[kk] = (nv.m[kk][0], v)
                parts.append("%s = %s" % (src(nv.m[kk][0]), s))
            else:
                f = r.randrange(2)
                s, v = gen_expr(r, st)
                if size_of(v) > 8:
                    return None
                nv.fields[f] = v
                parts.append("%s = %s" % (FIELDS[f], s))
        if big:
            return None
        st[name] = nv
        return "%s := %s{%s}" % (name, x, ", ".join(parts)), kind, [name]
    if kind == "elem":
        p = random_path(r, xv, lambda t: (isinstance(t, (Vec, bytes)) or isinstance(t, str)) and len(t) > 0)
        if not p:
            return None
        steps, tv = p
        if isinstance(tv, str):
            if not tv.isascii():
                return None
            i = r.randrange(len(tv))
            ch = r.choice("XYZ")
            nv = tv[:i] + ch + tv[i + 1:]
            rs = src(ch)
        elif isinstance(tv, Vec):
            i = r.randrange(len(tv))
            n = r.randint(0, 9)
            nv = Vec(tv)
            nv[i] = n
            rs = str(n)
        else:
            i = r.randrange(len(tv))
            n = r.randint(0, 255)
            nv = tv[:i] + bytes([n]) + tv[i + 1:]
            rs = str(n)
        st[x] = set_path(xv, steps, nv)
        return "%s[%d] = %s" % (path_src(x, steps), i, rs), kind, [x]
    if kind == "dotassign":
        p = random_path(r, xv, is_list)
        if not p:
            return None
        steps, tv = p
        if len(tv) >= 12:
            return None
        st[x] = set_path(xv, steps, tv + [1])
        return "%s .= (\\z -> z ++ [1])" % path_src(x, steps), kind, [x]
    if kind == "closure_make":
        if len(closures) >= 4:
            return None
        counter[0] += 1
        name = "k%d" % counter[0]
        closures[name] = deep(xv)
        return "%s := mk(%s)" % (name, x), kind, [name]
    if kind == "closure_call":
        if not closures:
            return None
        name = r.choice(list(closures))
        st["tmp"] = deep(closures[name])
        return "tmp = %s()" % name, kind, ["tmp"]
    if kind == "forloop":
        if not (is_list(xv) and xv):
            return None
        return "for (z <- %s) (z = [z, z])" % x, kind, []
    if kind == "default_mat":
        p = random_path(r, xv, lambda t: isinstance(t, NDict) and t.has_default and is_list(t.default))
        if not p:
            return None
        steps, tv = p
        key = r.choice([1, 2, 7, "k", "zz"])
        cur = tv.m.get(ckey(key))
        base = deep(cur[1]) if cur else deep(tv.default)
        if not is_list(base) or len(base) >= 12:
            return None
        tv.m[ckey(key)] = (cur[0] if cur else key, base + [5])
        return "%s[%s] append= 5" % (path_src(x, steps), src(key)), kind, [x]
    if kind == "failed":
        # a statement that raises (caught) must leave every variable, including the one it names, unchanged
        p = random_path(r, xv, lambda t: is_list(t) or isinstance(t, (str, Vec, bytes)))
        if not p:
            return None
        steps, tv = p
        n_ = len(tv)
        bad = r.choice([n_, n_ + 3, -n_ - 1, 99])
        ps = path_src(x, steps)
        idx = "[%d]" % bad if bad >= 0 else "[(%d)]" % bad
        if is_list(tv) and any(e is None or isinstance(e, str) for e in tv) and r.random() < 0.5:
            # an `every` operator-assignment that fails part-way (an element the operator rejects): nothing changes
            a = r.randint(0, len(tv) - 1)
            first_bad = min(i for i, e in enumerate(tv) if e is None or isinstance(e, str))
            lo = r.randint(0, first_bad)
            stmt = r.choice(["every %s[:] -= 1" % ps, "every %s[%d:] -= 1" % (ps, lo), "every %s[:] //= 2" % ps])
        elif is_list(tv):
            stmt = r.choice(["%s%s = 1" % (ps, idx), "%s%s += 1" % (ps, idx), "pop %s%s" % (ps, idx), "remove %s%s" % (ps, idx),
                             "%s%s[0] = 1" % (ps, idx), "swap %s%s, %s" % (ps, idx, x), "%s%s append= 1" % (ps, idx)])
        elif isinstance(tv, str):
            stmt = r.choice(["%s%s = \"x\"" % (ps, idx)] + (["%s[0] = \"xy\"" % ps, "%s[0] = 5" % ps, "%s[0] = \"\"" % ps] if n_ else []))
        elif isinstance(tv, Vec):
            stmt = r.choice(["%s%s = 1" % (ps, idx)] + (["%s[0] = \"a\"" % ps, "%s[0] = [1]" % ps] if n_ else []))
        else:
            stmt = r.choice(["%s%s = 1" % (ps, idx)] + (["%s[0] = 999" % ps, "%s[0] = \"a\"" % ps, "%s[0] = (0 - 1)" % ps] if n_ else []))
        return "try (%s; \"no error\") catch __x -> null" % stmt, kind, [x]
    if kind == "idx_equal_other_type":
        # overwrite a slot with a value that is == to the old one but of another type (1 -> 1.0, [1] -> [1.0])
        p = random_path(r, xv, lambda t: (isinstance(t, int) and not isinstance(t, bool)) or (is_list(t) and len(t) > 0 and all(isinstance(e, int) for e in t)))
        if not p or not p[0]:
            return None
        steps, tv = p
        nv = float(tv) if isinstance(tv, int) else [float(e) for e in tv]
        st[x] = set_path(xv, steps, nv)
        return "%s = %s" % (path_src(x, steps), vsrc(nv)), kind, [x]
    if kind == "and_op":
        # `(t1 and t2 [and t3]) op= rhs`: every target gets op(its own old value, rhs), operands in that order
        # (non-commutative operators), targets in distinct variables
        op = r.choice(["++", "$", "-", "append", "//"])
        want = {"++": is_list, "append": is_list, "$": lambda t: isinstance(t, str),
                "-": lambda t: isinstance(t, int) and not isinstance(t, bool),
                "//": lambda t: isinstance(t, int) and not isinstance(t, bool)}[op]
        k = r.choice([2, 2, 3])
        if len(names) < k:
            return None
        tvars = r.sample(names, k)
        targets = []
        for y in tvars:
            q = random_path(r, st[y], want)
            if not q:
                return None
            targets.append((y, q[0], q[1]))
        if op in ("-", "//"):
            n = r.randint(1, 9)
            rs, f = str(n), (lambda t: t - n) if op == "-" else (lambda t: t // n)
        elif op == "$":
            ev = r.choice(["z", "yy"])
            rs, f = src(ev), lambda t: t + ev
        elif op == "++":
            ev = [rand_leaf(r) for _ in range(r.randint(1, 2))]
            rs, f = vsrc(ev), lambda t: t + deep(ev)
        else:
            rs, ev = gen_expr(r, st)
            if size_of(ev) > 6:
                return None
            f = lambda t: t + [deep(ev)]
        if big or any((is_list(t) or isinstance(t, str)) and len(t) >= 12 for _, _, t in targets):
            return None
        news = [f(deep(t)) for _, _, t in targets]
        for (y, steps, _), nv in zip(targets, news):
            st[y] = set_path(st[y], steps, nv)
        return "(%s) %s= %s" % (" and ".join(path_src(y, steps) for y, steps, _ in targets), op, rs), "and_op:" + op, tvars
    if kind == "every_op_slice":
        p = random_path(r, xv, lambda t: is_list(t) and len(t) > 0 and (all(isinstance(e, int) and not isinstance(e, bool) for e in t) or all(is_list(e) and len(e) < 10 for e in t)))
        if not p or big:
            return None
        steps, tv = p
        a = r.randint(0, len(tv))
        b = r.randint(a, len(tv))
        if isinstance(tv[0], int):
            n = r.randint(1, 9)
            for i in range(a, b):
                tv[i] = tv[i] - n
            return "every %s[%d:%d] -= %d" % (path_src(x, steps), a, b, n), kind, [x]
        ev = [rand_leaf(r)]
        for i in range(a, b):
            tv[i] = tv[i] + deep(ev)
        return "every %s[%d:%d] ++= %s" % (path_src(x, steps), a, b, vsrc(ev)), kind, [x]
    if kind == "idx_order":
        # the subscript of a plain indexed assignment is evaluated before its right-hand side:
        # `t[len(s) - 1] = pop s` addresses the slot computed from s *before* the pop
        others = [n_ for n_ in names if n_ != x and is_list(st[n_]) and len(st[n_]) > 0]
        if not others:
            return None
        y = r.choice(others)
        sv = st[y]
        if is_list(xv) and len(xv) >= len(sv):
            i = len(sv) - 1
            val = sv.pop()
            xv[i] = val
            return "%s[len(%s) - 1] = pop %s" % (x, y, y), kind, [x, y]
        if isinstance(xv, NDict) and not big:
            key = len(sv)
            val = sv.pop()
            old = xv.m.get(ckey(key))
            xv.m[ckey(key)] = (old[0] if old else key, val)
            return "%s[len(%s)] = pop %s" % (x, y, y), kind, [x, y]
        return None
    if kind == "nested_append":
        p = random_path(r, xv, lambda t: is_list(t) and any(is_list(e) for e in t))
        if not p:
            return None
        steps, tv = p
        idx = [i for i, e in enumerate(tv) if is_list(e)]
        i = r.choice(idx)
        if len(tv[i]) >= 12:
            return None
        tv[i].append(3)
        return "%s[%d] append= 3" % (path_src(x, steps), i), kind, [x]
    return None


def gen_history(r, nstmts):
    """-> list of (source, kind, named vars, expected model snapshot as canonical dict)"""
    st = {}
    closures = {}
    counter = [0]
    out = []
    # start with a few declared variables with rich sharing
    tries = 0
    st["res"] = None
    st["tmp"] = None
    while len(out) < nstmts and tries < nstmts * 30:
        tries += 1
        snapshot = {k: deep(v) for k, v in st.items()}
        csnap = dict(closures)
        nvars = len([k for k in st if k in VARS])
        try:
            g = gen_stmt_decl(r, st) if nvars < 2 else gen_stmt(r, st, closures, counter)
        except Exception:
            g = "ABORT"
        if g == "ABORT" or g is None:
            # the statement kind was not applicable: restore the model exactly
            st.clear()
            st.update(snapshot)
            closures.clear()
            closures.update(csnap)
            continue
        s, kind, named = g
        exp = {k: to_canon(v) for k, v in st.items()}
        exp.update({})
        out.append((s, kind, named, exp))
    return out


def gen_stmt_decl(r, st):
    free = [v for v in VARS if v not in st]
    name = r.choice(free)
    v = rand_value(r, 0)
    if not (is_list(v) or isinstance(v, (NDict, Inst))):
        v = [v, [1, 2], NDict([("k", [3])])]
    st[name] = v
    return "%s := %s" % (name, vsrc(v)), "decl", [name]


# ---------------------------------------------------------------- running histories

def shared_before(shinfo, names):
    """True if any container node (depth <= 3) reachable from the named variables had strong count > 1."""
    for n in names:
        for node in shinfo.get(n, []):
            if node[3] > 1:
                return True
    return False


def alias_graph(shinfo):
    ptrs = {}
    for n, nodes in shinfo.items():
        for d, k, p, sc in nodes:
            ptrs.setdefault(p, set()).add((n, d))
    sig = sorted(tuple(sorted(v)) for v in ptrs.values() if len(v) > 1)
    return core.h64(sig)


def run_history(sh, w, hist, hid, graphs):
    stmts = [h[0] for h in hist]
    allnames = sorted({k for h in hist for k in h[3]})
    res = w.run({"id": "h", "kind": "eval", "prelude": STRUCT_PRELUDE, "stmts": stmts, "observe": allnames,
                 "share": True, "fuel": 200000, "values": False})
    evs = res["events"]
    prev_share = {}
    for i, ((s, kind, named, exp), ev) in enumerate(zip(hist, evs)):
        o = ev.get("o")
        mutation = kind not in ("decl", "closure_make", "closure_call", "forloop", "update")
        cow = mutation and shared_before(prev_share, [n for n in named if n not in ("res", "tmp")])
        sh.seen("%s#%d:%s" % (hid, i, s), nontrivial=cow)
        sh.count("stmt:" + kind)
        if mutation:
            sh.count("mutation:on-shared-payload" if cow else "mutation:unshared")
        replay = {"job": {"kind": "eval", "prelude": STRUCT_PRELUDE, "stmts": stmts[:i + 1], "observe": allnames},
                  "expected": exp, "statement": s}
        if o in ("crash", "timeout", "fuel", "depth", "skipped", "lost", "panic"):
            sh.inconc("history:" + o, s)
            return
        if o != "ok":
            sh.violation("C01|%s|model-valid-statement-raised" % kind.split(":")[0],
                         "statement `%s` (valid in the model) -> %s %s" % (s, o, (ev.get("err") or "")[:120]), replay)
            return
        got = ev.get("vars", {})
        bad = []
        for name, want in exp.items():
            g = got.get(name)
            if g is None and name not in got:
                continue
            if norm(g) != want:
                bad.append(name)
        if bad:
            leaked = [b for b in bad if b not in named]
            cat = "alias-leak" if leaked else "wrong-slot"
            name = (leaked or bad)[0]
            sh.violation("C01|%s|%s" % (kind, cat),
                         "after `%s`: variable %s = %s, copy-on-assignment model says %s%s" % (
                             s, name, str(norm(got.get(name)))[:150], str(exp[name])[:150],
                             " (variable not named by the statement!)" if leaked else ""), replay)
            return
        prev_share = ev.get("sh", {}) or {}
        g = alias_graph(prev_share)
        graphs.add(g)
        if i == len(hist) - 1:
            sh.sample({"history_tail": stmts[-4:], "final_vars": {k: got[k] for k in list(got)[:3]}}, cap=2)


# ---------------------------------------------------------------- calls leave variables unchanged

CALL_VARS = ["l3", "lnest", "lmix", "lpairs", "lstr", "lneg", "l1", "d1", "da", "ddef", "dmix", "dset", "v2", "vq", "y3",
             "sabc", "shel", "ifoo", "r13", "r51", "perm", "lmap"]
USER_FUNCS = ["\\q -> (q[0] = 99; q)", "\\q -> (q append= 1; q)", "\\q -> (q = 5; q)", "\\q -> (pop q; q)",
              "\\q -> (every q[:] = 0; q)", "\\q, s -> (swap q, s; [q, s])", "\\q -> (q[1] = q; q)",
              "\\q -> (q ++= q; q)", "\\q -> (remove q[0]; q)", "\\q -> (consume q)", "\\q -> (q .= reverse; q)"]


def run_calls(sh, w, r, si, n, pairs_per):
    names = sorted(x["name"] for x in core.global_names(w) if x["kind"] in ("builtin", "type"))
    callables = [x for x in names if x not in pool.EXCLUDED]
    ev0 = core.eval_all(w, ["0"], prelude=pool.PRELUDE, fresh_each=True, observe=pool.NAMES)[0]
    base = {k: norm(v) for k, v in ev0["vars"].items()}
    mine = [c for i, c in enumerate(callables) if i % n == si]
    batch = []
    for c in mine:
        for v in CALL_VARS:
            batch.append(("try %s(%s) catch _e -> null" % (c, v), [v], c))
        for _ in range(pairs_per):
            v = r.choice(CALL_VARS)
            o = r.choice(pool.QUICK)
            if r.random() < 0.5:
                batch.append(("try %s(%s, %s) catch _e -> null" % (c, v, o), [v, o], c))
            else:
                batch.append(("try %s(%s, %s) catch _e -> null" % (c, o, v), [v, o], c))
    for i, f in enumerate(USER_FUNCS):
        if i % n != si % n and n > 1:
            continue
        for v in CALL_VARS:
            if "q, s" in f:
                batch.append(("try (%s)(%s, %s) catch _e -> null" % (f, v, r.choice(CALL_VARS)), [v], "user:" + f))
            else:
                batch.append(("try (%s)(%s) catch _e -> null" % (f, v), [v], "user:" + f))
                batch.append(("try (%s map %s) catch _e -> null" % (("[%s, %s]" % (v, v)), "(" + f + ")"), [v], "user-map:" + f))
    for i in range(0, len(batch), 400):
        part = batch[i:i + 400]
        # calls that get an infinite stream are given little fuel; they only matter for the variables
        observe = sorted({a for _, args, _ in part for a in args})
        evs = core.eval_all(w, [b[0] for b in part], prelude=pool.PRELUDE, fresh_each=True, child_each=True,
                            fuel=60000, observe=observe, values=False, touch=True, mem=96 << 20, jid="c01c")
        redo = []
        for (text, args, callee), ev in zip(part, evs):
            if ev.get("o") in ("crash", "timeout", "skipped", "lost", "fuel", "depth", "panic"):
                sh.count("calls:inconclusive-" + ev.get("o"))
                continue
            changed = [a for a in args if a in (ev.get("vars") or {}) and norm(ev["vars"][a]) != base[a]]
            if changed:
                redo.append((text, args, callee))
            else:
                sh.seen("call:" + text, nontrivial=True)
                sh.count("calls:unchanged")
        if redo:
            # confirm in a completely fresh environment before reporting
            evs = core.eval_all(w, [b[0] for b in redo], prelude=pool.PRELUDE, fresh_each=True, fuel=60000,
                                observe=observe, values=False, touch=True, mem=96 << 20, jid="c01r")
            for (text, args, callee), ev in zip(redo, evs):
                sh.seen("call:" + text, nontrivial=True)
                if ev.get("o") in ("crash", "timeout", "skipped", "lost", "fuel", "depth", "panic"):
                    sh.count("calls:inconclusive-" + ev.get("o"))
                    continue
                for a in args:
                    if a in (ev.get("vars") or {}) and norm(ev["vars"][a]) != base[a]:
                        sh.violation("C01|call-changed-argument|%s|%s" % (callee, pool.BY_NAME[a][2]),
                                     "`%s` changed variable %s: %s -> %s" % (text, a, str(base[a])[:100], str(norm(ev["vars"][a]))[:100]),
                                     {"job": {"kind": "eval", "prelude": pool.PRELUDE, "stmts": [text], "observe": [a]}, "expected": base[a]})


# ---------------------------------------------------------------- fault injection into histories

def run_inject(sh, w, r, count):
    done = 0
    while done < count:
        hist = gen_history(r, r.randint(8, 25))
        if len(hist) < 6:
            continue
        stmts = [h[0] for h in hist]
        allnames = sorted({k for h in hist for k in h[3]})
        for _ in range(6):
            done += 1
            k = r.randrange(2, len(hist))
            nth = r.randint(1, 25)
            job = {"id": "hi", "kind": "eval", "prelude": STRUCT_PRELUDE, "stmts": stmts[:k + 1] + ["1 + 1"],
                   "observe": allnames, "fail_at": {"stmt": k, "n": nth}, "fuel": 200000, "values": True}
            evs = w.run(job)["events"]
            case = "inject#%s@%d:%d" % (stmts[k], k, nth)
            if len(evs) < k + 2:
                sh.inconc("inject:short", case)
                continue
            ev = evs[k]
            fired = ev.get("inj", False)
            sh.seen(case, nontrivial=fired)
            sh.count("inject:fired" if fired else "inject:not-reached")
            if not fired:
                continue
            before = hist[k - 1][3]
            named = set(hist[k][2])
            got = ev.get("vars", {})
            for name, want in before.items():
                if name in named or name not in got:
                    continue
                if norm(got[name]) != want:
                    sh.violation("C01|inject|%s|collateral" % hist[k][1].split(":")[0],
                                 "error injected at tick %d of `%s` changed variable %s (not named by the statement): %s -> %s" % (
                                     nth, stmts[k], name, str(want)[:100], str(norm(got[name]))[:100]), {"job": job})
                    break
            last = evs[k + 1]
            if last.get("o") != "ok" or norm(last.get("v")) != {"i": "2"}:
                sh.violation("C01|inject|unusable", "after an injected error in `%s` the interpreter cannot evaluate 1 + 1: %s" % (stmts[k], str(last)[:100]), {"job": job})


# ---------------------------------------------------------------- shard

def shard(ctx, si, n):
    sh = core.Shard("C01")
    r = core.rng_for("C01", ctx.seed, si)
    w = core.Worker()
    graphs = set()
    try:
        nh = max(1, ctx.plan["histories"] // n)
        for hi in range(nh):
            hist = gen_history(r, r.randint(30, 60))
            run_history(sh, w, hist, "%d.%d.%d" % (ctx.seed, si, hi), graphs)
            sh.count("histories")
        sh.count("distinct_alias_graphs_per_shard_sum", len(graphs))
        run_calls(sh, w, r, si, n, ctx.plan["calls_pairs"])
        if ctx.plan["inject"]:
            run_inject(sh, w, r, max(1, ctx.plan["inject"] // n))
    finally:
        w.close()
    return sh
