"""Reference interpreter for the control-flow / scoping subset of Noulith (C05, reused by C17).

Written from README.md and the scope table in DESIGN.md Appendix A:
  * static lexical scoping; a fresh scope per closure call, per loop iteration (for: per clause
    iteration; while: condition and body share it), per switch arm, per catch clause; NO new scope
    for if, sequences, and/or/coalesce, the try body, eval (runs in the caller's scope)
  * `:=` declares in the current scope and refuses redeclaration there; `=` assigns to the nearest
    enclosing declaration and refuses undeclared names; closures capture variables, not values
  * values are immutable (copy on read is modelled by never mutating shared Python lists)
  * loops evaluate to null unless left by `break v`; `for .. yield` collects a list (`yield k: v` a
    dict, later keys win), `into f` folds the collection; `break v` bypasses `into`, a bare break
    hands what was collected so far to `into`; `continue` skips the element; `break break`,
    `break continue` address the enclosing loop; a multi-clause `for` is ONE loop level
  * closure calls absorb only `return`; try/catch catches only thrown errors; a catch pattern that
    does not match rethrows
The AST is made of tuples; `render` produces fully parenthesised Noulith source.
"""
from ..values import NDict, ckey


class Decline(Exception):
    """The model refuses to predict (construct outside the modelled subset / value unknown)."""


class Unknown:
    """A value the model cannot know (text of a builtin error message)."""
    def __repr__(self):
        return "<unknown>"


class Thrown(Exception):
    def __init__(self, value, builtin):
        self.value = value
        self.builtin = builtin


class BreakEx(Exception):
    def __init__(self, n, value, has):
        self.n, self.value, self.has = n, value, has


class ContinueEx(Exception):
    def __init__(self, n):
        self.n = n


class _FirstStop(Exception):
    pass


class ReturnEx(Exception):
    def __init__(self, value):
        self.value = value


class Env:
    __slots__ = ("vars", "parent")

    def __init__(self, parent=None):
        self.vars = {}
        self.parent = parent

    def lookup(self, name):
        e = self
        while e is not None:
            if name in e.vars:
                return e
            e = e.parent
        return None


class Closure:
    def __init__(self, params, splat, body, env, splat_pos=None):
        self.params, self.splat, self.body, self.env = params, splat, body, env
        self.splat_pos = len(params) if splat_pos is None else splat_pos


def builtin_error():
    return Thrown(Unknown(), True)


def truthy(v):
    if isinstance(v, Unknown):
        raise Decline("truthiness of unknown")
    if v is None or v == 0 or v == "" or v == []:
        return False
    if isinstance(v, NDict):
        return bool(v.m)
    return True


def display(v, top=True):
    if isinstance(v, Unknown) or isinstance(v, Closure):
        raise Decline("display of unknown/function")
    if v is None:
        return "null"
    if isinstance(v, bool):
        return str(int(v))
    if isinstance(v, int):
        return str(v)
    if isinstance(v, str):
        if top:
            return v
        if not all(32 <= ord(c) < 127 and c not in "\"\\" for c in v):
            raise Decline("repr of non-trivial string")
        return '"%s"' % v
    if isinstance(v, list):
        return "[" + ", ".join(display(x, False) for x in v) + "]"
    raise Decline("display of %r" % type(v))


def equal(a, b):
    if isinstance(a, (Unknown, Closure)) or isinstance(b, (Unknown, Closure)):
        raise Decline("== on unknown/function")
    if isinstance(a, list) and isinstance(b, list):
        return len(a) == len(b) and all(equal(x, y) for x, y in zip(a, b))
    if isinstance(a, NDict) or isinstance(b, NDict):
        raise Decline("== on dict")
    if type(a) is not type(b):
        if isinstance(a, (int, bool)) and isinstance(b, (int, bool)):
            return int(a) == int(b)
        return False
    return a == b


def is_int(v):
    return isinstance(v, int) and not isinstance(v, bool)


class Interp:
    def __init__(self, budget=60000):
        self.out = []
        self.steps = 0
        self.budget = budget
        self.stats = {}

    def note(self, k):
        self.stats[k] = self.stats.get(k, 0) + 1

    # ------------------------------------------------------------ evaluation
    def ev(self, n, env):
        self.steps += 1
        if self.steps > self.budget:
            raise Decline("model step budget")
        t = n[0]
        return getattr(self, "e_" + t)(n, env)

    def e_int(self, n, env):
        return n[1]

    def e_str(self, n, env):
        return n[1]

    def e_null(self, n, env):
        return None

    def e_list(self, n, env):
        return [self.ev(x, env) for x in n[1]]

    def e_var(self, n, env):
        e = env.lookup(n[1])
        if e is None:
            self.note("fault:undeclared-read")
            raise builtin_error()
        return e.vars[n[1]]

    def e_bin(self, n, env):
        v = self.e_bin0(n, env)
        # bound of the exploration: programs whose values blow up are not predicted
        if isinstance(v, int) and not -10 ** 60 < v < 10 ** 60:
            raise Decline("value blow-up")
        if isinstance(v, (list, str)) and len(v) > 3000:
            raise Decline("value blow-up")
        return v

    def e_bin0(self, n, env):
        op = n[1]
        a = self.ev(n[2], env)
        b = self.ev(n[3], env)
        if isinstance(a, Unknown) or isinstance(b, Unknown):
            raise Decline("operator on unknown")
        if op in ("+", "-", "*", "%", "//"):
            if not (is_int(a) and is_int(b)):
                self.note("fault:type-error")
                raise builtin_error()
            if op == "+":
                return a + b
            if op == "-":
                return a - b
            if op == "*":
                return a * b
            if b == 0:
                raise builtin_error()
            if op == "//":
                return a // b
            q = abs(a) // abs(b)
            q = q if (a >= 0) == (b >= 0) else -q
            return a - b * q
        if op in ("<", "<=", ">", ">="):
            if is_int(a) and is_int(b) or isinstance(a, str) and isinstance(b, str):
                return int({"<": a < b, "<=": a <= b, ">": a > b, ">=": a >= b}[op])
            if isinstance(a, (list, NDict, Closure)) or isinstance(b, (list, NDict, Closure)):
                raise Decline("ordering of containers")
            self.note("fault:type-error")
            raise builtin_error()
        if op == "==":
            return int(equal(a, b))
        if op == "!=":
            return int(not equal(a, b))
        if op == "$":
            return display(a) + display(b)
        if op == "++":
            if isinstance(a, list) and isinstance(b, list):
                return a + b
            if isinstance(a, (NDict, Closure)) or isinstance(b, (NDict, Closure)):
                raise Decline("++ on dict/function")
            self.note("fault:type-error")
            raise builtin_error()
        raise Decline("operator " + op)

    def e_not(self, n, env):
        return int(not truthy(self.ev(n[1], env)))

    def e_and(self, n, env):
        a = self.ev(n[1], env)
        return self.ev(n[2], env) if truthy(a) else a

    def e_or(self, n, env):
        a = self.ev(n[1], env)
        return a if truthy(a) else self.ev(n[2], env)

    def e_coalesce(self, n, env):
        a = self.ev(n[1], env)
        return self.ev(n[2], env) if a is None else a

    def e_if(self, n, env):
        if truthy(self.ev(n[1], env)):
            return self.ev(n[2], env)
        return self.ev(n[3], env) if n[3] is not None else None

    def e_seq(self, n, env):
        v = None
        for x in n[1]:
            v = self.ev(x, env)
        return v

    def e_decl(self, n, env):
        v = self.ev(n[2], env)
        if n[1] in env.vars:
            self.note("fault:redeclaration")
            raise builtin_error()
        env.vars[n[1]] = v
        return None

    def e_assign(self, n, env):
        v = self.ev(n[2], env)
        e = env.lookup(n[1])
        if e is None:
            self.note("fault:undeclared-assign")
            raise builtin_error()
        e.vars[n[1]] = v
        return None

    def e_opassign(self, n, env):
        # a f= b: read a, evaluate b, apply, assign to the nearest declaration
        name, op, rhs = n[1], n[2], n[3]
        e = env.lookup(name)
        if e is None:
            raise builtin_error()
        old = e.vars[name]
        b = self.ev(rhs, env)
        # documented: while the operator runs the variable holds null, and it stays null if the
        # operator raises
        e2 = env.lookup(name)
        if e2 is None:
            raise builtin_error()
        e2.vars[name] = None
        v = self.e_bin(("bin", op, ("quote", old), ("quote", b)), env)
        e2.vars[name] = v
        return None

    def e_quote(self, n, env):
        return n[1]

    def e_idx(self, n, env):
        a = self.ev(n[1], env)
        i = self.ev(n[2], env)
        if isinstance(a, Unknown) or isinstance(i, Unknown):
            raise Decline("index on unknown")
        if isinstance(a, list):
            if not is_int(i) or not (-len(a) <= i < len(a)):
                self.note("fault:index")
                raise builtin_error()
            return a[i]
        if isinstance(a, (str, NDict, Closure)):
            raise Decline("index on str/dict/function")
        raise builtin_error()

    def e_len(self, n, env):
        a = self.ev(n[1], env)
        if isinstance(a, list):
            return len(a)
        if isinstance(a, str):
            return len(a.encode("utf-8"))
        if isinstance(a, (Unknown, NDict, Closure)):
            raise Decline("len")
        raise builtin_error()

    def e_range(self, n, env):
        a = self.ev(n[1], env)
        b = self.ev(n[2], env)
        if not (is_int(a) and is_int(b)):
            raise Decline("range of non-ints")
        if b - a > 3000:
            raise Decline("value blow-up")
        return list(range(a, b + 1))

    def e_print(self, n, env):
        v = self.ev(n[1], env)
        self.out.append(display(v) + "\n")
        return None

    def e_throw(self, n, env):
        v = self.ev(n[1], env)
        self.note("throw")
        raise Thrown(v, False)

    def e_try(self, n, env):
        _, body, pat, handler = n
        try:
            return self.ev(body, env)
        except Thrown as t:
            cenv = Env(env)
            if pat[0] == "name":
                cenv.vars[pat[1]] = t.value
            elif pat[0] == "lit":
                if isinstance(t.value, Unknown):
                    raise Decline("literal catch pattern against builtin error")
                if not equal(t.value, pat[1]):
                    self.note("catch:rethrow")
                    raise
            self.note("catch:builtin" if t.builtin else "catch:thrown")
            return self.ev(handler, cenv)

    def e_break(self, n, env):
        v = self.ev(n[2], env) if n[2] is not None else None
        raise BreakEx(n[1], v, n[2] is not None)

    def e_continue(self, n, env):
        raise ContinueEx(n[1])

    def e_return(self, n, env):
        raise ReturnEx(self.ev(n[1], env) if n[1] is not None else None)

    def e_lambda(self, n, env):
        return Closure(n[1], n[2], n[3], env, n[4] if len(n) > 4 else None)

    def e_call(self, n, env):
        f = self.ev(n[1], env)
        args = [self.ev(a, env) for a in n[2]]
        return self.call(f, args)

    def call(self, f, args):
        if isinstance(f, Unknown):
            raise Decline("call of unknown")
        if not isinstance(f, Closure):
            if isinstance(f, (list, str, NDict)):
                raise Decline("calling a sequence")
            if any(isinstance(a, Closure) for a in args):
                raise Decline("non-function applied to a function (reverse application)")
            self.note("fault:call-nonfunction")
            raise builtin_error()
        cenv = Env(f.env)
        params = f.params
        nargs = len(args)
        # Pattern binding of the argument list (Appendix A): a defaulted target is "in play" when there
        # are no more values than non-splat targets before it; the defaults in play are evaluated in
        # the call scope before any parameter is bound and appended to the values; then the values
        # are split around the splat (first s before it, last n-s after it, the rest into the splat).
        vals = list(args)
        seen_default = False
        for j, (name, d) in enumerate(params):
            if d is not None:
                seen_default = True
                if nargs <= j:
                    vals.append(self.ev(d, cenv))
            elif seen_default:
                raise Decline("required parameter after a default")
        n = len(params)
        if f.splat is None:
            if len(vals) != n:
                self.note("fault:arity")
                raise builtin_error()
            bound = list(zip([p[0] for p in params], vals))
        else:
            if len(vals) < n:
                self.note("fault:arity")
                raise builtin_error()
            sp = f.splat_pos
            after = n - sp
            bound = list(zip([p[0] for p in params[:sp]], vals[:sp]))
            bound.append((f.splat, vals[sp:len(vals) - after]))
            bound += list(zip([p[0] for p in params[sp:]], vals[len(vals) - after:]))
        for name, v in bound:
            if name in cenv.vars:
                raise Decline("duplicate parameter")
            cenv.vars[name] = v
        self.note("call")
        try:
            return self.ev(f.body, cenv)
        except ReturnEx as r:
            self.note("return")
            return r.value

    def e_eval(self, n, env):
        self.note("eval")
        try:
            return self.ev(n[1], env)
        except Thrown:
            # an error leaving `eval` is re-raised with context added by the builtin ("eval: ..."):
            # it is still raised, but its value is not predicted
            raise Thrown(Unknown(), True)

    def e_switch(self, n, env):
        v = self.ev(n[1], env)
        for pat, body in n[2]:
            aenv = Env(env)
            if pat[0] == "lit":
                if isinstance(v, Unknown):
                    raise Decline("switch on unknown")
                if not equal(v, pat[1]):
                    continue
            elif pat[0] == "bind":
                aenv.vars[pat[1]] = v
            self.note("switch:arm")
            return self.ev(body, aenv)
        self.note("fault:switch-nomatch")
        raise builtin_error()

    # ------------------------------------------------------------ loops
    def e_while(self, n, env):
        _, cond, body = n
        while True:
            it = Env(env)
            if not truthy(self.ev(cond, it)):
                return None
            try:
                self.ev(body, it)
            except BreakEx as b:
                if b.n > 0:
                    raise BreakEx(b.n - 1, b.value, b.has)
                self.note("break:while")
                return b.value if b.has else None
            except ContinueEx as c:
                if c.n > 0:
                    raise ContinueEx(c.n - 1)
                self.note("continue:while")

    def e_for(self, n, env):
        _, clauses, kind, body, keyexpr, into = n
        acc = [] if kind != "do" else None
        pairs = []

        def emit(benv):
            if kind == "do":
                self.ev(body, benv)
            elif kind == "yield":
                v = self.ev(body, benv)
                acc.append(v)
                if into is not None:
                    # folds consume elements as they are yielded: a bad element raises right here
                    if into[0] == "first":
                        raise _FirstStop()      # `first` is a short-circuiting fold: the loop stops here
                    if into[0] == "sum" and not is_int(v):
                        if isinstance(v, (Unknown, Closure, NDict)) or isinstance(v, list):
                            raise Decline("sum of non-number")
                        raise builtin_error()
                    if into[0] in ("max", "min") and len(acc) > 1:
                        a0 = acc[0]
                        if not ((is_int(a0) and is_int(v)) or (isinstance(a0, str) and isinstance(v, str))):
                            raise Decline("max/min of mixed kinds")
            else:
                k = self.ev(keyexpr, benv)
                if not (is_int(k) or isinstance(k, str)):
                    raise Decline("dict key kind")
                v = self.ev(body, benv)
                pairs.append((k, v))

        def run(ci, cenv):
            if ci == len(clauses):
                try:
                    emit(cenv)
                except ContinueEx as c:
                    if c.n > 0:
                        raise
                    self.note("continue:for")
                return
            c = clauses[ci]
            if c[0] == "if":
                if truthy(self.ev(c[1], cenv)):
                    run(ci + 1, cenv)
                return
            if c[0] == "let":
                ne = Env(cenv)
                ne.vars[c[1]] = self.ev(c[2], cenv)
                run(ci + 1, ne)
                return
            src_v = self.ev(c[-1], cenv)
            if isinstance(src_v, Unknown):
                raise Decline("iterating unknown")
            if isinstance(src_v, str):
                items = list(src_v)
                if any(ord(ch) > 127 for ch in src_v):
                    raise Decline("iterating non-ascii string")
            elif isinstance(src_v, list):
                items = list(src_v)
            elif isinstance(src_v, (NDict, Closure)):
                raise Decline("iterating dict/function")
            else:
                self.note("fault:not-iterable")
                raise builtin_error()
            for i, x in enumerate(items):
                ne = Env(cenv)
                if c[0] == "in":
                    ne.vars[c[1]] = x
                elif c[0] == "in2":
                    if not (isinstance(x, list) and len(x) == 2):
                        if isinstance(x, (str, NDict)):
                            raise Decline("destructuring str/dict")
                        raise builtin_error()
                    ne.vars[c[1]] = x[0]
                    ne.vars[c[2]] = x[1]
                elif c[0] == "insplat":     # a, ...t <- rows
                    if not isinstance(x, list):
                        if isinstance(x, (str, NDict)):
                            raise Decline("destructuring str/dict")
                        raise builtin_error()
                    if len(x) < 1:
                        raise builtin_error()
                    ne.vars[c[1]] = x[0]
                    ne.vars[c[2]] = list(x[1:])
                elif c[0] == "idxsplat":    # i, ...t <<- xs : the pattern meets the pair [index, element]
                    ne.vars[c[1]] = i
                    ne.vars[c[2]] = [x]
                else:   # ("idx", iname, xname, e)
                    ne.vars[c[1]] = i
                    ne.vars[c[2]] = x
                run(ci + 1, ne)

        broke = None
        try:
            run(0, env)
        except _FirstStop:
            pass
        except ContinueEx as c:
            # `break continue` addressed to an enclosing loop: this loop is one level
            if c.n > 0:
                raise ContinueEx(c.n - 1)
            raise Decline("continue raised in a for header")
        except BreakEx as b:
            if b.n > 0:
                raise BreakEx(b.n - 1, b.value, b.has)
            self.note("break:for")
            if b.has:
                if into is not None:
                    # what `break v` means for a loop with `into` is not documented
                    raise Decline("break value into fold")
                return b.value
            broke = True
        if kind == "do":
            return None
        if kind == "yieldkv":
            d = NDict()
            for k, v in pairs:
                if isinstance(k, (Unknown, Closure, NDict)) or isinstance(k, list):
                    raise Decline("dict key kind")
                old = d.m.get(ckey(k))
                d.m[ckey(k)] = (old[0] if old else k, v)
            return d
        if into is None:
            return acc
        self.note("into:" + into[0])
        if into[0] == "sum":
            if not all(is_int(x) for x in acc):
                raise Decline("sum of non-ints")
            return sum(acc)
        if into[0] in ("max", "min"):
            if not acc:
                raise builtin_error()
            if not (all(is_int(x) for x in acc) or all(isinstance(x, str) for x in acc)):
                raise Decline("max of mixed")
            return max(acc) if into[0] == "max" else min(acc)
        if into[0] == "first":
            if not acc:
                raise builtin_error()
            return acc[0]
        if into[0] == "last":
            if not acc:
                raise builtin_error()
            return acc[-1]
        if into[0] == "len":
            return len(acc)
        if into[0] == "fn":
            f = self.ev(into[1], env)
            return self.call(f, [acc])
        raise Decline("into " + into[0])


def run_program(ast, budget=60000):
    """-> dict(outcome='ok'|'throw', value=..., thrown=..., out=str, stats=...) or raises Decline"""
    it = Interp(budget)
    env = Env(None)
    try:
        v = it.ev(ast, env)
        res = {"o": "ok", "value": v}
    except Thrown as t:
        res = {"o": "throw", "thrown": t.value, "builtin": t.builtin}
    except (BreakEx, ContinueEx, ReturnEx):
        raise Decline("non-local exit escaped to top level")
    except RecursionError:
        raise Decline("python recursion")
    res["out"] = "".join(it.out)
    res["stats"] = it.stats
    res["steps"] = it.steps
    return res


def contains_unknown(v):
    if isinstance(v, (Unknown, Closure)):
        return True
    if isinstance(v, list):
        return any(contains_unknown(x) for x in v)
    if isinstance(v, NDict):
        return any(contains_unknown(x) for _, x in v.m.values())
    return False


# ---------------------------------------------------------------- rendering

def sstr(s):
    return '"' + s.replace("\\", "\\\\").replace('"', '\\"').replace("\n", "\\n") + '"'


def render(n):
    t = n[0]
    if t == "int":
        return str(n[1]) if n[1] >= 0 else "(0 - %d)" % (-n[1])
    if t == "str":
        return sstr(n[1])
    if t == "null":
        return "null"
    if t == "list":
        return "[" + ", ".join(render(x) for x in n[1]) + "]"
    if t == "var":
        return n[1]
    if t == "bin":
        return "(%s %s %s)" % (render(n[2]), n[1], render(n[3]))
    if t == "not":
        return "not(%s)" % render(n[1])
    if t in ("and", "or", "coalesce"):
        return "(%s %s %s)" % (render(n[1]), t, render(n[2]))
    if t == "if":
        if n[3] is None:
            return "(if (%s) %s)" % (render(n[1]), render(n[2]))
        return "(if (%s) %s else %s)" % (render(n[1]), render(n[2]), render(n[3]))
    if t == "seq":
        return "(" + "; ".join(render(x) for x in n[1]) + ")"
    if t == "decl":
        return "%s := %s" % (n[1], render(n[2]))
    if t == "assign":
        return "%s = %s" % (n[1], render(n[2]))
    if t == "opassign":
        return "%s %s= %s" % (n[1], n[2], render(n[3]))
    if t == "idx":
        return "(%s)[%s]" % (render(n[1]), render(n[2]))
    if t == "len":
        return "len(%s)" % render(n[1])
    if t == "range":
        return "list(%s to %s)" % (render(n[1]), render(n[2]))
    if t == "print":
        return "print(%s)" % render(n[1])
    if t == "throw":
        return "(throw %s)" % render(n[1])
    if t == "try":
        pat = n[2]
        ps = pat[1] if pat[0] == "name" else render(("int", pat[1])) if isinstance(pat[1], int) else sstr(pat[1])
        return "(try %s catch %s -> %s)" % (render(n[1]), ps, render(n[3]))
    if t == "break":
        lv = "break " * (n[1] + 1)
        return "(%s%s)" % (lv.strip() if n[2] is None else lv, "" if n[2] is None else render(n[2]))
    if t == "continue":
        return "(%scontinue)" % ("break " * n[1])
    if t == "return":
        return "(return %s)" % render(n[1]) if n[1] is not None else "(return)"
    if t == "lambda":
        ps = []
        for name, d in n[1]:
            ps.append(name if d is None else "%s = %s" % (name, render(d)))
        if n[2] is not None:
            ps.insert(n[4] if len(n) > 4 else len(ps), "..." + n[2])
        return "(\\%s -> %s)" % (", ".join(ps), render(n[3]))
    if t == "call":
        return "%s(%s)" % (render(n[1]) if n[1][0] == "var" else "(" + render(n[1]) + ")", ", ".join(render(a) for a in n[2]))
    if t == "eval":
        return "eval(%s)" % sstr(render(n[1]))
    if t == "switch":
        arms = []
        for pat, body in n[2]:
            if pat[0] == "lit":
                ps = render(("int", pat[1])) if isinstance(pat[1], int) else sstr(pat[1])
            elif pat[0] == "bind":
                ps = pat[1]
            else:
                ps = "_"
            arms.append("case %s -> %s" % (ps, render(body)))
        return "(switch (%s) %s)" % (render(n[1]), " ".join(arms))
    if t == "while":
        return "(while (%s) %s)" % (render(n[1]), render(n[2]))
    if t == "for":
        _, clauses, kind, body, keyexpr, into = n
        cs = []
        for c in clauses:
            if c[0] == "in":
                cs.append("%s <- %s" % (c[1], render(c[2])))
            elif c[0] == "in2":
                cs.append("%s, %s <- %s" % (c[1], c[2], render(c[3])))
            elif c[0] == "idx":
                cs.append("%s, %s <<- %s" % (c[1], c[2], render(c[3])))
            elif c[0] == "insplat":
                cs.append("%s, ...%s <- %s" % (c[1], c[2], render(c[3])))
            elif c[0] == "idxsplat":
                cs.append("%s, ...%s <<- %s" % (c[1], c[2], render(c[3])))
            elif c[0] == "if":
                cs.append("if %s" % render(c[1]))
            else:
                cs.append("%s = %s" % (c[1], render(c[2])))
        head = "for (%s)" % "; ".join(cs)
        if kind == "do":
            return "(%s %s)" % (head, render(body))
        if kind == "yield":
            tail = ""
            if into is not None:
                tail = " into " + (render(into[1]) if into[0] == "fn" else into[0])
            return "(%s yield %s%s)" % (head, render(body), tail)
        return "(%s yield %s: %s)" % (head, render(keyexpr), render(body))
    if t == "quote":
        raise ValueError("quote is model-internal")
    raise ValueError(t)
