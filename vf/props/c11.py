"""C11  Lazy streams are coherent: length, iteration, indexing, slicing, reversal agree.

Monitor: per stream *state* (constructor x parameters x number of dropped elements) one job binds the
state to the variable `s` and performs a random permutation of observations, each its own statement,
with the harness dumping the variable (cloned, never advanced) after every statement.  An offline
checker then decides, without any model, whether the recorded observations are coherent with the
recorded `list(s)`:  len, s[i], s[a:b], reverse, last, first, in, truthiness, unpacking, for-loop,
uncons, take/drop, and that the variable shows the same elements after every observation.  A second
oracle compares `list(s)` with a Python generator (range, itertools.permutations / combinations /
product, big-endian subsequences, map/filter/zip).  Infinite streams (iota, repeat, cycle, iterate, at
drop positions) are compared with their recurrence on prefixes, non-negative indices and slices, and
must report len = infinity.
"""
import itertools
from fractions import Fraction
from .. import core
from ..values import norm, to_canon, src, Vec

RULE = ("cases = (stream state, observation); states = constructor (a til|to b [by c] with bounds in [-4,4] and "
        "+-2^63, 2^64+-1 and steps +-1,+-2,+-3,+-2^63 whenever at most 12 elements result; permutations / subsequences / "
        "combinations k=0..len+1 / cartesian powers of base lists of length 0..4 (thorough 0..6) incl. duplicates; "
        "stream(list|str|vector|bytes|dict|stream); lazy_map / lazy_filter / lazy_zip over those; iota, repeat, cycle, "
        "iterate) x drop position 0..len+1; all states in thorough, a seeded sample of the range states and drop "
        "positions in quick; per state a seeded random order of ~30-45 observations; distinct = distinct (state text, "
        "observation text); non-trivial = the state has at least one element or the observation is len/truthiness/list")
ASSUMPTIONS = [
    "itertools.permutations/combinations/product, range and map/filter/zip are the reference for which elements a constructor yields (oracle 2); oracle 1 (coherence) needs no model",
    "stream(dict) is compared with the dict's keys as a multiset (iteration order is hash order)",
    "for infinite streams only non-negative indices/bounds are judged (the statement speaks of prefixes)",
    "fuel / panic / crash outcomes are inconclusive here (C14 owns them)",
]
PLAN = {
    "quick": {"base_max": 4, "range_p": (0.12, 0.04), "drops": "some", "orders": 1, "shards": 16},
    "thorough": {"base_max": 6, "range_p": (1.0, 1.0), "drops": "all", "orders": 4, "shards": 64},
}

REG = dict(level="exploration", min_nontrivial=25000,
           technique="runtime monitor over observation histories: per stream state a seeded random permutation of observations on one variable, variable dumped after every statement; offline coherence checker plus Python generator reference (itertools)",
           claim="For every generated stream state (all small constructor parameters, every drop position) every recorded observation (len, index, slice, reverse, last, in, truthiness, unpacking, iteration) agreed with the recorded list(s), list(s) agreed with the Python reference generator, and the variable showed the same elements after every observation in every tried order. Exploration over the bounded parameter space and sampled orders, not a proof.",
           note="Trusts itertools/range as constructor reference and the harness's stream dump (clone + up to 64 elements); orders of observations are sampled (1 per state quick, 4 thorough).")

B63 = 1 << 63
INF = {"f": "7ff0000000000000"}
INCONC = ("fuel", "depth", "timeout", "crash", "skipped", "lost", "panic", "parse", "empty")
FUEL = 300000


def lit(i):
    return str(i) if i >= 0 else "(-%d)" % (-i)


def match(got, want):
    """got: content-normalised observed value; want: expected value built from lists.  A stream result that
    was longer than the 64 dumped elements ({"st-long": head}) matches a longer expected list on its head."""
    if isinstance(want, dict) and "l" in want and isinstance(got, dict):
        if "st-long" in got:
            return len(want["l"]) > 64 and got["st-long"] == want["l"][:64]
        if "l" in got:
            return len(got["l"]) == len(want["l"]) and all(match(g, w) for g, w in zip(got["l"], want["l"]))
        return False
    return got == want


def content(c):
    """a fully drawn stream counts as the list of its elements"""
    if isinstance(c, dict):
        if "st" in c:
            st = c["st"]
            if st.get("err") is not None:
                return {"st-error": st.get("err")}
            if st.get("more"):
                return {"st-long": [content(x) for x in st.get("head", [])]}
            return {"l": [content(x) for x in st.get("head", [])]}
        if "l" in c:
            return {"l": [content(x) for x in c["l"]]}
    return c


# ---------------------------------------------------------------- states

class State:
    __slots__ = ("text", "model", "fam", "drop", "unordered", "infinite", "gen")

    def __init__(self, text, model, fam, drop=0, unordered=False, infinite=False, gen=None):
        self.text, self.model, self.fam, self.drop = text, model, fam, drop
        self.unordered, self.infinite, self.gen = unordered, infinite, gen


def range_len(a, b, c):
    if c > 0:
        return max(0, (b - a + c - 1) // c)
    return max(0, (a - b - c - 1) // (-c))


def range_items(a, b, c):
    return [a + i * c for i in range(range_len(a, b, c))]


def range_states(plan, r):
    small = list(range(-4, 5))
    big = [B63, -B63, 2 ** 64 - 1, 2 ** 64 + 1]
    steps = [1, -1, 2, -2, 3, -3, B63, -B63]
    out = []
    for a in small + big:
        for b in small + big:
            forms = [("%s til %s" % (lit(a), lit(b)), a, b, 1), ("%s to %s" % (lit(a), lit(b)), a, b + 1, 1)]
            for c in steps:
                forms.append(("%s til %s by %s" % (lit(a), lit(b), lit(c)), a, b, c))
                forms.append(("%s to %s by %s" % (lit(a), lit(b), lit(c)), a, b + (1 if c > 0 else -1), c))
            for text, lo, hi, c in forms:
                if range_len(lo, hi, c) > 12:
                    continue
                hostile = c < 0 or abs(a) > 4 or abs(b) > 4
                if r.random() >= plan["range_p"][0 if hostile else 1]:
                    continue
                out.append(State("(" + text + ")", range_items(lo, hi, c), "range+" if c > 0 else "range-"))
    return out


def base_lists(nmax):
    out = []
    for n in range(nmax + 1):
        out.append(list(range(1, n + 1)))
    out += [[1, 1], [1, 2, 1], [2, 1, 2, 1], ["a", 2], [[1], "b", 3], [3, 1, 2]]
    if nmax >= 5:
        out += [[1, 1, 2, 2, 3], [5, 4, 3, 2, 1]]
    return out


def subseqs(xs):
    n = len(xs)
    return [[xs[i] for i in range(n) if mask >> (n - 1 - i) & 1] for mask in range(1 << n)]


def combinatoric_states(plan):
    out = []
    for xs in base_lists(plan["base_max"]):
        n = len(xs)
        t = src(xs)
        if n <= 5 or plan["base_max"] >= 6:
            out.append(State("permutations(%s)" % t, [list(p) for p in itertools.permutations(xs)], "permutations"))
        out.append(State("subsequences(%s)" % t, subseqs(xs), "subsequences"))
        for k in range(n + 2):
            out.append(State("combinations(%s, %d)" % (t, k), [list(p) for p in itertools.combinations(xs, k)], "combinations"))
        for k in range(0, 5):
            if n ** k <= 130 and (n > 0 or k <= 2):
                out.append(State("(%s ^^ %d)" % (t, k), [list(p) for p in itertools.product(xs, repeat=k)], "cartesian_power"))
    return out


def wrapped_states():
    out = []
    for n in range(0, 6):
        xs = [10 * (i + 1) for i in range(n)]
        out.append(State("stream(%s)" % src(xs), xs, "stream(seq)"))
    out.append(State('stream([1, "a", [2], null])', [1, "a", [2], None], "stream(seq)"))
    for s in ("", "a", "abc", "héllo", "a€b"):
        out.append(State("stream(%s)" % src(s), list(s), "stream(seq)"))
    for v in ([], [1], [1, 2.5, Fraction(1, 2)]):
        out.append(State("stream(%s)" % src(Vec(v)), list(v), "stream(seq)"))
    for b in (b"", b"\x00", b"\x01\xff\x80"):
        out.append(State("stream(%s)" % src(b), list(b), "stream(seq)"))
    out.append(State("stream({})", [], "stream(seq)", unordered=True))
    out.append(State("stream({1: 2})", [1], "stream(seq)", unordered=True))
    out.append(State('stream({1: 2, "k": 4, 3: null})', [1, "k", 3], "stream(seq)", unordered=True))
    out.append(State("stream(1 to 3)", [1, 2, 3], "stream(stream)"))
    out.append(State("stream(permutations([1, 2]))", [[1, 2], [2, 1]], "stream(stream)"))
    return out


MAPS = [("(* 10)", lambda x: x * 10), ("(\\x -> [x, x])", lambda x: [x, x])]
FILTERS = [("even", lambda x: x % 2 == 0), ("(\\x -> x > 2)", lambda x: x > 2), ("(\\x -> 0)", lambda x: False),
           ("(\\x -> 1)", lambda x: True)]
INT_BASES = [("(1 to 0)", []), ("(1 to 1)", [1]), ("(1 to 5)", [1, 2, 3, 4, 5]), ("(6 til 0 by (-2))", [6, 4, 2]),
             ("stream([3, 1, 2])", [3, 1, 2]), ("((1 to 6) drop 2)", [3, 4, 5, 6])]


def lazy_states():
    out = []
    for bt, bm in INT_BASES:
        for ft, f in MAPS:
            out.append(State("lazy_map(%s, %s)" % (bt, ft), [f(x) for x in bm], "lazy_map"))
        for ft, f in FILTERS:
            out.append(State("lazy_filter(%s, %s)" % (bt, ft), [x for x in bm if f(x)], "lazy_filter"))
        for bt2, bm2 in INT_BASES[1:4]:
            out.append(State("lazy_zip(%s, %s)" % (bt, bt2), [list(p) for p in zip(bm, bm2)], "lazy_zip"))
        out.append(State("lazy_zip(%s, iota(7))" % bt, [[x, 7 + i] for i, x in enumerate(bm)], "lazy_zip"))
        out.append(State("lazy_zip(%s, (1 to 5), (1 to 3))" % bt, [list(p) for p in zip(bm, [1, 2, 3, 4, 5], [1, 2, 3])], "lazy_zip"))
        out.append(State("(%s lazy_zip (1 to 5) with +)" % bt, [x + y for x, y in zip(bm, [1, 2, 3, 4, 5])], "lazy_zip-with"))
        out.append(State("lazy_filter(lazy_map(%s, (* 3)), even)" % bt, [x * 3 for x in bm if (x * 3) % 2 == 0], "lazy_filter"))
        out.append(State("lazy_map(lazy_filter(%s, even), (+ 1))" % bt, [x + 1 for x in bm if x % 2 == 0], "lazy_map"))
    out.append(State("lazy_map(permutations([1, 2, 3]), sum)", [6] * 6, "lazy_map"))
    out.append(State("lazy_filter(subsequences([1, 2, 3]), (\\x -> len(x) == 2))", [[2, 3], [1, 3], [1, 2]], "lazy_filter"))
    return out


def with_drops(states, plan, r):
    """every state at every drop position 0..len+1 (quick: 0, 1, one inner, len, len+1)"""
    out = []
    for st in states:
        n = len(st.model)
        if plan["drops"] == "all" and n <= 30:
            js = list(range(n + 2))
        else:
            js = sorted({0, 1, n, n + 1} | ({r.randint(2, n - 1)} if n > 2 else set()) | ({n - 1} if n > 1 else set()))
            if n > 30 and plan["drops"] == "all":
                js = sorted(set(js) | {2, 3, n // 2, n - 2} | {r.randint(2, n - 1) for _ in range(6)})
        for j in js:
            if j == 0:
                out.append(st)
                continue
            form = "(%s drop %d)" if (j + n) % 2 else "(%s)[%d:]"
            out.append(State(form % (st.text, j), st.model[j:], st.fam, drop=j, unordered=st.unordered))
    return out


# infinite ----------------------------------------------------------------------------------------

def gen_iota(a):
    return lambda k: [a + i for i in range(k)]


def gen_repeat(x):
    return lambda k: [x] * k


def gen_cycle(xs):
    return lambda k: [xs[i % len(xs)] for i in range(k)]


def gen_iter(x0, f):
    def g(k):
        out, x = [], x0
        for _ in range(k):
            out.append(x)
            x = f(x)
        return out
    return g


def shifted(g, j):
    return lambda k: g(k + j)[j:]


def infinite_states():
    base = []
    for a in (0, 3, -2, B63 - 1, -B63, 2 ** 64):
        base.append(("iota(%s)" % lit(a), gen_iota(a), "iota"))
    for t, v in (("7", 7), ('"x"', "x"), ("[1, 2]", [1, 2]), ("null", None)):
        base.append(("repeat(%s)" % t, gen_repeat(v), "repeat"))
    for xs in ([1], [1, 2], [1, 2, 3], ["a", [2], 3, 4], [5, 5, 6]):
        base.append(("cycle(%s)" % src(xs), gen_cycle(xs), "cycle"))
    base.append(("cycle(1 to 3)", gen_cycle([1, 2, 3]), "cycle"))
    base.append(('cycle("ab")', gen_cycle(["a", "b"]), "cycle"))
    base.append(("iterate(1, (* 2))", gen_iter(1, lambda x: x * 2), "iterate"))
    base.append(("iterate(0, (+ 3))", gen_iter(0, lambda x: x + 3), "iterate"))
    base.append(("iterate(2^62, (* 3))", gen_iter(2 ** 62, lambda x: x * 3), "iterate"))
    base.append(("iterate([], (\\x -> x ++ [len(x)]))", gen_iter([], lambda x: x + [len(x)]), "iterate"))
    base.append(("iterate(5, (\\x -> if (x % 2 == 0) x // 2 else 3 * x + 1))",
                 gen_iter(5, lambda x: x // 2 if x % 2 == 0 else 3 * x + 1), "iterate"))
    out = []
    for text, g, fam in base:
        for j in (0, 1, 2, 3, 5, 9):
            if j == 0:
                out.append(State(text, None, fam, infinite=True, gen=g))
            else:
                form = "(%s drop %d)" if j % 2 else "(%s)[%d:]"
                out.append(State(form % (text, j), None, fam, drop=j, infinite=True, gen=shifted(g, j)))
    return out


# ---------------------------------------------------------------- observations

class Obs:
    __slots__ = ("kind", "text", "arg", "cls")

    def __init__(self, kind, text, arg=None, cls=""):
        self.kind, self.text, self.arg, self.cls = kind, text, arg, cls

    @property
    def keykind(self):
        return self.kind + ("-" + self.cls if self.cls else "")


def bound_text(b):
    return "" if b is None else lit(b)


def finite_observations(st, r):
    n = len(st.model)
    obs = [Obs("len", "len(s)"), Obs("list", "list(s)"), Obs("list", "list(s)"),
           Obs("reverse", "reverse(s)"), Obs("last", "last(s)"), Obs("first", "first(s)"),
           Obs("truthy", "if (s) 1 else 0"), Obs("truthy", "not (not s)"), Obs("for", "for (x <- s) yield x"),
           Obs("uncons", "uncons(s)"), Obs("unsnoc", "unsnoc(s)"), Obs("second", "second(s)"),
           Obs("for-count", "(\\ -> (k := 0; for (x <- s) (k += 1); k))()")]
    if n <= 14:
        idx = list(range(-n - 2, n + 2))
    else:
        idx = sorted({-n - 2, -n - 1, -n, -n + 1, -2, -1, 0, 1, 2, n - 2, n - 1, n, n + 1} | {r.randint(-n, n - 1) for _ in range(4)})
    for i in idx:
        obs.append(Obs("index", "s[%s]" % lit(i), i, "neg" if i < 0 else "nonneg"))
    cand = [None] + (list(range(-n - 2, n + 3)) if n <= 14 else [-n - 1, -n, -3, -1, 0, 1, 2, n // 2, n - 1, n, n + 2])
    pairs = {(None, None), (1, None), (None, -1), (0, n), (-1, None)}
    while len(pairs) < 12:
        pairs.add((r.choice(cand), r.choice(cand)))
    for a, b in sorted(pairs, key=str):
        cls = "neg" if (a is not None and a < 0) or (b is not None and b < 0) else ("open" if b is None else "nonneg")
        obs.append(Obs("slice", "s[%s:%s]" % (bound_text(a), bound_text(b)), (a, b), cls))
    for k in sorted({0, 1, n, n + 1, -1, r.randint(0, n + 1)}):
        obs.append(Obs("take", "s take %s" % lit(k), k, "neg" if k < 0 else "nonneg"))
        obs.append(Obs("drop", "s drop %s" % lit(k), k, "neg" if k < 0 else "nonneg"))
    if st.model:
        x = st.model[r.randrange(n)]
        obs.append(Obs("in", "%s in s" % src(x), x, "present"))
        # membership is by ==, which is by value across numeric kinds: needles of another kind that equal an
        # element (float, complex, rational arithmetic giving the integer back), spelt with every membership
        # builtin, and near misses that equal no element
        if all(isinstance(e, int) and not isinstance(e, bool) for e in st.model) and abs(x) < 2 ** 52:
            xs = src(x)
            form = r.choice(["float(%s) in s", "(%s + 0.0) in s", "(%s + 0i) in s", "(%s * (2 / 2)) in s", "s contains float(%s)",
                             "if (float(%s) not_in s) 0 else 1", "(\\t_ -> t_ in s)(float(%s))"])
            obs.append(Obs("in-kind", form % xs, x, "present"))
            miss = r.choice(["(%s + 0.5) in s", "(%s + 1 / 2) in s", "(%s + 1i) in s", "s contains (%s + 0.25)"])
            obs.append(Obs("in-kind", miss % xs, None, "absent"))
    obs.append(Obs("in", '"zz" in s', "zz", "absent"))
    if n <= 8:
        for k in sorted({n, n + 1, max(n - 1, 1)}):
            if k == 0:
                continue
            names = ", ".join("u%d" % i for i in range(k)) + ("," if k == 1 else "")
            vals = ", ".join("u%d" % i for i in range(k))
            obs.append(Obs("unpack", "(\\ -> (%s := s; [%s]))()" % (names, vals), k))
        obs.append(Obs("unpack-splat", "(\\ -> (u0, ...u1 := s; [u0, u1]))()"))
        obs.append(Obs("unpack-splat", "(\\ -> (...u0, u1 := s; [u0, u1]))()", "tail"))
    # observations of a stream DERIVED from the variable (anything cached on s -- a length, a position -- must not
    # be carried over to the shorter stream): len / truthiness / last / unpacking of s drop k, s[k:], tail(s)
    for k in sorted({1, max(n - 1, 0), n, n + 1}):
        for form in ("s drop %d" % k, "s[%d:]" % k):
            obs.append(Obs("derived-len", "len(%s)" % form, k))
            obs.append(Obs("derived-truthy", "if (%s) 1 else 0" % form, k))
        obs.append(Obs("derived-last", "last(s drop %d)" % k, k))
    obs.append(Obs("derived-len", "len(tail(s))", 1, "tail"))
    if 2 <= n <= 8:
        names = ", ".join("u%d" % i for i in range(n - 1)) + ("," if n - 1 == 1 else "")
        vals = ", ".join("u%d" % i for i in range(n - 1))
        obs.append(Obs("derived-unpack", "(\\ -> (%s := s drop 1; [%s]))()" % (names, vals), 1))
    r.shuffle(obs)
    # the reference observation may come anywhere; one more list(s) always closes the history
    obs.append(Obs("list", "list(s)"))
    return obs


def infinite_observations(st, r):
    obs = [Obs("len", "len(s)"), Obs("first", "first(s)"), Obs("second", "second(s)"), Obs("truthy", "if (s) 1 else 0"),
           Obs("uncons", "uncons(s)")]
    for i in sorted({0, 1, 2, 3, 7, r.randint(4, 40), 65, 200}):
        obs.append(Obs("index", "s[%d]" % i, i, "nonneg"))
    pairs = {(0, 0), (0, 5), (3, 3), (4, 2), (2, 9)}
    while len(pairs) < 9:
        pairs.add((r.randint(0, 12), r.randint(0, 14)))
    for a, b in sorted(pairs):
        obs.append(Obs("slice", "s[%d:%d]" % (a, b), (a, b), "nonneg"))
    obs.append(Obs("slice", "s[:4]", (None, 4), "nonneg"))
    for a in sorted({0, 1, 4, r.randint(0, 20)}):
        obs.append(Obs("slice", "s[%d:]" % a, (a, None), "open"))
        obs.append(Obs("drop", "s drop %d" % a, a, "nonneg"))
    obs.append(Obs("slice", "s[:]", (None, None), "open"))
    for k in (0, 1, 6):
        obs.append(Obs("take", "s take %d" % k, k, "nonneg"))
    obs.append(Obs("for-break", "(\\ -> (k := []; for (x <- s) (k append= x; if (len(k) >= 5) break); k))()"))
    obs.append(Obs("unpack-prefix", "(for (x <- s take 3) yield x)"))
    el = st.gen(6)[r.randrange(6)]
    obs.append(Obs("in", "%s in s" % src(el), None, "present"))
    if isinstance(el, int) and not isinstance(el, bool) and abs(el) < 2 ** 52:
        obs.append(Obs("in-kind", r.choice(["float(%s) in s", "(%s + 0i) in s", "s contains (%s + 0.0)"]) % src(el), None, "present"))
    r.shuffle(obs)
    return obs


# ---------------------------------------------------------------- the checker

def expect_finite(ob, L):
    """expected outcome of observation `ob` given the recorded elements L (canonical values):
    ("v", canon) | ("throw",) ; results are compared by content"""
    n = len(L)
    k = ob.kind
    if k == "len" or k == "for-count":
        return ("v", {"i": str(n)})
    if k == "list" or k == "for":
        return ("v", {"l": L})
    if k == "reverse":
        return ("v", {"l": L[::-1]})
    if k == "last":
        return ("v", L[-1]) if n else ("throw",)
    if k == "first":
        return ("v", L[0]) if n else ("throw",)
    if k == "second":
        return ("v", L[1]) if n > 1 else ("throw",)
    if k == "truthy":
        return ("v", {"i": "1" if n else "0"})
    if k == "uncons":
        return ("v", {"l": [L[0], {"l": L[1:]}]}) if n else ("throw",)
    if k == "unsnoc":
        return ("v", {"l": [{"l": L[:-1]}, L[-1]]}) if n else ("throw",)
    if k == "index":
        i = ob.arg
        return ("v", L[i]) if -n <= i < n else ("throw",)
    if k == "slice":
        a, b = ob.arg
        return ("v", {"l": L[a:b]})
    if k == "take":
        return ("v", {"l": L[:ob.arg]})
    if k == "drop":
        return ("v", {"l": L[ob.arg:]})
    if k == "in":
        return ("v", {"i": "1" if to_canon(ob.arg) in L else "0"})
    if k == "in-kind":
        # (L, not the model: the recorded elements are what this position of the stream really holds)
        return ("v", {"i": "1" if ob.cls == "present" and to_canon(ob.arg) in L else "0"})
    if k == "derived-len":
        if ob.cls == "tail":
            return ("v", {"i": str(max(n - 1, 0))})          # tail is s[1:]: it clamps
        return ("v", {"i": str(len(L[ob.arg:]))})
    if k == "derived-truthy":
        return ("v", {"i": "1" if L[ob.arg:] else "0"})
    if k == "derived-last":
        return ("v", L[ob.arg:][-1]) if L[ob.arg:] else ("throw",)
    if k == "derived-unpack":
        return ("v", {"l": L[1:]})
    if k == "unpack":
        return ("v", {"l": L}) if n == ob.arg else ("throw",)
    if k == "unpack-splat":
        if not n:
            return ("throw",)
        if ob.arg == "tail":
            return ("v", {"l": [{"l": L[:-1]}, L[-1]]})
        return ("v", {"l": [L[0], {"l": L[1:]}]})
    raise KeyError(k)


def expect_infinite(ob, st):
    k = ob.kind
    g = st.gen
    c = lambda xs: [to_canon(x) for x in xs]
    if k == "len":
        return ("v", INF)
    if k == "first":
        return ("v", to_canon(g(1)[0]))
    if k == "second":
        return ("v", to_canon(g(2)[1]))
    if k == "truthy":
        return ("v", {"i": "1"})
    if k == "uncons":
        h = g(65)
        return ("v", {"l": [to_canon(h[0]), {"st-long": c(h[1:])}]})
    if k == "index":
        return ("v", to_canon(g(ob.arg + 1)[ob.arg]))
    if k == "slice" or k == "drop":
        a, b = ob.arg if k == "slice" else (ob.arg, None)
        if b is None:
            return ("v", {"st-long": c(g((a or 0) + 64)[(a or 0):])})
        return ("v", {"l": c(g(max(b, 0))[(a or 0):b])})
    if k == "take":
        return ("v", {"l": c(g(ob.arg))})
    if k == "for-break":
        return ("v", {"l": c(g(5))})
    if k == "unpack-prefix":
        return ("v", {"l": c(g(3))})
    if k == "in" or k == "in-kind":
        return ("v", {"i": "1"})
    raise KeyError(k)


class Checker:
    def __init__(self, sh):
        self.sh = sh
        self.perkey = {}
        self.nsampled = 0

    def violation(self, key, what, replay):
        k = self.perkey.get(key, 0)
        self.perkey[key] = k + 1
        if k < 2:
            self.sh.violation(key, what, replay)
        else:
            self.sh.count("violations_total")

    def check(self, st, obs, evs, stmts, alias):
        sh = self.sh
        replay = {"job": {"kind": "eval", "stmts": stmts, "observe": ["s"] + (["t"] if alias else []), "fuel": FUEL}}
        decl = evs[0]
        if decl.get("o") != "ok":
            if decl.get("o") in INCONC:
                sh.inconc("decl:" + decl.get("o"), stmts[0])
            else:
                self.violation("C11|construct|%s|raised" % st.fam, "%s raised: %s" % (stmts[0], str(decl.get("err"))[:100]), replay)
            sh.seen(stmts[0], True)
            return
        nalias = 2 if alias else 1
        oevs = evs[nalias:]
        fam = st.fam
        where = "%s%s" % (st.text, "" if not st.drop else "  (position %d)" % st.drop)

        # the reference: the first list(s) that worked (finite); the recurrence (infinite)
        L = None
        if not st.infinite:
            for ob, ev in zip(obs, oevs):
                if ob.kind == "list" and ev.get("o") == "ok":
                    v = content(norm(ev.get("v")))
                    if isinstance(v, dict) and "l" in v:
                        L = v["l"]
                        break
            model_c = [to_canon(x) for x in st.model]
            sh.seen(where + " | model", True)
            sh.count("states:" + fam)
            if L is None:
                L = model_c
            else:
                if st.unordered:
                    # hash order: only the undropped stream can be compared, as a multiset
                    same = st.drop > 0 or sorted(map(str, L)) == sorted(map(str, model_c))
                else:
                    same = L == model_c
                if not same:
                    rp = dict(replay, expected={"l": model_c})
                    self.violation("C11|model|%s|list-differs" % fam, "list(%s) = %s, the reference generator gives %s" % (where, str(L)[:200], str(model_c)[:200]), rp)
            head_want = {"l": L} if len(L) <= 64 else {"st-long": L[:64]}
        else:
            sh.seen(where + " | model", True)
            sh.count("states:" + fam)
            head_want = {"st-long": [to_canon(x) for x in st.gen(64)]}

        # the variable right after the declaration
        for name in (["s", "t"] if alias else ["s"]):
            got = content(norm((evs[nalias - 1].get("vars") or {}).get(name)))
            if got != head_want:
                self.violation("C11|fresh-variable|%s|wrong" % fam, "%s: variable %s shows %s right after binding, expected %s" % (where, name, str(got)[:160], str(head_want)[:160]), replay)
                return

        sampled = False
        for ob, ev, stmt in zip(obs, oevs, stmts[nalias:]):
            case = where + " | " + ob.text
            nontriv = bool(st.infinite or L) or ob.kind in ("len", "truthy", "list")
            sh.seen(case, nontriv)
            sh.count("obs:" + ob.keykind)
            o = ev.get("o")
            if o == "panic":
                # the property gives every observation of a finite or infinite stream a value or an ordinary error:
                # an internal panic (an index computed without the guard another method has) is neither
                pm = (ev.get("panic") or {}).get("msg", "")
                self.violation("C11|%s|%s|panic" % (ob.keykind, fam), "%s panicked inside the interpreter: %s" % (case, pm[:100]),
                               dict(replay, failing_statement=stmt))
                return
            if o in INCONC:
                sh.inconc(o, case)
                if o in ("crash", "timeout", "skipped", "lost", "panic"):
                    return
                continue
            exp = expect_infinite(ob, st) if st.infinite else expect_finite(ob, L)
            key = "C11|%s|%s" % (ob.keykind, fam)
            rp = dict(replay, failing_statement=stmt, expected=exp[1] if exp[0] == "v" else "<raises>")
            if exp[0] == "throw":
                if o == "ok":
                    self.violation(key + "|noraise", "%s = %s but list(s) = %s, so it should raise" % (case, str(content(norm(ev.get("v"))))[:120], str(L)[:160]), rp)
                elif o != "throw":
                    # an index error is an ordinary, catchable error: a break / continue / return leaving the
                    # observation is not "raising"
                    self.violation(key + "|escaped-" + str(o), "%s ended as `%s` (%s) instead of raising a catchable error; list(s) = %s" % (case, o, str(ev.get("err"))[:60], str(L)[:120]), rp)
            elif o != "ok":
                self.violation(key + "|raised", "%s raised (%s), expected %s%s" % (case, str(ev.get("err"))[:90], str(exp[1])[:160],
                                                                                    "" if st.infinite else " since list(s) = %s" % str(L)[:120]), rp)
            else:
                got = content(norm(ev.get("v")))
                if not match(got, exp[1]):
                    self.violation(key + "|wrong", "%s = %s, expected %s%s" % (case, str(got)[:160], str(exp[1])[:160],
                                                                                 "" if st.infinite else " since list(s) = %s" % str(L)[:120]), rp)
                elif not sampled and ob.kind not in ("list", "for") and (st.infinite or L):
                    sampled = True
                    if self.nsampled % 97 == 0:
                        sh.sample({"state": where, "observation": ob.text, "observed": ev.get("v"), "list(s)": None if st.infinite else L[:8]}, cap=5)
                    self.nsampled += 1
            # observing never advances or otherwise changes the variable
            for name in (["s", "t"] if alias else ["s"]):
                got = content(norm((ev.get("vars") or {}).get(name)))
                if got != head_want:
                    self.violation("C11|variable-changed-by|%s|%s" % (ob.keykind, fam),
                                   "%s: after this observation variable %s shows %s instead of %s" % (case, name, str(got)[:160], str(head_want)[:160]), rp)
                    return


# ---------------------------------------------------------------- shard

def all_states(plan, seed):
    r = core.rng_for("C11", seed, "states")
    fin = range_states(plan, r) + combinatoric_states(plan) + wrapped_states() + lazy_states()
    fin = with_drops(fin, plan, r)
    return fin + infinite_states()


def shard(ctx, si, n):
    sh = core.Shard("C11")
    states = all_states(ctx.plan, ctx.seed)
    r = core.rng_for("C11", ctx.seed, si)
    ck = Checker(sh)
    w = core.Worker()
    try:
        for st in states[si::n]:
            for order in range(ctx.plan["orders"]):
                obs = infinite_observations(st, r) if st.infinite else finite_observations(st, r)
                alias = r.random() < 0.3
                stmts = ["s := " + st.text] + (["t := s"] if alias else []) + [o.text for o in obs]
                res = w.run({"id": "c11", "kind": "eval", "stmts": stmts, "observe": ["s"] + (["t"] if alias else []),
                             "fuel": FUEL})
                evs = res["events"]
                if len(evs) < len(stmts):
                    evs = evs + [{"o": "skipped"}] * (len(stmts) - len(evs))
                ck.check(st, obs, evs, stmts, alias)
    finally:
        w.close()
    return sh
