"""C07  Rationals are exact and the numeric tower coerces upward only as needed.

Reference-model monitor.  Sub-monitors (all decide on type tag + exact value / float bit pattern of
what the real interpreter returned):

  pairs    operand pairs from all four levels; one statement evaluates every binary operator
           `+ - * / % // %%` (and `^` when the exponent is an int) on the pair and echoes the
           operands.  Oracle: Python int / fractions.Fraction for the exact levels, IEEE double
           operations on the *converted* operands (int/rational -> nearest float or +-inf) for the
           float level with Rust's `%` (fmod), `div_euclid`, `rem_euclid` re-implemented exactly;
           complex `+ - *` by the component formulas on finite operands, other complex results
           level only.  Also the identity (a // b) * b + (a %% b) == a, flooring and sign of `%%`.
  cmeta    complex level coercion: `a op z` (a int/rational, z complex) must be bit-identical to
           `float(a) op z` where float(a) is computed by the oracle (checks the conversion, not the
           complex arithmetic).
  unary    numerator denominator floor ceil round int rational float on every level.
  vectors  every shape combination (vector o vector equal/unequal length, vector o scalar, scalar o
           vector, unary) against the interpreter's own element-wise scalar results (which are
           checked by the scalar oracle as well); unequal lengths must raise.
"""
import math
import re
import struct
from fractions import Fraction
from .. import core
from ..values import norm, to_canon

RULE = ("cases = (operator, operand values, producer forms); operands drawn per level: ints (boundary set around "
        "2^31/2^53/2^63/2^64/2^1024 and random 1..1100 bits, literal or big representation), rationals (small, "
        "negative, integral-valued, unreduced producers, within half an ulp of a float, beyond the double range), "
        "floats by bit pattern (+-0, subnormals, 2^53 neighbours, max, +-inf, nan, random bits), complex; "
        "near-multiples for the division family; distinct = distinct (operator, operand source) text; non-trivial = "
        "at least one operand above the int level or outside [-2^31, 2^31]")
ASSUMPTIONS = ["CPython int/Fraction arithmetic is exact; int/int true division and float(int) are correctly rounded",
               "CPython float + - * / are IEEE-754 binary64 operations",
               "zero divisors: exact levels must raise for % // %%; float/complex levels may raise or return the IEEE value",
               "round at exact ties: either neighbour accepted (the statement fixes no tie rule), but floor/ceil/round/int of a dyadic rational and of the exactly equal float must agree (both computed by the interpreter)",
               "float ^ int, anything ^ non-int and complex / % // %% values depend on library algorithms: only level / coercion checked",
               "complex operands are taken from the operand echo (no constructor from parts exists)"]
PLAN = {"quick": {"pairs": 60000, "cmeta": 18000, "unary": 60000, "vectors": 36000},
        "thorough": {"pairs": 300000, "cmeta": 100000, "unary": 300000, "vectors": 200000}}

REG = dict(level="exploration", min_nontrivial=5000,
           technique="runtime reference-model monitor (Fraction / IEEE-bit oracle with re-implemented fmod, div_euclid, rem_euclid) over seeded operand sweeps across int, rational, float, complex and vector shapes; operand echo observed",
           claim="Held on every executed (operator, operands) case: type tag and exact value (numerator/denominator in lowest terms, float bit pattern) of the real interpreter's result equal the oracle's; vector results equal the element-wise scalar results and unequal lengths raise. Exploration, not proof: says nothing about operands not generated.",
           note="Trusts CPython exact arithmetic and correctly rounded int->float; libm-dependent results (float pow, complex division family) are checked for level/coercion only; violations of the known rational %% defect keep being reported.")

INF = math.inf
NAN = math.nan
MARK = {"s": "E"}
TRY = 'try %s catch e -> "E"'


# ---------------------------------------------------------------- float helpers (IEEE, no libm)

def f2b(f):
    return struct.unpack(">Q", struct.pack(">d", f))[0]


def b2f(b):
    return struct.unpack(">d", struct.pack(">Q", b))[0]


def isnan(x):
    return x != x


def isinf(x):
    return x == INF or x == -INF


def sgn(x):
    return math.copysign(1.0, x)


def to_f(x):
    """int / Fraction -> nearest float (round half even) or +-inf; float unchanged."""
    if isinstance(x, float):
        return x
    if isinstance(x, int):
        try:
            return float(x)
        except OverflowError:
            return INF if x > 0 else -INF
    try:
        return x.numerator / x.denominator
    except OverflowError:
        return INF if x > 0 else -INF


def f_div(a, b):
    if isnan(a) or isnan(b):
        return NAN
    if b == 0.0:
        if a == 0.0:
            return NAN
        return INF * sgn(a) * sgn(b)
    if isinf(a) and isinf(b):
        return NAN
    return a / b


def f_trunc(x):
    if isnan(x) or isinf(x) or x == 0.0:
        return x
    return math.copysign(float(abs(math.trunc(x))), x)


def f_rem(x, y):
    """Rust's f64 `%` (C fmod): exact, sign of the dividend."""
    if isnan(x) or isnan(y) or isinf(x) or y == 0.0:
        return NAN
    if isinf(y) or x == 0.0:
        return x
    fx, fy = Fraction(abs(x)), Fraction(abs(y))
    q = fx // fy
    r = fx - q * fy
    return math.copysign(float(r), x)       # r is exactly representable (fmod is exact)


def f_div_euclid(a, b):
    q = f_trunc(f_div(a, b))
    if f_rem(a, b) < 0.0:
        return q - 1.0 if b > 0.0 else q + 1.0
    return q


def f_rem_euclid(a, b):
    r = f_rem(a, b)
    return r + abs(b) if r < 0.0 else r


def finite(x):
    return not (isnan(x) or isinf(x))


# ---------------------------------------------------------------- model values

def kind(x):
    if isinstance(x, int):
        return "int"
    if isinstance(x, Fraction):
        return "rational"
    if isinstance(x, float):
        return "float"
    return "complex"


LEVEL = {"int": 0, "rational": 1, "float": 2, "complex": 3}
TAG = {"i": "int", "q": "rational", "f": "float", "c": "complex"}


def tag_of(c):
    if isinstance(c, dict):
        for k in TAG:
            if k in c:
                return TAG[k]
        for k in ("s", "l", "v"):
            if k in c:
                return k
    return "other"


def lit(n):
    return str(n) if n >= 0 else "(-%d)" % (-n)


def fsrc(f):
    return "bits_to_float(%d)" % f2b(f)


def trunc_div(a, b):
    q = abs(a) // abs(b)
    return q if (a >= 0) == (b >= 0) else -q


# spec constructors --------------------------------------------------------------------------
# ("val", [accepted canonical forms])  ("throw",)  ("val_or_throw", [forms])  ("level", {tags}, throw_ok)  None


def V(x):
    return ("val", [to_canon(x)])


def exact_either(fr):
    """exact value whose level the statement does not fix: rational, or int when integral"""
    forms = [to_canon(Fraction(fr))]
    if Fraction(fr).denominator == 1:
        forms.append(to_canon(int(fr)))
    return ("val", forms)


def expect_bin(op, a, b):
    ka, kb = kind(a), kind(b)
    la, lb = LEVEL[ka], LEVEL[kb]
    L = max(la, lb)
    if op == "^":
        if kb != "int" or la > 1:
            return None
        if a == 0 and b < 0:
            return ("val_or_throw", [to_canon(INF), to_canon(NAN)])
        if ka == "int" and b >= 0:
            return V(a ** b)
        return exact_either(Fraction(a) ** b)
    if op == "/":
        if L <= 1:
            if b != 0:
                return V(Fraction(a) / Fraction(b))
            return V(f_div(to_f(a), 0.0))
        if L == 2:
            return V(f_div(to_f(a), to_f(b)))
        return ("level", {"complex"}, False)
    if L == 0:
        if op == "+":
            return V(a + b)
        if op == "-":
            return V(a - b)
        if op == "*":
            return V(a * b)
        if b == 0:
            return ("throw",)
        if op == "//":
            return V(a // b)
        if op == "%%":
            return V(a % b)
        if op == "%":
            return V(a - b * trunc_div(a, b))
    if L == 1:
        fa, fb = Fraction(a), Fraction(b)
        if op == "+":
            return V(fa + fb)
        if op == "-":
            return V(fa - fb)
        if op == "*":
            return V(fa * fb)
        if fb == 0:
            return ("throw",)
        if op == "//":
            return V(Fraction(math.floor(fa / fb)))
        if op == "%%":
            return V(fa - fb * math.floor(fa / fb))
        if op == "%":
            return V(fa - fb * math.trunc(fa / fb))
    if L == 2:
        fa, fb = to_f(a), to_f(b)
        if op == "+":
            return V(fa + fb)
        if op == "-":
            return V(fa - fb)
        if op == "*":
            return V(fa * fb)
        if op == "%":
            v = f_rem(fa, fb)
        elif op == "//":
            v = f_div_euclid(fa, fb)
        else:
            v = f_rem_euclid(fa, fb)
        if fb == 0.0:
            return ("val_or_throw", [to_canon(v)])
        return V(v)
    # complex level
    za = a if ka == "complex" else complex(to_f(a), 0.0)
    zb = b if kb == "complex" else complex(to_f(b), 0.0)
    if op == "+":
        return V(complex(za.real + zb.real, za.imag + zb.imag))
    if op == "-":
        return V(complex(za.real - zb.real, za.imag - zb.imag))
    if op == "*":
        if all(finite(t) for t in (za.real, za.imag, zb.real, zb.imag)):
            re = za.real * zb.real - za.imag * zb.imag
            im = za.real * zb.imag + za.imag * zb.real
            return V(complex(re, im))
        return ("level", {"complex"}, False)
    return ("level", {"complex"}, zb == 0)


UNARY = ["numerator", "denominator", "floor", "ceil", "round", "int", "rational", "float"]


def expect_un(fn, x):
    k = kind(x)
    if k == "complex":
        return None
    if k == "float":
        if fn in ("numerator", "denominator"):
            return None
        if fn == "float":
            return V(x)
        if not finite(x):
            # no exact value exists: the same float back or an error are both acceptable
            return ("val_or_throw", [to_canon(x)])
        x = Fraction(x)
        if fn == "rational":
            return V(x)
    else:
        if fn == "float":
            f = to_f(x)
            return ("val_or_throw", [to_canon(f)]) if isinf(f) else V(f)
        if fn == "rational":
            return V(Fraction(x))
        x = Fraction(x)
    if fn == "numerator":
        return V(x.numerator)
    if fn == "denominator":
        return V(x.denominator)
    if fn == "floor":
        return V(math.floor(x))
    if fn == "ceil":
        return V(math.ceil(x))
    if fn == "int":
        return V(math.trunc(x))
    if fn == "round":
        lo = math.floor(x)
        d = x - lo
        if d == Fraction(1, 2):
            return ("val", [to_canon(lo), to_canon(lo + 1)])
        return V(lo if d < Fraction(1, 2) else lo + 1)
    raise KeyError(fn)


def judge(spec, obs):
    """-> None (held / unchecked) or a short reason word + detail."""
    if spec is None:
        return None
    threw = obs == MARK
    if spec[0] == "throw":
        return None if threw else ("should-raise", "expected an error")
    if spec[0] == "level":
        if threw:
            return None if spec[2] else ("raised", "unexpected error")
        return None if tag_of(obs) in spec[1] else ("level", "expected level %s" % sorted(spec[1]))
    if threw:
        return None if spec[0] == "val_or_throw" else ("raised", "unexpected error, expected %s" % spec[1][0])
    got = norm(obs)
    isq = isinstance(obs, dict) and "q" in obs
    if got in spec[1]:
        if isq:
            n, d = int(obs["q"][0]), int(obs["q"][1])
            if d <= 0 or math.gcd(n, d) != 1:
                return ("notlowest", "rational not in lowest terms")
        return None
    if tag_of(obs) not in {tag_of(f) for f in spec[1]}:
        return ("level", "expected %s" % spec[1][0])
    if isq:
        try:
            n, d = int(obs["q"][0]), int(obs["q"][1])
            if d != 0 and to_canon(Fraction(n, d)) in spec[1]:
                return ("notlowest", "rational not in lowest terms")
        except Exception:
            pass
    return ("wrong", "expected %s" % spec[1][0])


# ---------------------------------------------------------------- operand generators

def _int_boundary():
    vals = {0, 1, -1, 2, -2, 3, -3, 5, 7, -7, 10, 12, 255, 256}
    for k in (31, 32, 53, 54, 62, 63, 64):
        for d in (-2, -1, 0, 1, 2):
            vals.add((1 << k) + d)
            vals.add(-(1 << k) + d)
    vals |= {10 ** 18, 10 ** 19, 10 ** 30, -(10 ** 30), 10 ** 400, -(10 ** 400)}
    top = (1 << 1024) - (1 << 970)                # largest finite double
    vals |= {top, top + (1 << 969), top + (1 << 969) - 1, 1 << 1024, -(top + (1 << 969)), top + 1}
    vals |= {(1 << 53) + 1 + (1 << 60), (1 << 100) + (1 << 47), (1 << 100) + (1 << 47) + 1, (1 << 100) + 3 * (1 << 47)}
    return sorted(vals)


INT_BOUNDARY = _int_boundary()

FLOAT_SPECIAL = [0.0, -0.0, 1.0, -1.0, 0.5, -0.5, 1.5, 2.5, -2.5, 3.5, 0.1, 0.2, 0.3, 1e-5, 7.0, -7.0, 1e22, 1e23,
                 2.0 ** 53, 2.0 ** 53 - 1, 2.0 ** 53 + 2, -(2.0 ** 53), 2.0 ** 63, -(2.0 ** 63), 2.0 ** 64, 1e300, -1e300,
                 b2f(1), b2f(2), -b2f(1), b2f(0x000FFFFFFFFFFFFF), b2f(0x0010000000000000), b2f(0x7FEFFFFFFFFFFFFF),
                 -b2f(0x7FEFFFFFFFFFFFFF), 1e-300, 0.3333333333333333, INF, -INF, NAN, 4503599627370496.5, 0.49999999999999994]


def rand_int(r, small=False):
    k = r.random()
    if small or k < 0.3:
        return r.randint(-30, 30)
    if k < 0.6:
        return r.choice(INT_BOUNDARY)
    if k < 0.7:
        return r.randint(-10 ** 6, 10 ** 6)
    bits = r.choice([16, 31, 33, 53, 54, 62, 63, 64, 65, 100, 128, 300, 1100])
    v = r.getrandbits(bits)
    return -v if r.random() < 0.5 else v


def rand_float(r):
    k = r.random()
    if k < 0.35:
        return r.choice(FLOAT_SPECIAL)
    if k < 0.55:
        return r.randint(-64, 64) / r.choice([1, 2, 4, 8, 16])
    if k < 0.75:
        f = b2f(r.getrandbits(64))
        return f
    if k < 0.85:
        # integers near 2^52..2^54 and halves
        return float(r.choice([1 << 52, 1 << 53, 1 << 54, 1 << 63]) + r.randint(-4, 4)) * r.choice([1.0, -1.0, 0.5])
    e = r.randint(-40, 40)
    return r.choice([1.0, -1.0]) * (1 + r.getrandbits(52) / 2.0 ** 52) * 2.0 ** e


def rand_rat(r):
    k = r.random()
    if k < 0.3:
        return Fraction(r.randint(-24, 24), r.randint(1, 12))
    if k < 0.4:
        return Fraction(r.randint(-10 ** 4, 10 ** 4), 1)                        # integral-valued
    if k < 0.55:
        f = rand_float(r)
        while not finite(f):
            f = rand_float(r)
        x = Fraction(f)
        ulp = Fraction(b2f(f2b(abs(f)) + 1)) - Fraction(abs(f)) if abs(f) < 1e308 else Fraction(1)
        c = r.random()
        if c < 0.3:
            return x + ulp / 2                                                 # exactly half way to the next float
        if c < 0.6:
            return x + ulp / 2 + Fraction(r.choice([-1, 1]), 10 ** r.choice([20, 40, 400]))
        if c < 0.8:
            return x + Fraction(r.choice([-1, 1]), 3 ** r.randint(30, 80))
        return x
    if k < 0.65:
        return Fraction(rand_int(r), r.choice([3, 7, 10 ** 9 + 7, (1 << 64) + 1, 3 ** 40]))
    if k < 0.75:
        # beyond the double range / below the subnormal range
        c = r.choice([0, 1, 2, 3])
        if c == 0:
            return Fraction(r.choice([-1, 1]) * 10 ** 400, 3)
        if c == 1:
            return Fraction(r.choice([-1, 1]), 10 ** 400)
        if c == 2:
            return Fraction(r.choice([1, 3, 5, -3]), (1 << 1075) * r.choice([1, 2, 3]))   # around half the smallest subnormal
        return Fraction((1 << 1024) - (1 << 970)) + Fraction(1 << 969) + Fraction(r.choice([-1, 0, 1]), 3)
    bits = r.choice([20, 60, 64, 70, 130, 300])
    n = r.getrandbits(bits) * r.choice([-1, 1])
    d = r.getrandbits(r.choice([5, 30, 64, 70, 200])) + 1
    return Fraction(n, d)


def rand_complex_src(r):
    def comp():
        k = r.random()
        if k < 0.08:
            return r.choice([INF, -INF, NAN])
        if k < 0.6:
            return r.randint(-16, 16) / r.choice([1, 2, 4])
        return rand_float(r)
    re, im = comp(), comp()
    return "(%s + %s * 1i)" % (fsrc(re), fsrc(im))


def src_int(r, n):
    k = r.random()
    if k < 0.7:
        return lit(n), "literal"
    if k < 0.85:
        return "(%s // 1)" % lit(n), "bigrepr"
    return "(%s + 2^70 - 2^70)" % lit(n), "bigdiff"


def src_rat(r, q):
    n, d = q.numerator, q.denominator
    if d == 1:
        k = r.random()
        if k < 0.5:
            return "rational(%s)" % lit(n), "rational()"
        m = r.randint(2, 9)
        return "(%s/%d)" % (lit(n * m), m), "int/int-integral"
    k = r.random()
    if k < 0.6:
        return "(%s/%d)" % (lit(n), d), "int/int"
    if k < 0.85:
        m = r.choice([2, 3, 6, 10, 1 << 40])
        return "(%s/%d)" % (lit(n * m), d * m), "unreduced"
    return "(%s/(-%d))" % (lit(-n), d), "negden"


def operand(r, level=None, small_int=False):
    """-> (model value or None for complex, source, producer tag, kind)"""
    if level is None:
        level = r.choice([0, 0, 1, 1, 1, 2, 2, 3])
    if level == 0:
        n = rand_int(r, small_int)
        s, t = src_int(r, n)
        return n, s, t, "int"
    if level == 1:
        q = rand_rat(r)
        s, t = src_rat(r, q)
        return q, s, t, "rational"
    if level == 2:
        f = rand_float(r)
        if finite(f) and f == int(f) and abs(f) < 1000 and r.random() < 0.5:
            return f, ("%s" % repr(abs(f)) if f >= 0 and sgn(f) > 0 else "(-%s)" % repr(abs(f))), "float-literal", "float"
        return f, fsrc(f), "bits", "float"
    return None, rand_complex_src(r), "complex-expr", "complex"


def decode_num(c):
    """canonical scalar -> model value"""
    if "i" in c:
        return int(c["i"])
    if "q" in c:
        return Fraction(int(c["q"][0]), int(c["q"][1]))
    if "f" in c:
        return b2f(int(c["f"], 16))
    if "c" in c:
        return complex(b2f(int(c["c"][0], 16)), b2f(int(c["c"][1], 16)))
    raise ValueError(c)


def is_nontrivial(vals):
    for v in vals:
        if not isinstance(v, int) or abs(v) > 2 ** 31:
            return True
    return False


PER_KEY_CAP = 6


def viol(sh, key, what, replay):
    """sh.violation, but at most PER_KEY_CAP reports per key and shard so that one flooding defect
    cannot push other findings out of the shard's bounded violation list; all are counted."""
    sh.count("violation_key:" + key)
    if sh.counters["violation_key:" + key] <= PER_KEY_CAP:
        sh.violation(key, what, replay)


def bad_outcome(sh, ev, text):
    """True if the event is inconclusive (already recorded)."""
    o = ev.get("o")
    if o == "ok":
        return False
    if o == "panic":
        # every operator / conversion of the property is promised a value (or, for a zero divisor, inf/NaN) or an
        # ordinary error on every pair of numbers: an internal panic is neither
        pm = (ev.get("panic") or {}).get("msg", "")
        viol(sh, "C07|panic|%s" % re.sub(r"[0-9]+", "N", pm)[:60], "%s panicked inside the interpreter: %s" % (text[:200], pm[:120]),
             {"job": {"kind": "eval", "stmts": [text]}, "expected": "a value or an ordinary error"})
    elif o == "crash":
        sh.inconc("crash:" + str(ev.get("why", "")), text[:200])
    else:
        sh.inconc(str(o), text[:200])
    return True


# ---------------------------------------------------------------- pairs

BINOPS = ["+", "-", "*", "/", "%", "//", "%%"]


def gen_pair(r):
    a = operand(r)
    b = operand(r)
    k = r.random()
    if k < 0.3 and a[0] is not None and b[0] is not None:
        # near multiples stress the rounding direction of % // %%
        bv = b[0]
        if isinstance(bv, float) and not finite(bv):
            return a, b
        m = r.randint(-6, 6)
        if isinstance(bv, float):
            av = bv * m
            if r.random() < 0.5 and finite(av):
                av = b2f(max(0, min(f2b(abs(av)) + r.choice([-1, 1]), 0x7FEFFFFFFFFFFFFF))) * (1 if sgn(av) > 0 else -1)
            a = (av, fsrc(av), "bits", "float")
        else:
            eps = r.choice([0, 0, 1, -1, Fraction(1, 3), Fraction(-1, 10 ** 30)])
            av = bv * m + eps
            if isinstance(av, int):
                s, t = src_int(r, av)
                a = (av, s, t, "int")
            else:
                s, t = src_rat(r, av)
                a = (av, s, t, "rational")
    elif k < 0.38 and b[3] in ("int", "rational"):
        # exact zero divisor
        b = (0, "0", "literal", "int") if r.random() < 0.6 else (Fraction(0), "rational(0)", "rational()", "rational")
    return a, b


def pow_ok(a, b):
    """is `a ^ b` inside the explored space (bounded size)?"""
    if b[3] != "int":
        return False
    e = b[0]
    if abs(e) > 400:
        return False
    av = a[0]
    if isinstance(av, int):
        return av.bit_length() * abs(e) <= 20000
    if isinstance(av, Fraction):
        return (av.numerator.bit_length() + av.denominator.bit_length()) * abs(e) <= 20000
    return True


def run_pairs(sh, r, w, total):
    done = 0
    while done < total:
        batch = []
        for _ in range(min(120, total - done)):
            a, b = gen_pair(r)
            if r.random() < 0.25:
                # make `^` reachable: small int exponent
                e = r.choice([0, 1, 2, 3, 5, 8, 17, 64, -1, -2, -3, -7])
                b = (e, lit(e), "literal", "int")
            ops = list(BINOPS)
            if pow_ok(a, b):
                ops.append("^")
            parts = ["a", "b"] + [TRY % ("a %s b" % op) for op in ops]
            parts.append(TRY % "(a // b) * b + (a %% b) == a")
            stmt = "(\\a, b -> [%s])(%s, %s)" % (", ".join(parts), a[1], b[1])
            batch.append((a, b, ops, stmt))
        done += len(batch)
        evs = core.eval_all(w, [c[3] for c in batch], jid="c07p")
        for (a, b, ops, stmt), ev in zip(batch, evs):
            if bad_outcome(sh, ev, stmt):
                if ev.get("o") == "panic":
                    # find the operator that panicked: re-run one by one (still inconclusive for us)
                    sh.count("pairs_with_panic")
                continue
            res = ev["v"]["l"]
            vals = []
            okops = True
            for opd, echo in ((a, res[0]), (b, res[1])):
                if opd[0] is None:
                    if tag_of(echo) != "complex":
                        viol(sh, "C07|operand|%s|level" % opd[2], "%s evaluated to %s, expected a complex" % (opd[1], echo),
                                     {"job": {"kind": "eval", "stmts": [opd[1]]}, "expected": "complex"})
                        okops = False
                        break
                    vals.append(decode_num(echo))
                else:
                    if norm(echo) != to_canon(opd[0]):
                        why = "level" if tag_of(echo) != opd[3] else "wrong"
                        viol(sh, "C07|operand|%s|%s" % (opd[2], why), "%s evaluated to %s, expected %s" % (
                            opd[1][:160], str(norm(echo))[:100], str(to_canon(opd[0]))[:100]),
                            {"job": {"kind": "eval", "stmts": [opd[1]]}, "expected": to_canon(opd[0])})
                        okops = False
                        break
                    if "q" in echo and (int(echo["q"][1]) <= 0 or math.gcd(int(echo["q"][0]), int(echo["q"][1])) != 1):
                        viol(sh, "C07|operand|%s|notlowest" % opd[2], "%s evaluated to unreduced %s" % (opd[1][:160], echo),
                                     {"job": {"kind": "eval", "stmts": [opd[1]]}, "expected": to_canon(opd[0])})
                    vals.append(opd[0])
            if not okops:
                continue
            av, bv = vals
            ka, kb = kind(av), kind(bv)
            sh.count("producer:" + a[2])
            sh.count("producer:" + b[2])
            nt = is_nontrivial(vals)
            obs_by_op = {}
            for op, obs in zip(ops, res[2:]):
                text = "%s %s %s" % (a[1], op, b[1])
                sh.seen(text, nt)
                sh.count("op:" + op)
                sh.count("levels:%s,%s" % (ka, kb))
                obs_by_op[op] = obs
                spec = expect_bin(op, av, bv)
                if spec is None:
                    sh.count("unchecked:%s|%s,%s" % (op, ka, kb))
                    continue
                if spec[0] == "level":
                    sh.count("level_only:%s" % op)
                sh.count("result:" + ("throw" if obs == MARK else tag_of(obs)))
                bad = judge(spec, obs)
                if bad:
                    exp = spec[1][0] if spec[0] in ("val", "val_or_throw") else spec[0]
                    viol(sh, "C07|%s|%s,%s|%s" % (op, ka, kb, bad[0]),
                                 "%s = %s; %s" % (text[:200], "error" if obs == MARK else str(norm(obs))[:120], bad[1][:160]),
                                 {"job": {"kind": "eval", "stmts": [text]}, "expected": exp})
                elif spec[0] == "val" and ka != kb and "complex" not in (ka, kb) and op in ("%%", "//", "/", "+") and nt:
                    sh.sample({"expr": text, "observed": obs, "expected": spec[1][0]}, cap=3)
            # laws on the observed values (exact levels, non-zero divisor)
            if LEVEL[ka] <= 1 and LEVEL[kb] <= 1 and bv != 0:
                text = "(%s // %s) * %s + (%s %%%% %s) == %s" % (a[1], b[1], b[1], a[1], b[1], a[1])
                sh.seen(text, nt)
                sh.count("op:identity")
                rp = {"job": {"kind": "eval", "stmts": [text]}, "expected": {"i": "1"}}
                ident = res[2 + len(ops)]
                if ident == MARK or norm(ident) != {"i": "1"}:
                    viol(sh, "C07|identity|%s,%s|wrong" % (ka, kb), "%s gave %s, expected 1" % (text[:220], ident), rp)
                q, m = obs_by_op.get("//"), obs_by_op.get("%%")
                if q is not None and m is not None and q != MARK and m != MARK and tag_of(q) in ("int", "rational") and tag_of(m) in ("int", "rational"):
                    qv, mv = Fraction(decode_num(q)), Fraction(decode_num(m))
                    if qv.denominator != 1:
                        viol(sh, "C07|//|%s,%s|notintegral" % (ka, kb), "%s // %s = %s is not integral" % (a[1][:100], b[1][:100], qv), rp)
                    if bv > 0 and mv < 0:
                        viol(sh, "C07|%%%%|%s,%s|negative" % (ka, kb), "%s %%%% %s = %s is negative for a positive divisor" % (
                            a[1][:100], b[1][:100], mv), {"job": {"kind": "eval", "stmts": ["%s %%%% %s" % (a[1], b[1])]}, "expected": ">= 0"})
                    if bv > 0 and not mv < bv:
                        viol(sh, "C07|%%%%|%s,%s|toolarge" % (ka, kb), "%s %%%% %s = %s is not below the divisor" % (
                            a[1][:100], b[1][:100], mv), {"job": {"kind": "eval", "stmts": ["%s %%%% %s" % (a[1], b[1])]}, "expected": "< divisor"})


# ---------------------------------------------------------------- complex-level coercion (metamorphic)

def run_cmeta(sh, r, w, total):
    done = 0
    while done < total:
        batch = []
        for _ in range(min(200, total - done)):
            x = operand(r, level=r.choice([0, 1, 1]))
            z = rand_complex_src(r)
            op = r.choice(BINOPS)
            fx = fsrc(to_f(x[0]))
            zero_div = False
            if r.random() < 0.5:
                e1, e2 = "%s %s %s" % (x[1], op, z), "%s %s %s" % (fx, op, z)
            else:
                e1, e2 = "%s %s %s" % (z, op, x[1]), "%s %s %s" % (z, op, fx)
                # a non-zero rational that converts to 0.0: the zero-divisor guard may or may not fire
                zero_div = op in ("%", "//", "%%") and to_f(x[0]) == 0.0
            batch.append((x, op, e1, e2, "[%s, %s]" % (TRY % e1, TRY % e2), zero_div))
        done += len(batch)
        evs = core.eval_all(w, [c[4] for c in batch], jid="c07c")
        for (x, op, e1, e2, stmt, zero_div), ev in zip(batch, evs):
            if bad_outcome(sh, ev, stmt):
                continue
            if zero_div and (ev["v"]["l"][0] == MARK) != (ev["v"]["l"][1] == MARK):
                sh.seen("cmeta " + e1, True)
                sh.count("cmeta_zero_divisor_after_conversion")
                continue
            sh.seen("cmeta " + e1, True)
            sh.count("cmeta:" + op)
            sh.count("cmeta_operand:" + x[3])
            o1, o2 = ev["v"]["l"]
            rp = {"job": {"kind": "eval", "stmts": [e1, e2]}, "expected": "both statements bit-identical"}
            if (o1 == MARK) != (o2 == MARK) or (o1 != MARK and norm(o1) != norm(o2)):
                viol(sh, "C07|%s|%s,complex|coercion" % (op, x[3]),
                             "%s = %s but with the operand converted to its nearest float %s = %s" % (
                                 e1[:160], "error" if o1 == MARK else norm(o1), e2[:100], "error" if o2 == MARK else norm(o2)), rp)
            elif o1 != MARK and tag_of(o1) != "complex":
                viol(sh, "C07|%s|%s,complex|level" % (op, x[3]), "%s = %s is not complex" % (e1[:160], norm(o1)), rp)


# ---------------------------------------------------------------- unary family

def run_unary(sh, r, w, total):
    done = 0
    while done < total:
        batch = []
        for _ in range(min(250, total - done)):
            x = operand(r, level=r.choice([0, 1, 1, 1, 2, 2, 2, 3]))
            fn = r.choice(UNARY)
            if x[0] is None:
                batch.append((x, fn, "[%s, %s]" % (x[1], TRY % ("%s(%s)" % (fn, x[1])))))
            else:
                batch.append((x, fn, "[0, %s]" % (TRY % ("%s(%s)" % (fn, x[1])))))
        done += len(batch)
        evs = core.eval_all(w, [c[2] for c in batch], jid="c07u")
        for (x, fn, stmt), ev in zip(batch, evs):
            text = "%s(%s)" % (fn, x[1])
            if bad_outcome(sh, ev, text):
                continue
            echo, obs = ev["v"]["l"]
            xv = x[0] if x[0] is not None else (decode_num(echo) if tag_of(echo) == "complex" else None)
            if xv is None:
                sh.inconc("operand", text[:200])
                continue
            sh.seen(text, is_nontrivial([xv]))
            sh.count("unary:%s|%s" % (fn, kind(xv)))
            spec = expect_un(fn, xv)
            if spec is None:
                sh.count("unchecked:%s|%s" % (fn, kind(xv)))
                continue
            if spec[0] == "val" and len(spec[1]) == 2 and fn == "round":
                try:
                    away = abs(int(obs["i"])) == max(abs(int(f["i"])) for f in spec[1])
                    sh.count("round_tie:" + ("away-from-zero" if away else "toward-zero"))
                except Exception:
                    sh.count("round_tie:other")
            bad = judge(spec, obs)
            if bad:
                viol(sh, "C07|%s|%s|%s" % (fn, kind(xv), bad[0]),
                             "%s = %s; %s" % (text[:200], "error" if obs == MARK else str(norm(obs))[:120], bad[1][:160]),
                             {"job": {"kind": "eval", "stmts": [text]}, "expected": spec[1][0] if len(spec) > 1 else spec[0]})
            elif kind(xv) != "int":
                sh.sample({"expr": text, "observed": obs, "expected": spec[1][0]}, cap=4)


def run_unary_xlevel(sh, r, w, total):
    """floor / ceil / round / int are functions of the exact mathematical value: the same value written as a rational,
    as the (exactly representable) float, as an integral rational or int must give the same result -- in particular the
    tie rule of `round`, whatever it is, cannot depend on the level, and round(-x) == -round(x) at ties follows from
    either symmetric rule the levels share.  Both sides are computed by the interpreter."""
    done = 0
    while done < total:
        batch = []
        for _ in range(min(250, total - done)):
            j = r.choice([0, 1, 1, 1, 2, 3])
            k = r.choice([r.randint(-40, 40), 2 * r.randint(-20, 20) + 1, (2 * r.randint(-8, 8) + 1) * (1 << max(j - 1, 0))])
            q = Fraction(k, 1 << j)
            fn = r.choice(["floor", "ceil", "round", "round", "round", "int"])
            qs = "(%s/%d)" % (lit(k), 1 << j)
            fs = "(%r)" % float(q) if q >= 0 else "(0.0 - %r)" % float(-q)
            batch.append((q, fn, qs, fs, "[%s, %s]" % (TRY % ("%s(%s)" % (fn, qs)), TRY % ("%s(%s)" % (fn, fs)))))
        done += len(batch)
        evs = core.eval_all(w, [c[4] for c in batch], jid="c07x")
        for (q, fn, qs, fs, stmt), ev in zip(batch, evs):
            text = "%s(%s) vs %s(%s)" % (fn, qs, fn, fs)
            if bad_outcome(sh, ev, text):
                continue
            a, b = ev["v"]["l"]
            sh.seen(text, True)
            tie = q.denominator == 2
            sh.count("xlevel:%s%s" % (fn, "|tie" if tie and fn == "round" else ""))
            try:
                va = None if a == MARK else Fraction(decode_num(a))
                vb = None if b == MARK else Fraction(decode_num(b))
            except (ValueError, TypeError, OverflowError):
                sh.inconc("xlevel-decode", text[:200])
                continue
            if va != vb:
                viol(sh, "C07|%s|rational-vs-float|level-dependent%s" % (fn, "-tie" if tie else ""),
                     "%s(%s) = %s but %s(%s) = %s for the same value %s" % (fn, qs, "error" if a == MARK else norm(a), fn, fs,
                                                                          "error" if b == MARK else norm(b), q),
                     {"job": {"kind": "eval", "stmts": [stmt]}, "expected": "equal results"})


# ---------------------------------------------------------------- vectors

VOPS = ["+", "-", "*", "/", "%", "//", "%%", "^"]
VUN = [("neg", "-(%s)"), ("abs", "abs(%s)"), ("floor", "floor(%s)"), ("ceil", "ceil(%s)"), ("round", "round(%s)"),
       ("numerator", "numerator(%s)"), ("denominator", "denominator(%s)")]


def velem(r, op, right):
    """element for a vector case; bounded so that `^` stays small"""
    if op == "^":
        if right:
            if r.random() < 0.8:
                e = r.randint(-3, 6)
                return (e, lit(e), "literal", "int")
            return operand(r, level=r.choice([1, 2]))
        x = operand(r)
        while x[3] in ("int", "rational") and (x[0].numerator.bit_length() + x[0].denominator.bit_length()) > 400:
            x = operand(r)
        return x
    return operand(r)


def run_vectors(sh, r, w, total):
    done = 0
    while done < total:
        batch = []
        for _ in range(min(150, total - done)):
            shape = r.choice(["vv", "vv", "vv", "vv_bad", "vs", "vs", "sv", "sv", "un"])
            if shape == "un":
                name, tmpl = r.choice(VUN)
                n = r.choice([0, 1, 2, 3, 4])
                xs = [operand(r) for _ in range(n)]
                vec = "V(%s)" % ", ".join(x[1] for x in xs)
                parts = [TRY % (tmpl % vec)] + [TRY % (tmpl % x[1]) for x in xs]
                batch.append((shape, name, tmpl % vec, n, xs, [], "[%s]" % ", ".join(parts)))
                continue
            op = r.choice(VOPS)
            n = r.choice([0, 1, 1, 2, 2, 3, 4])
            m = n
            if shape == "vv_bad":
                m = r.choice([k for k in range(0, 6) if k != n])
            xs = [velem(r, op, False) for _ in range(n if shape != "sv" else 1)]
            ys = [velem(r, op, True) for _ in range(m if shape != "vs" else 1)]
            if shape in ("vv", "vv_bad"):
                left, right = "V(%s)" % ", ".join(x[1] for x in xs), "V(%s)" % ", ".join(y[1] for y in ys)
                pairs = list(zip(xs, ys)) if shape == "vv" else []
            elif shape == "vs":
                left, right = "V(%s)" % ", ".join(x[1] for x in xs), ys[0][1]
                pairs = [(x, ys[0]) for x in xs]
            else:
                ys = [velem(r, op, True) for _ in range(n)]
                left, right = xs[0][1], "V(%s)" % ", ".join(y[1] for y in ys)
                pairs = [(xs[0], y) for y in ys]
            whole = "%s %s %s" % (left, op, right)
            parts = [TRY % whole] + [TRY % ("%s %s %s" % (p[0][1], op, p[1][1])) for p in pairs]
            batch.append((shape, op, whole, len(pairs), pairs, (len(xs), len(ys)), "[%s]" % ", ".join(parts)))
        done += len(batch)
        evs = core.eval_all(w, [c[6] for c in batch], jid="c07v")
        for (shape, op, whole, n, pairs, lens, stmt), ev in zip(batch, evs):
            if bad_outcome(sh, ev, whole):
                continue
            sh.seen("vec " + whole, True)
            sh.count("vshape:" + shape)
            sh.count("vop:" + op)
            sh.count("vlen:%d" % n)
            res = ev["v"]["l"]
            vobs, elems = res[0], res[1:]
            rp = {"job": {"kind": "eval", "stmts": [whole]}}
            if shape == "vv_bad":
                rp["expected"] = "error (different lengths %s)" % (lens,)
                if vobs != MARK:
                    viol(sh, "C07|vector|%s|unequal-lengths-accepted" % op, "%s = %s, expected an error" % (whole[:200], str(norm(vobs))[:120]), rp)
                continue
            if any(e == MARK for e in elems):
                sh.count("vector_element_raises")
                rp["expected"] = "error (an element operation raises)"
                if vobs != MARK:
                    viol(sh, "C07|vector|%s|%s|should-raise" % (op, shape), "%s = %s although an element-wise operation raises" % (
                        whole[:200], str(norm(vobs))[:120]), rp)
            else:
                want = {"v": [norm(e) for e in elems]}
                rp["expected"] = want
                if vobs == MARK:
                    viol(sh, "C07|vector|%s|%s|raised" % (op, shape), "%s raised, expected %s" % (whole[:200], str(want)[:160]), rp)
                elif tag_of(vobs) != "v":
                    viol(sh, "C07|vector|%s|%s|notvector" % (op, shape), "%s = %s is not a vector" % (whole[:200], str(norm(vobs))[:120]), rp)
                elif norm(vobs) != want:
                    viol(sh, "C07|vector|%s|%s|wrong" % (op, shape), "%s = %s, element-wise scalars give %s" % (
                        whole[:200], str(norm(vobs))[:160], str(want)[:160]), rp)
                else:
                    sh.sample({"expr": whole, "observed": vobs, "elementwise": elems}, cap=5)
            # scalar oracle on the element-wise results (binary shapes, non-complex operands known)
            if shape != "un":
                for (x, y), e in zip(pairs, elems):
                    if x[0] is None or y[0] is None:
                        continue
                    if op == "^" and not pow_ok(x, y):
                        continue
                    spec = expect_bin(op, x[0], y[0])
                    bad = judge(spec, e)
                    if bad:
                        text = "%s %s %s" % (x[1], op, y[1])
                        viol(sh, "C07|%s|%s,%s|%s" % (op, x[3], y[3], bad[0]),
                                     "%s = %s; %s" % (text[:200], "error" if e == MARK else str(norm(e))[:120], bad[1][:160]),
                                     {"job": {"kind": "eval", "stmts": [text]}, "expected": spec[1][0] if len(spec) > 1 and isinstance(spec[1], list) else spec[0]})


# ---------------------------------------------------------------- shard

def shard(ctx, si, n):
    sh = core.Shard("C07")
    r = core.rng_for("C07", ctx.seed, si)
    w = core.Worker()

    def share(total):
        return total // n + (1 if si < total % n else 0)
    try:
        run_pairs(sh, r, w, share(ctx.plan["pairs"]))
        run_cmeta(sh, r, w, share(ctx.plan["cmeta"]))
        run_unary(sh, r, w, share(ctx.plan["unary"]))
        run_unary_xlevel(sh, r, w, max(250, share(ctx.plan["unary"]) // 8))
        run_vectors(sh, r, w, share(ctx.plan["vectors"]))
    finally:
        w.close()
    return sh
