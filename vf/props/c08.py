"""C08  Numeric equality and ordering are exact and coherent across types.

Reference-model monitor over comparison matrices.  Every real number is mapped to its exact value
(fractions.Fraction; floats via Fraction(float); +-inf as sentinels), so every cell has exactly one
right answer.  Sub-monitors:

  matrix   the full pool x pool grid (about 100 numbers engineered around float rounding: 2^53,
           2^53+1, 2.0^53, 2^63+-1, 10^30 vs 1e30, 1/3 vs 0.3333333333333333, 0.1 vs 1/10, +-0.0,
           +-inf, nan, numbers beyond the double range, complex) for == != < <= > >= <=> >=< min max
           in both directions; cell oracle plus laws on the observed cells (trichotomy, symmetry of
           ==, antisymmetry of <=>, != / <= / >= / >=< consistent with == and <)
  triples  transitivity of < and ==, compatibility of < with == on observed values (thorough: the
           whole cube over the non-NaN real pool)
  near     random pairs derived from one anchor (float, its exact rational, that +- a tiny epsilon,
           neighbouring floats, floor/ceil ints)
  sort     sort / min / max on random sub-multisets: permutation of the input, ascending by the
           exact order, min/max equal to the extreme elements; mixed incomparable kinds must raise
  seqs     lexicographic comparison of short lists / vectors / strings / bytes built from the pool
  kinds    comparisons between different kinds must raise for every ordering operator
"""
import json
import math
from fractions import Fraction
from .. import core
from ..values import norm, to_canon, from_canon, src as vsrc, Vec, exact, f2bits, bits2f

RULE = ("cases = (operator, left operand, right operand) cells; matrix: exhaustive over the engineered pool (both "
        "directions); near: seeded pairs around one anchor value; seqs: seeded pairs of short sequences (prefixes, one "
        "element changed, different kinds); sort: seeded sub-multisets of size 0..12; distinct = distinct (operator, "
        "operand source) text; non-trivial = the two operands differ in level/kind or exceed 2^53 in magnitude or are "
        "non-finite, or (sort) the multiset has at least two elements")
ASSUMPTIONS = ["Fraction(float) is the exact value of a double; Python str order is code-point order = UTF-8 byte order",
               "NaN cells: == < <= > >= may only be false or raise, != only true or raise; min/max must raise where the interpreter's own <=> of the same operands raises; other operators are not judged",
               "complex numbers: == judged exactly on (re, im); ordering may raise or must follow the (re, im) pair order",
               "ties: min/max/sort may return any of several equal (==) elements; stability is not required",
               "== / != between different kinds are not judged (only the ordering operators must raise)"]
PLAN = {"quick": {"matrix": 1, "triples": 36000, "near": 36000, "sort": 15000, "seqs": 30000, "kinds": 1},
        "thorough": {"matrix": 1, "triples": 0, "cube": 1, "near": 250000, "sort": 100000, "seqs": 200000, "kinds": 1}}
EXHAUSTIVE = {"quick": True, "thorough": True}

REG = dict(level="exploration", min_nontrivial=20000,
           technique="runtime reference-model monitor: exact-Fraction comparison oracle over the exhaustive engineered pool x pool matrix (all comparison operators, min, max, both directions), order laws on observed cells and triples, sort/min/max on sub-multisets, lexicographic sequence pairs, cross-kind pairs",
           claim="Held on every executed cell: each comparison result of the real interpreter equals the exact mathematical comparison; observed cells satisfy trichotomy, symmetry, antisymmetry and transitivity; sort output is an ascending permutation and min/max are its ends; sequences compare lexicographically; ordering across kinds raises. The pool matrix is enumerated completely; the rest is seeded exploration, not proof.",
           note="NaN cells, complex ordering and == across kinds are judged only as far as the statement promises; known defect: ordering a rational against +-inf raises.")

MARK = {"s": "E"}
TRY = 'try %s catch e -> "E"'
INF = math.inf
NAN = math.nan
PER_KEY_CAP = 6


def viol(sh, key, what, replay):
    sh.count("violation_key:" + key)
    if sh.counters["violation_key:" + key] <= PER_KEY_CAP:
        sh.violation(key, what, replay)


# ---------------------------------------------------------------- model

class Other:
    """a value of a kind the model only names (null, dict, function, type)"""
    def __init__(self, kind):
        self.kind = kind


def kind(x):
    if isinstance(x, bool):
        raise TypeError
    if isinstance(x, int):
        return "int"
    if isinstance(x, Fraction):
        return "rational"
    if isinstance(x, float):
        if x != x:
            return "float-nan"
        if x in (INF, -INF):
            return "float-inf"
        return "float"
    if isinstance(x, complex):
        return "complex"
    if isinstance(x, str):
        return "str"
    if isinstance(x, bytes):
        return "bytes"
    if isinstance(x, Vec):
        return "vector"
    if isinstance(x, list):
        return "list"
    if isinstance(x, Other):
        return x.kind
    raise TypeError(x)


NUMK = ("int", "rational", "float", "float-inf", "float-nan", "complex")
SEQK = ("str", "bytes", "vector", "list")


def ext(x):
    """extended-real key of a non-NaN real"""
    e = exact(x)
    if e == "+inf":
        return (1, 0)
    if e == "-inf":
        return (-1, 0)
    return (0, e)


def cmp_real(a, b):
    """-1/0/1 or None if a NaN is involved"""
    if (isinstance(a, float) and a != a) or (isinstance(b, float) and b != b):
        return None
    ka, kb = ext(a), ext(b)
    return (ka > kb) - (ka < kb)


def compare(a, b):
    """-> (status, c, leaf): status ord | cpx | nan | incomp | unj; c in -1/0/1 (ord, cpx);
    leaf = kinds of the deciding leaf comparison"""
    ka, kb = kind(a), kind(b)
    leaf = "%s,%s" % (ka, kb)
    if ka in NUMK and kb in NUMK:
        if ka == "complex" or kb == "complex":
            za = a if ka == "complex" else None
            zb = b if kb == "complex" else None
            ra, ia = (za.real, za.imag) if za is not None else (a, 0.0)
            rb, ib = (zb.real, zb.imag) if zb is not None else (b, 0.0)
            c = cmp_real(ra, rb)
            if c is None:
                return ("nan", None, leaf)
            if c != 0:
                return ("cpx", c, leaf)
            c = cmp_real(ia, ib)
            if c is None:
                return ("nan", None, leaf)
            return ("cpx", c, leaf)
        c = cmp_real(a, b)
        if c is None:
            return ("nan", None, leaf)
        return ("ord", c, leaf)
    if ka in SEQK and kb == ka:
        if ka == "str":
            return ("ord", (a > b) - (a < b), leaf)
        if ka == "bytes":
            return ("ord", (a > b) - (a < b), leaf)
        status = "ord"
        for x, y in zip(a, b):
            if isinstance(x, Other) and isinstance(y, Other):
                return ("unj", None, leaf)
            st, c, lf = compare(x, y)
            if st in ("incomp", "nan", "unj"):
                return (st, None, lf)
            if st == "cpx":
                status = "cpx"
            if c != 0:
                return (status, c, lf)
        return (status, (len(a) > len(b)) - (len(a) < len(b)), leaf)
    if ka == kb and ka not in NUMK and ka not in SEQK:
        return ("unj", None, leaf)           # null vs null, dict vs dict, ...: not judged
    return ("incomp", None, leaf)


def equal(a, b):
    """-> True / False / "nan" (false or raise) / None (not judged)"""
    ka, kb = kind(a), kind(b)
    if ka in NUMK and kb in NUMK:
        st, c, _ = compare(a, b)
        if st == "nan":
            # a NaN anywhere in (re, im) decides only if the other components are equal; keep it simple
            return "nan"
        return c == 0
    if ka in SEQK and ka == kb:
        if ka in ("str", "bytes"):
            return a == b
        if len(a) != len(b):
            return False
        res = True
        for x, y in zip(a, b):
            e = equal(x, y)
            if e is None:
                return None
            if e is False:
                return False
            if e == "nan":
                res = "nan"
        return res
    return None


OPS = ["==", "!=", "<", "<=", ">", ">=", "<=>", ">=<", "min", "max"]
ORDER_OPS = ("<", "<=", ">", ">=", "<=>", ">=<", "min", "max")


def op_text(op, sa, sb):
    if op in ("min", "max"):
        return "%s(%s, %s)" % (op, sa, sb)
    return "%s %s %s" % (sa, op, sb)


def cell_parts(sa, sb):
    """13 try-wrapped expressions: the ten operators on (a, b) and ==, <, <=> on (b, a)"""
    return [TRY % op_text(op, sa, sb) for op in OPS] + [TRY % op_text(op, sb, sa) for op in ("==", "<", "<=>")]


def I(n):
    return {"i": str(int(n))}


def judge_cell(sh, tag, a, b, sa, sb, ca, cb, res):
    """a, b model values; sa, sb sources; ca, cb normalised canonical operands; res = 13 observed
    values.  Records cases, violations, law checks."""
    ka, kb = kind(a), kind(b)
    st, c, leaf = compare(a, b)
    eq = equal(a, b)
    nt = ka != kb or ka not in ("int",) or abs(a) > 2 ** 53
    sh.count("%s_status:%s" % (tag, st))
    sh.count("%s_kinds:%s,%s" % (tag, ka, kb))
    suffix = "" if leaf == "%s,%s" % (ka, kb) else "|at:" + leaf
    for op, obs in zip(OPS, res[:10]):
        text = op_text(op, sa, sb)
        sh.seen(text, nt)
        sh.count("op:" + op)
        threw = obs == MARK
        got = None if threw else norm(obs)
        rp = {"job": {"kind": "eval", "stmts": [text]}}

        def bad(what, expected, msg):
            rp["expected"] = expected
            viol(sh, "C08|%s|%s,%s|%s%s" % (op, ka, kb, what, suffix),
                 "%s = %s; %s" % (text[:220], "error" if threw else str(got)[:120], msg), rp)

        if op in ("==", "!="):
            if eq is None:
                sh.count("unjudged:%s" % op)
                continue
            want = I(eq is True) if op == "==" else I(eq is not True)
            if eq == "nan":
                if not threw and got != want:
                    bad("wrong", want, "with a NaN involved expected %s or an error" % want["i"])
                continue
            if threw:
                bad("raised", want, "expected %s" % want["i"])
            elif got != want:
                bad("wrong", want, "expected %s" % want["i"])
            continue
        # ordering operators
        if op in ("min", "max") and (ka in ("type", "func") or kb in ("type", "func")):
            sh.count("unjudged:%s" % op)       # min/max treat a function argument as a key function
            continue
        if st == "unj":
            sh.count("unjudged:%s" % op)
            continue
        if st == "incomp":
            if not threw:
                bad("should-raise", "error", "incomparable kinds must raise")
            continue
        if st == "nan":
            if op in ("<", "<=", ">", ">="):
                if not threw and got != I(0):
                    bad("wrong", I(0), "with a NaN involved expected 0 or an error")
            elif op in ("min", "max") and res[6] == MARK and not threw:
                # min / max "agree with that order": where the interpreter's own three-way comparison of the two
                # operands refuses to answer (raises), min / max cannot pick one of them silently
                sh.count("nan-consistency:checked")
                bad("answers-where-order-raises", "error", "`%s` raises on these operands, so %s must raise too instead of silently preferring one" % (op_text("<=>", sa, sb)[:80], op))
            else:
                sh.count("unjudged:%s" % op)
            continue
        if op == "<":
            want = [I(c < 0)]
        elif op == "<=":
            want = [I(c <= 0)]
        elif op == ">":
            want = [I(c > 0)]
        elif op == ">=":
            want = [I(c >= 0)]
        elif op == "<=>":
            want = [I(c)]
        elif op == ">=<":
            want = [I(-c)]
        elif op == "min":
            want = [ca] if c < 0 else [cb] if c > 0 else [ca, cb]
        else:
            want = [cb] if c < 0 else [ca] if c > 0 else [ca, cb]
        if threw:
            if st == "cpx":
                sh.count("complex_order_raises")
            else:
                # every ordering operator goes through the same comparison: one key per (leaf kinds, container)
                rp["expected"] = want[0]
                viol(sh, "C08|order-raised|%s|%s" % ("~".join(sorted(leaf.split(","))), "scalar" if ka in NUMK else ka),
                     "%s = error; expected %s (comparable operands)" % (text[:220], str(want[0])[:100]), rp)
        elif got not in want:
            bad("wrong", want[0], "expected %s" % str(want[0])[:100])
    # laws on the observed cells (non-NaN, comparable operands)
    if st == "ord" and not any(x == MARK for x in res):
        v = [norm(x) for x in res]
        o_eq, o_ne, o_lt, o_le, o_gt, o_ge, o_cmp, o_rcmp = [int(x.get("i", "9")) if isinstance(x, dict) else 9 for x in v[:8]]
        r_eq, r_lt, r_cmp = [int(x.get("i", "9")) if isinstance(x, dict) else 9 for x in v[10:13]]
        rp = {"job": {"kind": "eval", "stmts": ["[%s]" % ", ".join(cell_parts(sa, sb))]}, "expected": "order laws"}

        def law(name, ok):
            sh.count("law:" + name)
            if not ok:
                viol(sh, "C08|law|%s|%s,%s" % (name, ka, kb), "%s vs %s: observed cells %s violate %s" % (sa[:100], sb[:100], v, name), rp)
        law("trichotomy", o_lt + o_eq + o_gt == 1)
        law("eq-symmetric", o_eq == r_eq)
        law("cmp-antisymmetric", o_cmp == -r_cmp)
        law("lt-gt-converse", o_gt == r_lt)
        law("ne-negates-eq", o_ne == 1 - o_eq)
        law("le-is-lt-or-eq", o_le == (1 if (o_lt or o_eq) else 0) and o_ge == (1 if (o_gt or o_eq) else 0))
        law("cmp-agrees", o_cmp == o_gt - o_lt and o_rcmp == -o_cmp)


def bad_outcome(sh, ev, text):
    o = ev.get("o")
    if o == "ok":
        return False
    if o == "crash":
        sh.inconc("crash:" + str(ev.get("why", "")), text[:200])
    else:
        sh.inconc(str(o), text[:200])
    return True


# ---------------------------------------------------------------- the engineered pool

def fsrc(f):
    return "bits_to_float(%d)" % int(f2bits(f), 16)


def lit(n):
    return str(n) if n >= 0 else "(-%d)" % (-n)


def qsrc(q):
    if q.denominator == 1:
        return "rational(%s)" % lit(q.numerator)
    return "(%s/%d)" % (lit(q.numerator), q.denominator)


MAXF = bits2f("7fefffffffffffff")
MINSUB = bits2f("0000000000000001")


def build_pool():
    P = []          # (source, model or None)

    def add(model, source=None):
        if source is None:
            source = lit(model) if isinstance(model, int) else qsrc(model) if isinstance(model, Fraction) else fsrc(model)
        P.append((source, model))
    for n in [0, 1, -1, 2, 3, 2 ** 53 - 1, 2 ** 53, 2 ** 53 + 1, 2 ** 53 + 2, -(2 ** 53) - 1, 2 ** 63 - 1, 2 ** 63, 2 ** 63 + 1,
              -(2 ** 63), -(2 ** 63) - 1, 2 ** 64, 2 ** 64 + 1, 10 ** 22, 10 ** 23, 10 ** 30, 10 ** 30 + 1, -(10 ** 30),
              2 ** 1024, -(2 ** 1024), 2 ** 1024 - 2 ** 970, 2 ** 1024 - 2 ** 970 + 1, 10 ** 400]:
        add(n)
    add(1, "(1 // 1)")
    add(0, "(0 // 1)")
    add(2 ** 53, "(2^53)")
    add(-(2 ** 63), "(0 - 9223372036854775807 - 1)")
    for q in [Fraction(1, 2), Fraction(-1, 2), Fraction(1, 3), Fraction(-7, 3), Fraction(1), Fraction(0), Fraction(2 ** 53 + 1),
              Fraction(1, 10), Fraction(3, 10), Fraction(2 ** 54 + 1, 2), Fraction(2 ** 70, 3), Fraction(0.1), Fraction(0.1) + Fraction(1, 10 ** 40),
              Fraction(0.1) - Fraction(1, 10 ** 40), Fraction(0.3333333333333333), Fraction(1, 10 ** 400), Fraction(-1, 10 ** 400),
              Fraction(10 ** 400, 3), Fraction(-(10 ** 400), 3), Fraction(MINSUB), Fraction(MINSUB) / 2, Fraction(MAXF) + Fraction(1, 2),
              Fraction(10 ** 30 * 3 + 1, 3), Fraction(2 ** 63) - Fraction(1, 2 ** 64), Fraction(1e23), Fraction(2 ** 1024) + Fraction(1, 7)]:
        add(q)
    for f in [0.0, -0.0, 0.5, -0.5, 1.0, 2.0, 0.1, 0.3, 0.3333333333333333, 2.0 ** 53, 2.0 ** 53 + 2, 2.0 ** 53 - 1, -(2.0 ** 53), 2.0 ** 63,
              -(2.0 ** 63), 2.0 ** 64, 1e22, 1e23, 1e30, MINSUB, -MINSUB, MAXF, -MAXF, 1.0000000000000002, 4503599627370496.5, INF, -INF, NAN]:
        add(f)
    add(0.1, "0.1")
    add(1e30, "1e30")
    add(0.3333333333333333, "0.3333333333333333")
    add(2.0 ** 53, "(2.0^53)")
    add(INF, "(1.0/0.0)")
    add(NAN, "(0.0/0.0)")
    for s in ["1i", "(1+0i)", "(0+0i)", "(2.5-1i)", "(1+1i)", "(1-1i)", "(%s + 0i)" % fsrc(2.0 ** 53), "(0.5+0i)",
              "(%s + 1i)" % fsrc(NAN), "(1 + %s * 1i)" % fsrc(NAN), "(%s + 0i)" % fsrc(INF), "(0.1+0i)"]:
        P.append((s, None))
    return P


POOL = build_pool()


def decode_num(c):
    if "i" in c:
        return int(c["i"])
    if "q" in c:
        return Fraction(int(c["q"][0]), int(c["q"][1]))
    if "f" in c:
        return bits2f(c["f"])
    if "c" in c:
        return complex(bits2f(c["c"][0]), bits2f(c["c"][1]))
    raise ValueError(c)


def load_pool(sh, w):
    """evaluate every pool source once; returns usable entries [(name, source, model, canon)] and the prelude"""
    evs = core.eval_all(w, [s for s, _ in POOL], fresh_each=True, jid="c08pool")
    out, prelude = [], []
    for i, ((s, m), ev) in enumerate(zip(POOL, evs)):
        if ev.get("o") != "ok":
            sh.inconc("pool-operand:" + str(ev.get("o")), s)
            continue
        c = norm(ev["v"])
        if m is None:
            if "c" not in c:
                sh.inconc("pool-operand:not-complex", s)
                continue
            m = decode_num(c)
        elif c != to_canon(m):
            # a producer that does not denote the intended value is somebody else's property (literals: C15)
            sh.inconc("pool-operand:mismatch", "%s = %s, intended %s" % (s, c, to_canon(m)))
            continue
        name = "p%d" % i
        out.append((name, s, m, c))
        prelude.append("%s := %s" % (name, s))
    return out, prelude


# ---------------------------------------------------------------- matrix

def run_matrix(sh, w, pool, prelude, si, n):
    rows = [i for i in range(len(pool)) if i % n == si]
    for i in rows:
        na, sa, ma, ca = pool[i]
        stmts = ["[%s]" % ", ".join(cell_parts(na, nb)) for (nb, _, _, _) in pool]
        evs = core.eval_all(w, stmts, prelude=prelude, fresh_each=True, child_each=True, jid="c08m")
        for (nb, sb, mb, cb), ev, stmt in zip(pool, evs, stmts):
            if bad_outcome(sh, ev, "%s ? %s" % (sa, sb)):
                continue
            judge_cell(sh, "matrix", ma, mb, sa, sb, ca, cb, ev["v"]["l"])
            if kind(ma) != kind(mb) and len(sh.samples) < 2 and kind(ma) in ("int", "rational") and kind(mb) == "float":
                sh.sample({"a": sa, "b": sb, "ops": OPS + ["b==a", "b<a", "b<=>a"], "observed": ev["v"]["l"]})


def reals_non_nan(pool):
    return [p for p in pool if kind(p[2]) in ("int", "rational", "float", "float-inf")]


def run_triples(sh, r, w, pool, prelude, count, cube_rows=None):
    reals = reals_non_nan(pool)
    exprs = ["a < b", "b < c", "a < c", "a == b", "b == c", "a == c", "a <= b", "b <= c", "a <= c"]

    def triples():
        if cube_rows is not None:
            for i in cube_rows:
                for b in reals:
                    for c in reals:
                        yield reals[i], b, c
        else:
            # bias towards equal values in different representations so that the == laws have premises
            classes = {}
            for p in reals:
                classes.setdefault(ext(p[2]), []).append(p)

            def pick(prev):
                if prev is not None and r.random() < 0.4:
                    return r.choice(classes[ext(prev[2])])
                return r.choice(reals)
            for _ in range(count):
                a = pick(None)
                b = pick(a)
                yield a, b, pick(b)
    batch = []

    def flush():
        if not batch:
            return
        stmts = ["(\\a, b, c -> [%s])(%s, %s, %s)" % (", ".join(TRY % e for e in exprs), a[0], b[0], c[0]) for a, b, c in batch]
        evs = core.eval_all(w, stmts, prelude=prelude, fresh_each=True, child_each=True, jid="c08t")
        for (a, b, c), ev in zip(batch, evs):
            text = "triple %s, %s, %s" % (a[1], b[1], c[1])
            if bad_outcome(sh, ev, text):
                continue
            sh.seen(text, True)
            res = ev["v"]["l"]
            if any(x == MARK for x in res):
                sh.count("triple_with_error")      # the raising cell is reported by the matrix monitor
                continue
            lt_ab, lt_bc, lt_ac, eq_ab, eq_bc, eq_ac, le_ab, le_bc, le_ac = [int(x["i"]) for x in res]
            rp = {"job": {"kind": "eval", "stmts": ["(\\a, b, c -> [%s])(%s, %s, %s)" % (", ".join(exprs), a[1], b[1], c[1])]},
                  "expected": "transitivity"}
            ks = "%s,%s,%s" % (kind(a[2]), kind(b[2]), kind(c[2]))

            def law(name, premise, conclusion):
                if premise:
                    sh.count("law:" + name)
                    if not conclusion:
                        viol(sh, "C08|law|%s|%s" % (name, ks), "%s: observed %s violates %s" % (text[:300], res, name), rp)
            law("lt-transitive", lt_ab and lt_bc, lt_ac)
            law("eq-transitive", eq_ab and eq_bc, eq_ac)
            law("le-transitive", le_ab and le_bc, le_ac)
            law("eq-lt-compatible", eq_ab and lt_bc, lt_ac)
            law("lt-eq-compatible", lt_ab and eq_bc, lt_ac)
        del batch[:]
    for t in triples():
        batch.append(t)
        if len(batch) >= 400:
            flush()
    flush()


# ---------------------------------------------------------------- near (random neighbours of one anchor)

def rand_anchor_float(r):
    k = r.random()
    if k < 0.25:
        return float(r.choice([1 << 52, 1 << 53, 1 << 54, 1 << 62, 1 << 63, 1 << 64, 10 ** 22, 10 ** 23, 10 ** 30]) + r.randint(-3, 3)) * r.choice([1.0, -1.0])
    if k < 0.45:
        return r.randint(-50, 50) / r.choice([1, 2, 3, 7, 10])
    if k < 0.55:
        return r.choice([0.0, -0.0, MINSUB, -MINSUB, MAXF, -MAXF, bits2f("0010000000000000"), 1e-300, 1e300])
    f = bits2f("%016x" % r.getrandbits(64))
    while f != f or f in (INF, -INF):
        f = bits2f("%016x" % r.getrandbits(64))
    return f


def neighbours(r, f):
    """model values near the finite float f"""
    x = Fraction(f)
    c = r.randint(0, 11)
    if c == 0:
        return f
    if c == 1:
        return x
    if c in (2, 3):
        return x + Fraction(r.choice([-1, 1]), r.choice([10 ** 40, 3 ** 50, 2 ** 1100, 10 ** 400]))
    if c == 4:
        b = int(f2bits(abs(f)), 16)
        g = bits2f("%016x" % min(b + 1, 0x7fefffffffffffff))
        return math.copysign(g, f) if f != 0 else g
    if c == 5:
        b = int(f2bits(abs(f)), 16)
        g = bits2f("%016x" % max(b - 1, 0))
        return math.copysign(g, f)
    if c == 6:
        return math.floor(x)
    if c == 7:
        return math.ceil(x)
    if c == 8:
        return math.floor(x) + r.choice([-1, 1])
    if c == 9:
        nb = bits2f("%016x" % min(int(f2bits(abs(f)), 16) + 1, 0x7fefffffffffffff))
        return (x + Fraction(math.copysign(nb, f) if f != 0 else nb)) / 2        # exactly between two floats
    if c == 10:
        return r.choice([INF, -INF, NAN, 0, 0.0, -0.0])
    return -x if r.random() < 0.5 else -f


def nsrc(r, v):
    if isinstance(v, int):
        k = r.random()
        return lit(v) if k < 0.7 else "(%s // 1)" % lit(v) if k < 0.85 else "(%s + 2^70 - 2^70)" % lit(v)
    if isinstance(v, Fraction):
        return qsrc(v)
    return fsrc(v)


def run_near(sh, r, w, count):
    done = 0
    while done < count:
        batch = []
        for _ in range(min(250, count - done)):
            f = rand_anchor_float(r)
            a, b = neighbours(r, f), neighbours(r, f)
            sa, sb = nsrc(r, a), nsrc(r, b)
            batch.append((a, b, sa, sb, "(\\a, b -> [a, b, %s])(%s, %s)" % (", ".join(cell_parts("a", "b")), sa, sb)))
        done += len(batch)
        evs = core.eval_all(w, [c[4] for c in batch], jid="c08n")
        for (a, b, sa, sb, stmt), ev in zip(batch, evs):
            if bad_outcome(sh, ev, stmt):
                continue
            res = ev["v"]["l"]
            ca, cb = norm(res[0]), norm(res[1])
            if ca != to_canon(a) or cb != to_canon(b):
                sh.count("operand_adopted_from_echo")
                a, b = from_canon(ca), from_canon(cb)
            judge_cell(sh, "near", a, b, sa, sb, ca, cb, res[2:])


# ---------------------------------------------------------------- sequences

ELEMS = [0, 1, 2, -1, 1.0, 0.5, Fraction(1, 2), Fraction(1), 2 ** 53, 2.0 ** 53, 2 ** 53 + 1, INF, -INF, NAN, Fraction(1, 3),
         0.3333333333333333, -0.0, 10 ** 30, 1e30, Fraction(2 ** 54 + 1, 2)]
ALPHA = ["a", "b", "B", "é", "z", "0", " ", "€", "\U0001F600", "é"]
BYTEV = [0, 1, 65, 127, 128, 255]


def rand_elem(r, depth=0):
    k = r.random()
    if k < 0.78:
        return r.choice(ELEMS)
    if k < 0.86:
        return rand_str(r)
    if k < 0.94 and depth < 2:
        return [rand_elem(r, depth + 1) for _ in range(r.randint(0, 2))]
    if k < 0.97:
        return Vec(r.choice(ELEMS) for _ in range(r.randint(0, 2)))
    return complex(r.choice([0.0, 1.0, 0.5]), r.choice([0.0, 1.0, -1.0]))


def rand_str(r):
    return "".join(r.choice(ALPHA) for _ in range(r.choice([0, 1, 1, 2, 2, 3])))


def rand_seq(r, k=None):
    k = k or r.choice(["list", "list", "list", "vector", "vector", "str", "bytes"])
    if k == "list":
        return [rand_elem(r) for _ in range(r.choice([0, 1, 1, 2, 2, 3, 4]))]
    if k == "vector":
        return Vec((r.choice(ELEMS) if r.random() < 0.93 else complex(r.choice([0.0, 1.0]), r.choice([1.0, -1.0])))
                   for _ in range(r.choice([0, 1, 1, 2, 2, 3, 4])))
    if k == "str":
        return rand_str(r)
    return bytes(r.choice(BYTEV) for _ in range(r.choice([0, 1, 1, 2, 3])))


def mutate_seq(r, a):
    """a related sequence: prefix, extension, one element changed, or an equal copy in other representations"""
    k = kind(a)
    c = r.random()
    if c < 0.2 or len(a) == 0:
        ext_ = rand_seq(r, k)
        return a + ext_ if k in ("str", "bytes") else type(a)(list(a) + list(ext_))
    if c < 0.4:
        cut = r.randint(0, len(a) - 1)
        return a[:cut] if k in ("str", "bytes") else type(a)(list(a)[:cut])
    if c < 0.55:
        return a if k in ("str", "bytes") else type(a)(list(a))
    i = r.randint(0, len(a) - 1)
    if k == "str":
        return a[:i] + r.choice(ALPHA) + a[i + 1:]
    if k == "bytes":
        return a[:i] + bytes([r.choice(BYTEV)]) + a[i + 1:]
    xs = list(a)
    old = xs[i]
    if isinstance(old, (int, float, Fraction)) and not isinstance(old, bool) and r.random() < 0.6:
        # an equal or neighbouring number in another representation
        e = exact(old)
        if isinstance(e, Fraction):
            xs[i] = r.choice([e, e + Fraction(1, 10 ** 30), int(e) if e.denominator == 1 else e, float(e) if Fraction(float(e)) == e else e])
        else:
            xs[i] = r.choice(ELEMS)
    else:
        xs[i] = rand_elem(r) if k == "list" else r.choice(ELEMS)
    return type(a)(xs)


def seq_src(v):
    """source text with floats by bit pattern"""
    if isinstance(v, float):
        return fsrc(v)
    if isinstance(v, complex):
        return "(%s + %s * 1i)" % (fsrc(v.real), fsrc(v.imag))
    if isinstance(v, Vec):
        return "V(%s)" % ", ".join(seq_src(x) for x in v)
    if isinstance(v, list):
        return "[%s]" % ", ".join(seq_src(x) for x in v)
    return vsrc(v)


def run_seqs(sh, r, w, count):
    done = 0
    while done < count:
        batch = []
        for _ in range(min(250, count - done)):
            a = rand_seq(r)
            b = mutate_seq(r, a) if r.random() < 0.75 else rand_seq(r)
            if r.random() < 0.5:
                a, b = b, a
            sa, sb = seq_src(a), seq_src(b)
            if r.random() < 0.15:
                # both operands are the SAME value object (an alias): comparison is by value, so the answers must be
                # those of two separately built equal sequences (a NaN inside still makes it unequal to itself)
                b, sb = a, sa
                sh.count("seqs:aliased-operands")
                batch.append((a, b, sa, sb, "(\\x -> (\\a, b -> [a, b, %s])(x, x))(%s)" % (", ".join(cell_parts("a", "b")), sa)))
                continue
            batch.append((a, b, sa, sb, "(\\a, b -> [a, b, %s])(%s, %s)" % (", ".join(cell_parts("a", "b")), sa, sb)))
        done += len(batch)
        evs = core.eval_all(w, [c[4] for c in batch], jid="c08s")
        for (a, b, sa, sb, stmt), ev in zip(batch, evs):
            if bad_outcome(sh, ev, stmt):
                continue
            res = ev["v"]["l"]
            ca, cb = norm(res[0]), norm(res[1])
            if ca != to_canon(a) or cb != to_canon(b):
                # complex elements are built by arithmetic and may differ in a zero sign: compare what is there
                sh.count("operand_adopted_from_echo")
                a, b = from_canon(ca), from_canon(cb)
            judge_cell(sh, "seqs", a, b, sa, sb, ca, cb, res[2:])
            if len(sh.samples) < 4 and kind(a) == kind(b) == "list" and len(a) > 1:
                sh.sample({"a": sa, "b": sb, "ops": OPS + ["b==a", "b<a", "b<=>a"], "observed": res[2:]})


# ---------------------------------------------------------------- different kinds

KIND_REPS = [("0", 0), ("1", 1), ("(1/2)", Fraction(1, 2)), ("1.5", 1.5), ("(1.0/0.0)", INF), ("1i", 1j),
             ('""', ""), ('"a"', "a"), ('"1"', "1"), ("B[]", b""), ("B[1]", b"\x01"), ("B[97]", b"a"),
             ("[]", []), ("[1]", [1]), ('["a"]', ["a"]), ("[[1]]", [[1]]), ("V()", Vec()), ("V(1)", Vec([1])),
             ("null", Other("null")), ("{}", Other("dict")), ("{1: 2}", Other("dict")), ("{1}", Other("dict")),
             ("int", Other("type")), ("(1 to 3)", Other("stream")), ("[null]", [Other("null")]), ("[1, null]", [1, Other("null")]),
             ('[1, "a"]', [1, "a"]), ("[1, [2]]", [1, [2]]), ("[1, V(2)]", [1, Vec([2])]), ('[[1], "a"]', [[1], "a"])]


def run_kinds(sh, w, si, n):
    cells = [(i, j) for i in range(len(KIND_REPS)) for j in range(len(KIND_REPS))]
    mine = [c for k, c in enumerate(cells) if k % n == si]
    stmts = []
    for i, j in mine:
        sa, sb = KIND_REPS[i][0], KIND_REPS[j][0]
        stmts.append("(\\a, b -> [a, b, %s])(%s, %s)" % (", ".join(cell_parts("a", "b")), sa, sb))
    evs = core.eval_all(w, stmts, jid="c08k")
    for (i, j), ev, stmt in zip(mine, evs, stmts):
        (sa, a), (sb, b) = KIND_REPS[i], KIND_REPS[j]
        if bad_outcome(sh, ev, stmt):
            continue
        res = ev["v"]["l"]
        judge_cell(sh, "kinds", a, b, sa, sb, norm(res[0]), norm(res[1]), res[2:])


# ---------------------------------------------------------------- sort / min / max on multisets

def leaf_kinds(m, acc):
    if isinstance(m, (list, Vec)):
        for x in m:
            leaf_kinds(x, acc)
    else:
        acc.add(kind(m))


def ckey_json(c):
    return json.dumps(c, sort_keys=True)


def run_sort(sh, r, w, pool, prelude, count):
    reals = reals_non_nan(pool)
    finite_small = [p for p in pool if kind(p[2]) in ("int", "rational", "float")]
    nans = [p for p in pool if kind(p[2]) == "float-nan"]
    cpx = [p for p in pool if kind(p[2]) == "complex"]
    strs = [("s%d" % i, vsrc(s), s, to_canon(s)) for i, s in enumerate(["", "a", "b", "ab", "B", "é", "z", "aa", "€"])]
    lists = [("l%d" % i, seq_src(s), s, to_canon(s)) for i, s in enumerate(
        [[], [1], [1, 2], [1.0], [0.5, 3], [Fraction(1, 2)], [2 ** 53 + 1], [2.0 ** 53], [1, [2]], [1, 2, 3], [-INF], [INF, 0]])]
    extra_prelude = ["%s := %s" % (n_, s_) for (n_, s_, _, _) in strs + lists]
    done = 0
    while done < count:
        batch = []
        for _ in range(min(250, count - done)):
            c = r.random()
            size = r.choice([0, 1, 2, 2, 3, 3, 4, 5, 6, 8, 12])
            wrap = "list"
            if c < 0.55:
                items, flavour = [r.choice(reals) for _ in range(size)], "reals"
            elif c < 0.65:
                base = r.choice(finite_small)
                same = [p for p in reals if cmp_real(p[2], base[2]) == 0]
                items, flavour = [r.choice(same + [r.choice(reals)]) for _ in range(size)], "ties"
            elif c < 0.72:
                items, flavour = [r.choice(reals) for _ in range(size)], "reals"
                wrap = "vector"
            elif c < 0.78:
                items, flavour = [r.choice(reals + nans) for _ in range(size)] + [r.choice(nans)], "with-nan"
            elif c < 0.84:
                items, flavour = [r.choice(reals + cpx) for _ in range(size)] + [r.choice(cpx)], "with-complex"
            elif c < 0.90:
                items, flavour = [r.choice(strs) for _ in range(size)], "strings"
            elif c < 0.95:
                items, flavour = [r.choice(lists) for _ in range(size)], "lists"
            else:
                items = [r.choice(reals) for _ in range(max(1, size // 2))] + [r.choice(strs + lists) for _ in range(max(1, size // 2))]
                r.shuffle(items)
                flavour = "mixed-kinds"
            inner = ", ".join(p[0] for p in items)
            L = "V(%s)" % inner if wrap == "vector" else "[%s]" % inner
            stmt = "[%s, %s, %s]" % (TRY % ("sort(%s)" % L), TRY % ("min(%s)" % L), TRY % ("max(%s)" % L))
            batch.append((items, flavour, wrap, L, stmt))
        done += len(batch)
        evs = core.eval_all(w, [c[4] for c in batch], prelude=prelude + extra_prelude, fresh_each=True, child_each=True, jid="c08o")
        for (items, flavour, wrap, L, stmt), ev in zip(batch, evs):
            full = "[%s]" % ", ".join(p[1] for p in items) if wrap == "list" else "V(%s)" % ", ".join(p[1] for p in items)
            if bad_outcome(sh, ev, stmt):
                continue
            nt = len(items) >= 2
            sh.count("sort_flavour:" + flavour)
            sh.count("sort_size:%d" % len(items))
            models = [p[2] for p in items]
            canons = [p[3] for p in items]
            ks = {kind(m) for m in models}
            lk = set()
            for m in models:
                leaf_kinds(m, lk)
            has_defect_mix = "rational" in lk and "float-inf" in lk
            # classify the multiset
            status = "ord"
            for x in range(len(models)):
                for y in range(x, len(models)):
                    st = compare(models[x], models[y])[0]
                    if st == "incomp":
                        status = "incomp"
                    elif st in ("nan", "unj") and status != "incomp":
                        status = "nan"
                    elif st == "cpx" and status == "ord":
                        status = "cpx"
            sh.count("sort_status:" + status)
            for fn, obs in zip(("sort", "min", "max"), ev["v"]["l"]):
                text = "%s(%s)" % (fn, full)
                sh.seen(text, nt)
                sh.count("op:" + fn + "(seq)")
                threw = obs == MARK
                rp = {"job": {"kind": "eval", "stmts": [text]}}
                key = "C08|%s|%s:%s|" % (fn, wrap, flavour)
                if len(items) == 0 and fn != "sort":
                    continue                                  # min/max of nothing: not this property
                if status == "nan" or (len(items) < 2 and status != "ord"):
                    sh.count("unjudged:%s(seq)" % fn)
                    continue
                if status == "incomp":
                    if fn != "sort" and flavour != "mixed-kinds":
                        sh.count("unjudged:%s(seq)" % fn)     # a scan need not meet the incomparable pair
                        continue
                    if len(items) >= 2 and not threw:
                        rp["expected"] = "error"
                        viol(sh, key + "should-raise", "%s = %s, expected an error (incomparable kinds)" % (text[:240], str(norm(obs))[:120]), rp)
                    continue
                if threw:
                    if status == "cpx":
                        sh.count("complex_order_raises")
                        continue
                    rp["expected"] = "a value"
                    viol(sh, "C08|order-raised|%s|%s:%s" % ("float-inf~rational" if has_defect_mix else "?:" + flavour, fn, wrap),
                         "%s raised, all elements are comparable" % text[:260], rp)
                    continue
                got = norm(obs)
                if fn == "sort":
                    tagk = "v" if wrap == "vector" else "l"
                    if not isinstance(got, dict) or tagk not in got:
                        viol(sh, key + "kind", "%s = %s: wrong result kind" % (text[:240], str(got)[:120]), rp)
                        continue
                    out = got[tagk]
                    if sorted(ckey_json(c) for c in out) != sorted(ckey_json(c) for c in canons):
                        rp["expected"] = "a permutation of the input"
                        viol(sh, key + "not-permutation", "%s = %s is not a permutation of the input" % (text[:240], str(out)[:160]), rp)
                        continue
                    # map outputs back to models (by canonical form) and test ascending order
                    by_c = {ckey_json(c): m for c, m in zip(canons, models)}
                    outm = [by_c[ckey_json(c)] for c in out]
                    okasc = all(compare(outm[k], outm[k + 1])[1] <= 0 for k in range(len(outm) - 1))
                    if not okasc:
                        rp["expected"] = "ascending"
                        viol(sh, key + "not-ascending", "%s = %s is not ascending" % (text[:240], str(out)[:160]), rp)
                    else:
                        # stability is informational only
                        pos = {}
                        stable = True
                        idx_in = [ckey_json(c) for c in canons]
                        last = -1
                        prev = None
                        for c, m in zip(out, outm):
                            if prev is not None and compare(prev, m)[1] != 0:
                                last = -1
                            start = pos.get(ckey_json(c), 0)
                            k = idx_in.index(ckey_json(c), start)
                            pos[ckey_json(c)] = k + 1
                            if k < last:
                                stable = False
                            last = k
                            prev = m
                        sh.count("sort_stable" if stable else "sort_not_stable")
                        if len(sh.samples) < 5 and len(items) >= 4 and len(ks) >= 3:
                            sh.sample({"expr": text, "observed": obs})
                else:
                    want_c = -1 if fn == "min" else 1
                    best = [c for c, m in zip(canons, models)
                            if all(compare(m, o)[1] * want_c >= 0 for o in models)]
                    if got not in best:
                        rp["expected"] = best[0] if best else None
                        viol(sh, key + "wrong", "%s = %s, expected %s" % (text[:240], str(got)[:100], str(best[:1])[:100]), rp)


# ---------------------------------------------------------------- shard

def shard(ctx, si, n):
    sh = core.Shard("C08")
    r = core.rng_for("C08", ctx.seed, si)
    w = core.Worker()

    def share(total):
        return total // n + (1 if si < total % n else 0)
    try:
        pool, prelude = load_pool(sh, w)
        sh.count("pool_size", len(pool) if si == 0 else 0)
        run_matrix(sh, w, pool, prelude, si, n)
        if ctx.plan.get("cube"):
            nreal = len(reals_non_nan(pool))
            run_triples(sh, r, w, pool, prelude, 0, cube_rows=[i for i in range(nreal) if i % n == si])
        else:
            run_triples(sh, r, w, pool, prelude, share(ctx.plan["triples"]))
        run_near(sh, r, w, share(ctx.plan["near"]))
        run_seqs(sh, r, w, share(ctx.plan["seqs"]))
        run_kinds(sh, w, si, n)
        run_sort(sh, r, w, pool, prelude, share(ctx.plan["sort"]))
    finally:
        w.close()
    return sh
