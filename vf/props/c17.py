"""C17  freeze preserves meaning and binds free variables eagerly.

Monitor: differential (translation-validation style).  For a generated closed lambda LAM the same
text is bound twice in one environment, `lam := \\.. -> BODY` and `frz := freeze \\.. -> BODY`.
  same      frz(args) must give the same value, captured output and raised/not-raised outcome as
            lam(args) for three argument tuples (the unfrozen evaluator is the reference)
  eager     then every outer variable / operator / operator precedence the body mentions is
            reassigned (and `swap +, *`-style swaps of the builtin operators it uses): frz(args) must
            still give exactly what it gave before; lam(args) is only recorded — a case is non-trivial
            when lam did change, i.e. when eager binding was observable
  failing   bodies with exactly one planted defect (unbound free name, assignment to an outer
            variable, import, bare underscore) must make `freeze` raise immediately; all other
            generated bodies must freeze without raising
Bodies come from the C05 program generator restricted to what the property lists (no eval; outer
variables read-only) plus user-defined operators with custom precedence in unparenthesised chains.
"""
from .. import core
from ..values import norm
from . import c05_model as M
from .c05 import Gen, INT, LST, FUN, STR

RULE = ("case = one generated closed lambda (body of 15-80 AST nodes: sequences, if, for/while with declarations and "
        "guards, switch, try, nested lambdas, local declarations shadowing outer or builtin names, operator chains with "
        "user operators at custom precedence, list literals, negative literals) x 3 argument tuples, compared frozen vs "
        "unfrozen before and after reassigning everything outer it mentions; distinct = distinct lambda text; "
        "non-trivial = the unfrozen lambda changed its result after the reassignment (eager binding observable) or a "
        "planted freeze-time failure")
ASSUMPTIONS = ["the unfrozen evaluator is the reference for the frozen code (C05 checks the evaluator itself)",
               "error text is not compared, only raised / not raised",
               "eval is not generated inside frozen bodies (freeze cannot look inside a string)"]
PLAN = {"quick": {"lambdas": 6000, "size": 50, "shards": 16}, "thorough": {"lambdas": 200000, "size": 90, "shards": 64}}
REG = dict(level="translation_validation", min_nontrivial=500,
           technique="differential runtime monitor: frozen vs unfrozen evaluation of generated lambdas in one environment, re-run after reassigning every outer variable/operator/precedence (eager-binding observation), plus planted freeze-time failures",
           claim="For every generated lambda the frozen function gave the same value, output and raised/not-raised outcome as the unfrozen one, kept giving it after all outer names it mentions were reassigned, and freeze raised exactly on the planted failures. Exploration over generated lambdas only.",
           note="Reference = the unfrozen evaluator of the same build; a defect shared by both paths is invisible here (C05 covers the evaluator).")

OUTER = [("o1", INT, "3"), ("o2", INT, "(0 - 4)"), ("o3", LST, "[1, 2, 3]"), ("o4", STR, "\"s\""), ("o5", INT, "10")]
PLANT_OUTER = ["o8 := 1", "o9 := 2", "o7l := [0, 0, 0]", "o7d := {}"]
REASSIGN = ["o1 = 50", "o2 = 7", "o3 = [9]", "o4 = \"t\"", "o5 = (0 - 1)"]
# outer functions are themselves frozen: their bodies must not depend on later `swap +, *`
USER_OPS = ["op1 := freeze \\a, b -> a * 10 + b", "op2 := freeze \\a, b -> a - 2 * b", "op1::precedence = 6", "op2::precedence = 3"]
USER_OPS_REASSIGN = ["op1::precedence = 1", "op2::precedence = 9", "swap op1, op2"]
FN_PRELUDE = ["hf := freeze \\a -> a + 1000"]
FN_REASSIGN = ["hf = freeze \\a -> a - 1"]
BUILTIN_SWAPS = ["swap +, *", "swap -, +", "swap <, >", "swap len, sum", "swap ++, $"]


class NotClosed(Exception):
    pass


def check_closed(node, bound, outer):
    """Static closedness of a generated AST under the freeze scoping rules (DESIGN Appendix A):
    for/while/lambda/switch arm/catch get a copy of the bound set; if, sequences and the try body
    share it; declarations bind from the point of declaration on.  Raises NotClosed(reason)."""
    t = node[0]
    if t in ("int", "str", "null"):
        return
    if t == "var":
        if node[1] not in bound and node[1] not in outer:
            raise NotClosed("unbound:" + node[1])
        return
    if t == "list":
        for x in node[1]:
            check_closed(x, bound, outer)
        return
    if t in ("bin",):
        check_closed(node[2], bound, outer)
        check_closed(node[3], bound, outer)
        return
    if t in ("not", "len", "print", "throw"):
        check_closed(node[1], bound, outer)
        return
    if t in ("and", "or", "coalesce", "idx", "range"):
        check_closed(node[1], bound, outer)
        check_closed(node[2], bound, outer)
        return
    if t == "if":
        check_closed(node[1], bound, outer)
        check_closed(node[2], bound, outer)
        if node[3] is not None:
            check_closed(node[3], bound, outer)
        return
    if t == "seq":
        for x in node[1]:
            check_closed(x, bound, outer)
        return
    if t == "decl":
        if node[2][0] == "lambda":
            bound.add(node[1])      # a function may refer to itself (recursion)
        check_closed(node[2], bound, outer)
        bound.add(node[1])
        return
    if t in ("assign", "opassign"):
        check_closed(node[-1], bound, outer)
        if node[1] not in bound:
            raise NotClosed(("outer-assign:" if node[1] in outer else "unbound-assign:") + node[1])
        return
    if t == "try":
        check_closed(node[1], bound, outer)
        b2 = set(bound)
        if node[2][0] == "name":
            b2.add(node[2][1])
        check_closed(node[3], b2, outer)
        return
    if t in ("break", "return"):
        v = node[2] if t == "break" else node[1]
        if v is not None:
            check_closed(v, bound, outer)
        return
    if t == "continue":
        return
    if t == "lambda":
        b2 = set(bound)
        for name, d in node[1]:
            if d is not None:
                check_closed(d, b2, outer)
        for name, d in node[1]:
            b2.add(name)
        if node[2] is not None:
            b2.add(node[2])
        check_closed(node[3], b2, outer)
        return
    if t == "call":
        check_closed(node[1], bound, outer)
        for a in node[2]:
            check_closed(a, bound, outer)
        return
    if t == "switch":
        check_closed(node[1], bound, outer)
        for pat, body in node[2]:
            b2 = set(bound)
            if pat[0] == "bind":
                b2.add(pat[1])
            check_closed(body, b2, outer)
        return
    if t == "while":
        b2 = set(bound)
        check_closed(node[1], b2, outer)
        check_closed(node[2], b2, outer)
        return
    if t == "for":
        _, clauses, kind, body, keyexpr, into = node
        b2 = set(bound)
        for c in clauses:
            if c[0] == "if":
                check_closed(c[1], b2, outer)
            elif c[0] == "let":
                check_closed(c[2], b2, outer)
                b2.add(c[1])
            else:
                check_closed(c[-1], b2, outer)
                for nm in c[1:-1]:
                    b2.add(nm)
        if keyexpr is not None:
            check_closed(keyexpr, b2, outer)
        check_closed(body, b2, outer)
        if into is not None and into[0] == "fn":
            check_closed(into[1], bound, outer)
        return
    raise NotClosed("unmodelled:" + t)


def shadow_after_use(node, outer):
    """True if some scope reads an outer variable and LATER (textually, in the same scope) declares a
    local of the same name, e.g. `v := o3; o3 := [v]` or `o4 := o4 $ 8`.  Scoping as in check_closed."""
    found = [False]

    def walk(n, bound, reads):
        t = n[0]
        if t == "var":
            if n[1] in outer and n[1] not in bound:
                for rs in reads:
                    rs.add(n[1])
            return
        if t == "decl":
            if n[2][0] == "lambda":
                pass
            walk(n[2], bound, reads)
            if n[1] in outer and n[1] in reads[-1]:
                found[0] = True
            bound.add(n[1])
            return
        if t in ("assign", "opassign"):
            walk(n[-1], bound, reads)
            return
        if t == "try":
            walk(n[1], bound, reads)
            b2 = set(bound)
            if n[2][0] == "name":
                b2.add(n[2][1])
            walk(n[3], b2, reads + [set()])
            return
        if t == "lambda":
            b2 = set(bound) | {nm for nm, _ in n[1]} | ({n[2]} if n[2] else set())
            for nm, d in n[1]:
                if d is not None:
                    walk(d, set(bound), reads + [set()])
            walk(n[3], b2, reads + [set()])
            return
        if t == "switch":
            walk(n[1], bound, reads)
            for pat, body in n[2]:
                b2 = set(bound)
                if pat[0] == "bind":
                    b2.add(pat[1])
                walk(body, b2, reads + [set()])
            return
        if t == "while":
            b2 = set(bound)
            r2 = reads + [set()]
            walk(n[1], b2, r2)
            walk(n[2], b2, r2)
            return
        if t == "for":
            _, clauses, kind, body, keyexpr, into = n
            b2 = set(bound)
            r2 = reads + [set()]
            for c in clauses:
                if c[0] == "if":
                    walk(c[1], b2, r2)
                elif c[0] == "let":
                    walk(c[2], b2, r2)
                    b2.add(c[1])
                else:
                    walk(c[-1], b2, r2)
                    for nm in c[1:-1]:
                        b2.add(nm)
            if keyexpr is not None:
                walk(keyexpr, b2, r2)
            walk(body, b2, r2)
            if into is not None and into[0] == "fn":
                walk(into[1], bound, reads)
            return
        for x in n[1:]:
            if isinstance(x, tuple) and x and isinstance(x[0], str):
                walk(x, bound, reads)
            elif isinstance(x, list):
                for y in x:
                    if isinstance(y, tuple) and y and isinstance(y[0], str):
                        walk(y, bound, reads)

    walk(node, set(), [set()])
    return found[0]


def declares_and_reads_outer(node, outer):
    """The body declares, inside a conditional construct (if branch, try body, right operand of
    and/or/coalesce), a local whose name is also an outer variable that the body reads: whether a
    read of that name means the local or the outer variable is then decided at run time."""
    decls, reads = set(), set()

    def walk(n, cond):
        if isinstance(n, tuple) and n and isinstance(n[0], str):
            t = n[0]
            if t == "decl" and n[1] in outer and cond:
                decls.add(n[1])
            if t == "var" and n[1] in outer:
                reads.add(n[1])
            if t == "if" and len(n) == 4:
                walk(n[1], cond)
                walk(n[2], True)
                if n[3] is not None:
                    walk(n[3], True)
                return
            if t in ("and", "or", "coalesce"):
                walk(n[1], cond)
                walk(n[2], True)
                return
            if t == "try":
                walk(n[1], True)
                walk(n[3], True)
                return
            for x in n[1:]:
                walk(x, cond)
        elif isinstance(n, (list, tuple)):
            for x in n:
                walk(x, cond)
    walk(node, False)
    return bool(decls & reads)


def has_for_let(node):
    if isinstance(node, tuple):
        if node and node[0] == "for" and any(c[0] == "let" for c in node[1]):
            return True
        return any(has_for_let(x) for x in node)
    if isinstance(node, list):
        return any(has_for_let(x) for x in node)
    return False


def gen_lambda(r, size):
    """-> (param names, body source, plant kind or None)"""
    g = Gen(r, size)
    g.allow_eval = False
    g.scopes = [{n: t for n, t, _ in OUTER}]
    g.scopes[0]["hf"] = FUN
    g.funcs.append(("hf", 1, 1, INT))
    g.readonly = {n for n, _, _ in OUTER} | {"hf", "op1", "op2"}
    g.in_lambda = 1
    g.scopes.append({})
    params = ["q%d" % i for i in range(r.randint(0, 2))]
    for p in params:
        g.declare(p, INT)
    stmts = []
    for _ in range(r.randint(0, 1)):
        stmts.extend(g.hazard())
    while g.budget > 0 and len(stmts) < 7:
        stmts.append(g.stmt(1, allow_return=True))
    res = g.expr(r.choice([INT, INT, LST, STR]), 1)
    ast = ("seq", stmts + [res]) if stmts else res
    body = M.render(ast)
    outer = {nm for nm, _, _ in OUTER} | {"hf", "op1", "op2"}
    try:
        check_closed(ast, set(params), outer)
        static = None
    except NotClosed as e:
        static = str(e)
    forlet = has_for_let(ast)
    if declares_and_reads_outer(ast, outer) or shadow_after_use(ast, outer):
        forlet = "shadow" if not forlet else "shadow+forlet"
    # an unparenthesised chain with user operators (precedence resolved at freeze time)
    if r.random() < 0.5:
        a, b, c = [r.choice(["o1", "o2", "o5", "2", "7"] + params) for _ in range(3)]
        chain = "%s %s %s %s %s" % (a, r.choice(["op1", "op2", "+", "*"]), b, r.choice(["op1", "op2", "-"]), c)
        body = "(chk := (%s); print(chk); %s)" % (chain, body)
    # unary minus on a literal where `-` is a parameter shadowing the builtin (constant folding of
    # negative literals must respect the local binding)
    if r.random() < 0.15:
        body = "(chm := (\\-, zz -> (-3) + zz)(\\b -> b * 10, %s); print(chm); %s)" % (r.choice(["1", "o1"] + params), body)
    # builtin operators called in prefix form with literal arguments (constant folding must keep all arguments)
    if r.random() < 0.15:
        op = r.choice(["-", "+", "*", "max", "min"])
        a1 = r.choice(["7", "10", "2"])
        a2 = r.choice(["2", "o1", "o5"] + params)
        form = r.choice(["%s(%s, %s)" % (op, a1, a2), "(%s) ! %s, %s" % (op, a1, a2) if op in ("-", "+", "*") else "%s ! %s, %s" % (op, a1, a2),
                         "%s(%s, _)(%s)" % (op, a1, a2), "%s(%s)" % (op, a1) if op == "-" else "%s(%s, %s, 1)" % (op, a1, a2)])
        body = "(chp := (try %s catch _e -> \"raised\"); print(chp); %s)" % (form, body)
    # an operator chain whose operands have effects (each prints itself) and in which an early operator may raise
    # (division by zero) before a later operand is due: value, output and raised/not-raised all depend on the
    # order in which the chain evaluator interleaves operand evaluation and operator application, which freezing
    # must not change
    if static is None and r.random() < 0.2:
        n_ops = r.randint(2, 4)
        opnd = lambda: r.choice(["0", "0", "1", "2", "3", "o1", "o5"] + params)
        chain = "nt_(%s)" % opnd()
        for _ in range(n_ops):
            chain += " %s nt_(%s)" % (r.choice(["//", "//", "%%", "+", "-", "*", "max", "op1", "<", "=="]), opnd())
        body = "(nt_ := \\v_ -> (print(\"nt\", v_); v_); chq := (try (%s) catch _e -> \"raised\"); print(chq); %s)" % (chain, body)
    # a local declaration that shadows an outer variable and reads the outer one in its own right-hand side, in
    # every shape of right-hand side (the outer value is the one at freeze time, also after it is reassigned);
    # o7l / o8 are outer names the generator itself never mentions
    shadow_decl = False
    if static is None and r.random() < 0.15:
        shadow_decl = True
        decl, nm = r.choice([
            ("o7l := map(o7l, \\y_ -> y_ + 1)", "o7l"), ("o7l := map(o7l, \\y_ -> y_ + len(o7l))", "o7l"),
            ("o7l := filter(o7l ++ [5], \\y_ -> y_ < 9)", "o7l"), ("o7l := fold(o7l, \\a_, b_ -> a_ + b_ + 1)", "o7l"),
            ("o7l := o7l ++ [1]", "o7l"), ("o7l := (o7l map (+ 1))", "o7l"), ("o7l := [o7l, (\\z_ -> z_ ++ o7l)([7])]", "o7l"),
            ("o8 := o8 + 1", "o8"), ("o8 := max(o8, 5)", "o8"), ("o8 := (\\z_ -> z_ + o8)(1)", "o8"),
            ("o8 := hf2_(o8, \\z_ -> z_ * 2)", "o8"), ("o8 := sum(map([o8, 2], \\z_ -> z_ + o8))", "o8"),
            # binding constructs that shadow the outer name in ONE nested scope while a sibling scope / the code
            # after it reads the outer variable
            ("swv_ := (switch (@A) case [o8] -> o8 case 2 -> o8 * 3 case _ -> o8 + 1)", "swv_"),
            ("swv_ := (switch (@A) case o8: str -> o8 case 7 -> o8 - 1 case _ -> [o8])", "swv_"),
            ("swv_ := (switch ([@A, 3]) case o8, 4 -> o8 case _, 3 -> o8 + 7 case _ -> o8)", "swv_"),
            ("swv_ := [(for (o8 <- [4, 5]) yield o8 + 1), o8]", "swv_"),
            ("swv_ := ((\\o8 -> o8 * 2)(21) + o8)", "swv_"),
            ("swv_ := [(try (throw @A) catch o8 -> o8), o8]", "swv_"),
            # loop and try bodies are scopes of their own: a declaration inside one shadows the outer name there
            # only, and the code after the construct reads the outer variable again
            ("swv_ := (wj_ := 0; wa_ := 0; (while (wj_ < 2) (o8 := wj_ * 10; wa_ += o8; wj_ += 1)); [wa_, o8])", "swv_"),
            ("swv_ := (wj_ := 0; (while (wj_ < 1) (o7l := [wj_]; wj_ += 1)); o7l ++ [wj_])", "swv_"),
            ("swv_ := [(for (fj_ <- [1, 2]) yield (o8 := fj_ * 3; o8 + 1)), o8]", "swv_"),
            ("swv_ := [(try (o8 := 5; o8 + @A) catch _e -> \"r\"), o8]", "swv_")])
        # (not planted: `if (c) (o8 := 70; o8) else o8 + 1` -- if-branches share the enclosing scope, which makes it
        # an instance of the known finding about declarations that do not dominate the reads of the outer name)
        decl = decl.replace("@A", r.choice(["1", "2", "7", "[5]", "\"s\"", "0"] + params))
        if "hf2_" in decl:
            decl = "hf2_ := \\v_, f_ -> f_(v_) + 1; " + decl
        body = "(%s; print(%s); %s)" % (decl, nm, body)
    plant = None
    if static is None and not shadow_decl and r.random() < 0.12:
        # o8/o9 are outer variables the generator never mentions, so they cannot be shadowed locally
        plant = r.choice(["unbound", "outer-assign", "import", "underscore", "outer-opassign", "unbound-call",
                          "outer-index-assign", "outer-index-opassign", "outer-key-assign", "unbound-index-assign"])
        bad = {"unbound": "zzq9 + 1", "outer-assign": "o8 = 5", "import": "import \"nolib\"", "underscore": "_",
               "outer-opassign": "o9 += 1", "unbound-call": "nofn9(1)", "outer-index-assign": "o7l[0] = 5",
               "outer-index-opassign": "o7l[1] += 1", "outer-key-assign": "o7d[\"k\"] = 1", "unbound-index-assign": "zzq8[0] = 1"}[plant]
        where = r.random()
        if where < 0.4:
            body = "(%s; %s)" % (bad, body)
        elif where < 0.7:
            body = "(if (0) (%s); %s)" % (bad, body)        # never executed: must still fail at freeze time
        else:
            body = "(%s; (\\zz -> (%s))(1))" % (body, bad)   # inside a nested lambda
    return params, body, plant, static, forlet


def outcome(ev):
    o = ev.get("o")
    out = ev.get("out", "")
    if o == "ok":
        return ("ok", norm(ev.get("v")), out)
    if o == "throw":
        return ("throw", None, out)
    return (o, None, out)


def shard(ctx, si, n):
    sh = core.Shard("C17")
    r = core.rng_for("C17", ctx.seed, si)
    w = core.Worker()
    total = max(1, ctx.plan["lambdas"] // n)
    prelude = ["%s := %s" % (nm, s) for nm, _, s in OUTER] + PLANT_OUTER + USER_OPS + FN_PRELUDE
    try:
        for _ in range(total):
            try:
                params, body, plant, static, forlet = gen_lambda(r, r.randint(15, ctx.plan["size"]))
            except RecursionError:
                continue
            ps = ", ".join(params)
            lam = "\\%s -> %s" % (ps, body)
            # argument tuples are bound to variables BEFORE anything is reassigned (a literal -2 in a
            # later call would itself be evaluated with the swapped `-`)
            argvals = [[r.randint(-2, 6) for _ in params] for _ in range(3)]
            argdecl = ["ar%d := [%s]" % (i, ", ".join(str(v) if v >= 0 else "(0 - %d)" % -v for v in vs)) for i, vs in enumerate(argvals)]
            args = ["...ar%d" % i for i in range(3)]
            mentions = lambda name: (" " + name in body) or ("(" + name in body) or ("[" + name in body)
            re_stmts = [s for (nm, _, _), s in zip(OUTER, REASSIGN) if nm in body]
            if "op1" in body or "op2" in body:
                re_stmts += USER_OPS_REASSIGN
            if "hf(" in body:
                re_stmts += FN_REASSIGN
            if "o7l :=" in body:
                re_stmts.append("o7l = [9, 9]")
            if "o8" in body:
                re_stmts.append("o8 = 50")
            for sw in BUILTIN_SWAPS:
                a, b = sw[5:].split(", ")
                if (" %s " % a in body or " %s " % b in body or a + "(" in body or b + "(" in body) and r.random() < 0.6:
                    re_stmts.append(sw)
                    break
            stmts = ["lam := " + lam, "frz := freeze " + lam] + argdecl
            calls = []
            for a in args:
                calls += ["lam(%s)" % a, "frz(%s)" % a]
            stmts += calls
            i_re = len(stmts)
            stmts += re_stmts
            i_after = len(stmts)
            for a in args:
                stmts += ["frz(%s)" % a, "lam(%s)" % a]
            job = {"id": "c17", "kind": "eval", "prelude": prelude, "stmts": stmts, "fuel": 60000}
            evs = w.run(job)["events"]
            replay = {"job": job}
            if len(evs) < 2 or any(e.get("o") in ("crash", "timeout", "skipped", "lost", "panic") for e in evs[:2]):
                sh.seen(lam, False)
                sh.inconc("c17:" + (evs[-1].get("o") if evs else "none"), lam[:200])
                continue
            if evs[0].get("o") == "parse":
                sh.seen(lam, False)
                sh.violation("C17|generated-lambda-does-not-parse", "%s: %s" % (evs[0].get("err"), lam[:200]), replay)
                continue
            fo = evs[1].get("o")
            if plant:
                sh.seen(lam, True)
                sh.count("planted:" + plant)
                if fo != "throw":
                    sh.violation("C17|freeze-accepted|%s" % plant, "freeze accepted a body with a planted %s: %s" % (plant, lam[:300]), replay)
                continue
            if static is not None:
                # the generator itself produced a non-closed body (use before declaration, assignment to
                # an outer or undeclared name): freeze must refuse it
                sh.seen(lam, True)
                sh.count("static-not-closed:" + static.split(":")[0])
                if fo != "throw":
                    sh.violation("C17|freeze-accepted|generated-%s" % static.split(":")[0],
                                 "freeze accepted a lambda that is not closed (%s): %s" % (static, lam[:300]), replay)
                continue
            if fo != "ok":
                sh.seen(lam, False)
                kind = "for-declare-clause" if forlet and "forlet" in str(forlet) + ("forlet" if forlet is True else "") and "lvalue not bound" in (evs[1].get("err") or "") else construct_kind(evs[1].get("err", ""), body)
                sh.violation("C17|freeze-refused|%s" % kind, "freeze raised on a closed lambda (%s): %s" % ((evs[1].get("err") or "")[:100], lam[:300]), replay)
                continue
            BAD = ("crash", "timeout", "skipped", "lost", "panic", "fuel", "depth")
            # what the unfrozen lambda does AFTER the reassignment is only recorded (it may even spin
            # until the fuel runs out, e.g. when `+=` has become `*=`); everything else must be conclusive
            lam_after = set(range(i_after + 1, len(stmts), 2))
            if len(evs) < len(stmts) or any(e.get("o") in BAD for j, e in enumerate(evs) if j not in lam_after):
                sh.seen(lam, False)
                bad = [e.get("o") for j, e in enumerate(evs) if e.get("o") in BAD and j not in lam_after]
                sh.inconc("c17:" + (bad[0] if bad else "short"), lam[:200])
                continue
            if any(e.get("o") != "ok" for e in evs[i_re:i_after]):
                sh.seen(lam, False)
                sh.inconc("c17:reassign-failed", lam[:200])
                continue
            ok = True
            changed = False
            for k, a in enumerate(args):
                l0, f0 = outcome(evs[5 + 2 * k]), outcome(evs[6 + 2 * k])
                f1, l1 = outcome(evs[i_after + 2 * k]), outcome(evs[i_after + 2 * k + 1])
                if l0 != f0:
                    pattern0 = "local-declaration-of-outer-name-not-dominating-its-reads" if forlet and "shadow" in str(forlet) else diff_kind(l0, f0)
                    sh.violation("C17|frozen-differs|%s" % pattern0,
                                 "frozen and unfrozen disagree on (%s): unfrozen %s, frozen %s; lambda %s" % (a, str(l0)[:120], str(f0)[:120], lam[:300]), replay)
                    ok = False
                    break
                if f1 != f0:
                    pattern = "local-declaration-of-outer-name-not-dominating-its-reads" if forlet and "shadow" in str(forlet) else diff_kind(f0, f1)
                    sh.violation("C17|frozen-changed-after-reassign|%s" % pattern,
                                 "frozen function changed after reassigning outer names (%s): before %s, after %s; lambda %s" % ("; ".join(re_stmts), str(f0)[:120], str(f1)[:120], lam[:300]), replay)
                    ok = False
                    break
                if l1 != l0:
                    changed = True
            sh.seen(lam, changed)
            if ok:
                sh.count("agree:eager-binding-observable" if changed else "agree:reassignment-not-observable")
                sh.count("result:" + outcome(evs[5])[0])
                if changed:
                    sh.sample({"lambda": lam[:300], "args": args[0], "frozen": evs[6].get("v"), "unfrozen_after_reassign": evs[i_after + 1].get("v") or evs[i_after + 1].get("o"),
                               "reassigned": re_stmts}, cap=3)
    finally:
        w.close()
    return sh


def diff_kind(a, b):
    if a[0] != b[0]:
        return "outcome-%s-vs-%s" % (a[0], b[0])
    if a[2] != b[2]:
        return "output"
    return "value"


def construct_kind(err, body):
    if "for (" in body and "lvalue not bound" in err:
        return "for-declare-clause"
    return (err.split(":")[0] or "error")[:40]
