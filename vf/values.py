"""Python-side value model: canonical form <-> Python values <-> Noulith source text."""
import math
import struct
from fractions import Fraction


class Vec(list):
    """Noulith vector (list of numbers)."""
    def __repr__(self):
        return "Vec(%s)" % list.__repr__(self)


class NDict:
    """Noulith dict: insertion irrelevant; keys compared through `ckey`."""
    __slots__ = ("m", "default", "has_default")

    def __init__(self, pairs=(), default=None, has_default=False):
        self.m = {}
        for k, v in pairs:
            self.m[ckey(k)] = (k, v)
        self.default = default
        self.has_default = has_default

    def copy(self):
        d = NDict()
        d.m = dict(self.m)
        d.default = self.default
        d.has_default = self.has_default
        return d

    def __repr__(self):
        return "NDict(%r, def=%r)" % ([kv for kv in self.m.values()], self.default if self.has_default else "-")


class Opaque:
    """A value the model does not interpret (function, stream, instance)."""
    def __init__(self, c):
        self.c = c

    def __repr__(self):
        return "Opaque(%r)" % (self.c,)


class Inst:
    def __init__(self, name, fields):
        self.name = name
        self.fields = fields

    def __repr__(self):
        return "Inst(%s, %r)" % (self.name, self.fields)


# ---------------------------------------------------------------- floats

def f2bits(f):
    return "%016x" % struct.unpack(">Q", struct.pack(">d", f))[0]


def bits2f(h):
    return struct.unpack(">d", struct.pack(">Q", int(h, 16)))[0]


NAN_BITS = "7ff8000000000000"


def norm_fbits(h):
    f = bits2f(h)
    return NAN_BITS if f != f else h


# ---------------------------------------------------------------- canonical form

def norm(c, keep_big=False):
    """Normalise a canonical value from the harness: drop representation flags, NaN payloads,
    informational stream text."""
    if c is None or isinstance(c, (bool, int, float, str)):
        return c
    if isinstance(c, list):
        return [norm(x, keep_big) for x in c]
    if "i" in c:
        return c if keep_big else {"i": c["i"]}
    if "f" in c:
        return {"f": norm_fbits(c["f"])}
    if "c" in c:
        return {"c": [norm_fbits(c["c"][0]), norm_fbits(c["c"][1])]}
    if "l" in c:
        return {"l": [norm(x, keep_big) for x in c["l"]]}
    if "v" in c:
        return {"v": [norm(x, keep_big) for x in c["v"]]}
    if "d" in c:
        items = [[norm(k, keep_big), norm(v, keep_big)] for k, v in c["d"]]
        items.sort(key=lambda kv: _sortkey(kv[0]))
        out = {"d": items}
        if "def" in c:
            out["def"] = norm(c["def"], keep_big)
        return out
    if "st" in c:
        st = c["st"]
        return {"st": {"len": st.get("len"), "head": [norm(x, keep_big) for x in st.get("head", [])],
                       "more": st.get("more", False), "err": st.get("err")}}
    if "inst" in c:
        return {"inst": {"struct": c["inst"]["struct"],
                         "fields": [norm(x, keep_big) for x in c["inst"]["fields"]]}}
    return c


def _sortkey(c):
    import json
    return json.dumps(c, sort_keys=True)


def to_canon(v):
    """Python model value -> normalised canonical form."""
    if v is None:
        return None
    if isinstance(v, bool):
        return {"i": str(int(v))}
    if isinstance(v, int):
        return {"i": str(v)}
    if isinstance(v, Fraction):
        return {"q": [str(v.numerator), str(v.denominator)]}
    if isinstance(v, float):
        return {"f": norm_fbits(f2bits(v))}
    if isinstance(v, complex):
        return {"c": [norm_fbits(f2bits(v.real)), norm_fbits(f2bits(v.imag))]}
    if isinstance(v, str):
        return {"s": v}
    if isinstance(v, (bytes, bytearray)):
        return {"b": bytes(v).hex()}
    if isinstance(v, Vec):
        return {"v": [to_canon(x) for x in v]}
    if isinstance(v, (list, tuple)):
        return {"l": [to_canon(x) for x in v]}
    if isinstance(v, NDict):
        items = [[to_canon(k), to_canon(x)] for k, x in v.m.values()]
        items.sort(key=lambda kv: _sortkey(kv[0]))
        out = {"d": items}
        if v.has_default:
            out["def"] = to_canon(v.default)
        return out
    if isinstance(v, Inst):
        return {"inst": {"struct": v.name, "fields": [to_canon(x) for x in v.fields]}}
    if isinstance(v, Opaque):
        return norm(v.c)
    raise TypeError("to_canon: %r" % (v,))


def from_canon(c):
    """Canonical form -> Python model value."""
    if c is None:
        return None
    if "i" in c:
        return int(c["i"])
    if "q" in c:
        return Fraction(int(c["q"][0]), int(c["q"][1]))
    if "f" in c:
        return bits2f(c["f"])
    if "c" in c:
        return complex(bits2f(c["c"][0]), bits2f(c["c"][1]))
    if "s" in c:
        return c["s"]
    if "b" in c:
        return bytes.fromhex(c["b"])
    if "l" in c:
        return [from_canon(x) for x in c["l"]]
    if "v" in c:
        return Vec(from_canon(x) for x in c["v"])
    if "d" in c:
        d = NDict((from_canon(k), from_canon(v)) for k, v in c["d"])
        if "def" in c:
            d.default = from_canon(c["def"])
            d.has_default = True
        return d
    if "inst" in c:
        return Inst(c["inst"]["struct"], [from_canon(x) for x in c["inst"]["fields"]])
    return Opaque(c)


# ---------------------------------------------------------------- keys (equivalence classes of ==)

def exact(x):
    """Exact value of a real number as Fraction, or a sentinel string for nan/inf."""
    if isinstance(x, bool):
        return Fraction(int(x))
    if isinstance(x, (int, Fraction)):
        return Fraction(x)
    if isinstance(x, float):
        if x != x:
            return "nan"
        if x == math.inf:
            return "+inf"
        if x == -math.inf:
            return "-inf"
        return Fraction(x)
    raise TypeError(x)


def ckey(v):
    """Hashable canonical key: two values get the same ckey iff the property's `==` (with
    NaN == NaN) says they are equal."""
    if v is None:
        return ("null",)
    if isinstance(v, (bool, int, Fraction, float)):
        return ("n", exact(v), 0)
    if isinstance(v, complex):
        re, im = exact(v.real), exact(v.imag)
        if im == 0:
            return ("n", re, 0)
        return ("n", re, im)
    if isinstance(v, str):
        return ("s", v)
    if isinstance(v, (bytes, bytearray)):
        return ("b", bytes(v))
    if isinstance(v, Vec):
        return ("v", tuple(ckey(x) for x in v))
    if isinstance(v, (list, tuple)):
        return ("l", tuple(ckey(x) for x in v))
    if isinstance(v, NDict):
        return ("d", frozenset((k, ckey(x)) for k, (_, x) in v.m.items()))
    raise TypeError("unhashable model value %r" % (v,))


# ---------------------------------------------------------------- source rendering

_ESC = {"\\": "\\\\", "\"": "\\\"", "\n": "\\n", "\r": "\\r", "\t": "\\t", "\0": "\\0"}


def src_str(s):
    out = []
    for ch in s:
        if ch in _ESC:
            out.append(_ESC[ch])
        elif ch == "{" or ch == "}":
            out.append(ch)
        elif ord(ch) < 32 or ord(ch) == 127:
            out.append("\\x%02x" % ord(ch))
        else:
            out.append(ch)
    return '"' + "".join(out) + '"'


def src_float(f):
    if f != f:
        return "(0.0/0.0)"
    if f == math.inf:
        return "(1.0/0.0)"
    if f == -math.inf:
        return "(0.0 - 1.0/0.0)"
    r = repr(abs(f))
    if "e" in r or "E" in r:
        # noulith has exponent literals; make sure there is a mantissa dot-free form it accepts
        m, e = r.lower().split("e")
        if "." not in m:
            m += ".0"
        r = "%se%d" % (m, int(e))
    elif "." not in r:
        r += ".0"
    if math.copysign(1.0, f) < 0:
        return "(-%s)" % r
    return r


def src(v):
    """Noulith source text denoting the model value v."""
    if v is None:
        return "null"
    if isinstance(v, bool):
        return str(int(v))
    if isinstance(v, int):
        return str(v) if v >= 0 else "(-%d)" % (-v)
    if isinstance(v, Fraction):
        if v.denominator == 1:
            return "rational(%s)" % src(v.numerator)
        return "(%s/%d)" % (src(v.numerator), v.denominator)
    if isinstance(v, float):
        return src_float(v)
    if isinstance(v, complex):
        return "(%s + %s * 1i)" % (src_float(v.real), src_float(v.imag))
    if isinstance(v, str):
        return src_str(v)
    if isinstance(v, (bytes, bytearray)):
        return "B[%s]" % ", ".join(str(b) for b in v)
    if isinstance(v, Vec):
        return "V(%s)" % ", ".join(src(x) for x in v)
    if isinstance(v, (list, tuple)):
        return "[%s]" % ", ".join(src(x) for x in v)
    if isinstance(v, NDict):
        body = ", ".join("%s: %s" % (src(k), src(x)) for k, x in v.m.values())
        if v.has_default:
            body = ":" + src(v.default) + (", " + body if body else "")
        return "{%s}" % body
    raise TypeError("src: %r" % (v,))


def deep(v):
    """Deep copy of a model value."""
    if isinstance(v, Vec):
        return Vec(v)
    if isinstance(v, list):
        return [deep(x) for x in v]
    if isinstance(v, NDict):
        d = NDict()
        d.m = {k: (deep(kk), deep(x)) for k, (kk, x) in v.m.items()}
        d.default = deep(v.default)
        d.has_default = v.has_default
        return d
    if isinstance(v, Inst):
        return Inst(v.name, [deep(x) for x in v.fields])
    return v
