"""Driver core: building the harness, talking to nlmon workers, sharding, verdicts, evidence.

Stdlib only.  Every property module (vf/props/cXX.py) exposes

    shard(ctx, shard_index, nshards) -> ShardResult   (runs in a pool process)
    PLAN = {"quick": {...}, "thorough": {...}}          (sizes)

and the generic `run_property` below merges shard results, applies the verdict
discipline of DESIGN.md 2.4 and writes evidence/<ID>.json.
"""
import hashlib
import json
import multiprocessing
import os
import random
import resource
import select
import signal
import subprocess
import sys
import time
import traceback

sys.set_int_max_str_digits(0)

VERIF = os.path.dirname(os.path.dirname(os.path.abspath(__file__)))
HARNESS = os.path.join(VERIF, "harness")
NLMON = os.path.join(HARNESS, "target", "release", "nlmon")
GUARD = "betaveros_noulith_verif"
NPROC = min(16, os.cpu_count() or 4)


# ---------------------------------------------------------------- build

def build(repo="/repo", quiet=True):
    """(Re)build nlmon against the current working tree of `repo`. cargo decides what is stale."""
    tmpl = open(os.path.join(HARNESS, "Cargo.toml.in")).read().replace("@REPO@", repo)
    ct = os.path.join(HARNESS, "Cargo.toml")
    if not os.path.exists(ct) or open(ct).read() != tmpl:
        open(ct, "w").write(tmpl)
    lock_src = os.path.join(repo, "Cargo.lock")
    lock_dst = os.path.join(HARNESS, "Cargo.lock")
    if not os.path.exists(lock_dst):
        # start from the repository's lock file so every shared dependency has the same version
        open(lock_dst, "w").write(open(lock_src).read())
    env = dict(os.environ)
    env["RUSTFLAGS"] = "--cfg " + GUARD
    env["CARGO_NET_OFFLINE"] = "true"
    env.pop("RUSTC_WRAPPER", None)
    t0 = time.time()
    p = subprocess.run(["cargo", "build", "--release", "--offline"], cwd=HARNESS, env=env,
                       stdout=subprocess.PIPE, stderr=subprocess.STDOUT, text=True)
    if p.returncode != 0:
        sys.stdout.write(p.stdout[-6000:])
        raise SystemExit("BUILD-FAILED: nlmon did not build against %s (not a verdict)" % repo)
    if not quiet:
        print("build ok in %.1fs" % (time.time() - t0))
    return time.time() - t0


# ---------------------------------------------------------------- worker

def _cpu_seconds(pid):
    try:
        with open("/proc/%d/stat" % pid) as f:
            parts = f.read().rsplit(")", 1)[1].split()
        return (int(parts[11]) + int(parts[12])) / os.sysconf("SC_CLK_TCK")
    except Exception:
        return None


class Worker:
    """One nlmon process.  run(job) returns {"events": [...], "result": {...}} and survives
    worker deaths: a unit of work that killed the worker gets a synthetic event
    {"o": "crash"|"timeout", ...} and (for fresh_each/parse jobs) the rest is re-submitted."""

    def __init__(self, cpu_budget=20.0, rlimit_as=12 << 30, stack_mb=1024):
        self.cpu_budget = cpu_budget
        self.rlimit_as = rlimit_as
        self.stack_mb = stack_mb
        self.p = None
        self.buf = b""
        self.restarts = 0
        self.start()

    def start(self):
        env = dict(os.environ)
        env["RUST_BACKTRACE"] = "0"
        env["NLMON_STACK_MB"] = str(self.stack_mb)
        lim = self.rlimit_as

        def pre():
            resource.setrlimit(resource.RLIMIT_AS, (lim, lim))
            resource.setrlimit(resource.RLIMIT_CORE, (0, 0))
        self.errpath = "/dev/shm/nlmon-err-%d-%d" % (os.getpid(), id(self))
        self.errf = open(self.errpath, "wb+")
        self.p = subprocess.Popen([NLMON], stdin=subprocess.PIPE, stdout=subprocess.PIPE,
                                  stderr=self.errf, env=env, preexec_fn=pre, bufsize=0)
        self.buf = b""

    def close(self):
        try:
            if self.p and self.p.poll() is None:
                self.p.stdin.close()
                try:
                    self.p.wait(timeout=2)
                except Exception:
                    self.p.kill()
                    self.p.wait()
        finally:
            try:
                self.errf.close()
                os.unlink(self.errpath)
            except Exception:
                pass

    def _stderr_tail(self):
        try:
            self.errf.flush()
            with open(self.errpath, "rb") as f:
                data = f.read()[-2000:]
            self.errf.seek(0)
            self.errf.truncate()
            return data.decode("utf-8", "replace")
        except Exception:
            return ""

    def _readline(self, budget):
        """Return a line (bytes, no newline), or ('dead', None) / ('timeout', None)."""
        cpu0 = None
        while True:
            nl = self.buf.find(b"\n")
            if nl >= 0:
                line, self.buf = self.buf[:nl], self.buf[nl + 1:]
                return line
            r, _, _ = select.select([self.p.stdout], [], [], 0.5)
            if r:
                chunk = os.read(self.p.stdout.fileno(), 1 << 20)
                if not chunk:
                    return ("dead", None)
                self.buf += chunk
                continue
            # idle: check liveness and CPU time used since we started waiting
            if self.p.poll() is not None:
                return ("dead", None)
            cpu = _cpu_seconds(self.p.pid)
            if cpu is None:
                continue
            now = time.time()
            if cpu0 is None:
                cpu0 = cpu
                last_cpu, last_progress = cpu, now
            elif cpu - cpu0 > budget:
                return ("timeout", None)
            elif cpu > last_cpu + 0.01:
                last_cpu, last_progress = cpu, now
            elif now - last_progress > 60:
                # alive, silent and not consuming CPU for a minute: a blocked worker (never a verdict)
                return ("timeout", None)

    def _send(self, job):
        data = (json.dumps(job) + "\n").encode()
        try:
            self.p.stdin.write(data)
            self.p.stdin.flush()
            return True
        except Exception:
            return False

    def run(self, job, cpu_budget=None):
        budget = cpu_budget or self.cpu_budget
        kind = job.get("kind", "eval")
        units_key = {"eval": "stmts", "parse": "srcs"}.get(kind)
        restartable = kind == "parse" or (kind == "eval" and (job.get("fresh_each") or job.get("child_each")))
        events = []
        job = dict(job)
        while True:
            if self.p.poll() is not None:
                self.restarts += 1
                self.start()
            if not self._send(job):
                self.restarts += 1
                self.start()
                if not self._send(job):
                    return {"events": events, "result": {"harness_error": "cannot send"}}
            last_b = None
            n_local = 0
            outcome = None
            while True:
                line = self._readline(budget)
                if isinstance(line, tuple):
                    outcome = line[0]
                    break
                if line.startswith(b"B "):
                    last_b = int(line.rsplit(b" ", 1)[1])
                elif line.startswith(b"E "):
                    ev = json.loads(line[2:])
                    if b'"too_deep"' in line and ev.get("o") == "ok":
                        # the structural dump stopped at its depth bound: the observation is incomplete, which is
                        # an inconclusive case for every monitor, never a value to compare
                        ev = {"o": "skipped", "why": "value nested deeper than the dump bound", "ticks": ev.get("ticks")}
                    events.append(ev)
                    n_local += 1
                elif line.startswith(b"R "):
                    return {"events": events, "result": json.loads(line[2:])}
            # the worker died or was killed for exceeding its CPU budget
            if outcome == "timeout":
                self.p.kill()
                self.p.wait()
                ev = {"o": "timeout", "cpu_budget": budget}
            else:
                self.p.wait()
                rc = self.p.returncode
                tail = self._stderr_tail()
                if "memory allocation of" in tail:
                    why = "alloc"
                elif "overflowed its stack" in tail:
                    why = "stack"
                elif rc is not None and rc < 0 and -rc == signal.SIGKILL:
                    why = "killed"
                else:
                    why = "signal"
                ev = {"o": "crash", "why": why, "rc": rc, "stderr": tail[-400:]}
            self.restarts += 1
            self.start()
            if units_key is None or last_b is None:
                return {"events": events, "result": {"crashed": ev}}
            # events for units < last_b of this submission have been received (n_local of them)
            ev["unit"] = last_b
            while n_local < last_b:      # defensive: should not happen
                events.append({"o": "lost"})
                n_local += 1
            events.append(ev)
            rest = job[units_key][last_b + 1:]
            if not restartable or not rest:
                return {"events": events, "result": {"crashed": ev}}
            job = dict(job)
            job[units_key] = rest
            if "fail_at" in job:
                fa = dict(job["fail_at"])
                fa["stmt"] = fa.get("stmt", 1 << 60) - (last_b + 1)
                job["fail_at"] = fa


# ---------------------------------------------------------------- shard results

class Shard:
    """Accumulator filled by a property's shard function; merged by run_property."""

    def __init__(self, prop):
        self.prop = prop
        self.evaluations = 0
        self.nontrivial = set()      # 64-bit hashes of distinct non-trivial cases
        self.violations = []         # {"key":..., "what":..., "replay": {...}}
        self.inconclusive = []       # {"why":..., "case":...}
        self.counters = {}
        self.samples = []
        self.excluded = 0            # cases outside the explored space by the property's own exclusions
        self.notes = []
        self._per_key = {}

    def count(self, name, n=1):
        self.counters[name] = self.counters.get(name, 0) + n

    def seen(self, case, nontrivial=True):
        self.evaluations += 1
        if nontrivial:
            self.nontrivial.add(h64(case))

    def violation(self, key, what, replay):
        # at most 4 reports per key and shard, so one flooding defect cannot starve the others
        n = self._per_key.get(key, 0)
        self._per_key[key] = n + 1
        if n < 4 and len(self.violations) < 600:
            self.violations.append({"key": key, "what": what, "replay": replay})
        self.count("violations_total")

    def inconc(self, why, case=None):
        self.count("inconclusive:" + why)
        if len(self.inconclusive) < 50:
            self.inconclusive.append({"why": why, "case": case})

    def sample(self, s, cap=4):
        if len(self.samples) < cap:
            self.samples.append(s)

    def dump(self):
        return {"evaluations": self.evaluations, "nontrivial": self.nontrivial,
                "violations": self.violations, "inconclusive": self.inconclusive,
                "counters": self.counters, "samples": self.samples, "excluded": self.excluded,
                "notes": self.notes}


def h64(obj):
    if not isinstance(obj, (str, bytes)):
        obj = json.dumps(obj, sort_keys=True, default=str)
    if isinstance(obj, str):
        obj = obj.encode("utf-8", "surrogatepass")
    return int.from_bytes(hashlib.blake2b(obj, digest_size=8).digest(), "big")


def rng_for(prop, seed, shard, extra=""):
    return random.Random("%s:%s:%s:%s" % (prop, seed, shard, extra))


class Ctx:
    def __init__(self, prop, tier, seed, plan):
        self.prop = prop
        self.tier = tier
        self.seed = seed
        self.plan = plan


def script_mode():
    """True while the current shard runs in the script pipeline (see run_property): every source the
    harness evaluates first goes through the interpreter's static pass `warn`, as the command-line
    interpreter does with a script file.  Modules consult this only to leave out cases whose
    expectation assumes REPL-style late binding of a global that a later statement reassigns."""
    return os.environ.get("NLMON_PIPELINE") == "script"


def _tag_script(d):
    """Violations seen in the script pass: make the replay job reproduce the pipeline."""
    def walk(x):
        if isinstance(x, dict):
            if x.get("kind", "eval") == "eval" and ("stmts" in x or "prelude" in x) and "pipeline" not in x:
                x["pipeline"] = "script"
            for v in x.values():
                walk(v)
        elif isinstance(x, list):
            for v in x:
                walk(v)
    for v in d.get("violations", []):
        v["what"] = "[script pipeline] " + str(v.get("what"))
        walk(v.get("replay"))
    return d


def _run_shard(args):
    modname, ctx, i, n = args[:4]
    pipeline = args[4] if len(args) > 4 else "plain"
    try:
        if pipeline == "script":
            os.environ["NLMON_PIPELINE"] = "script"
        else:
            os.environ.pop("NLMON_PIPELINE", None)
        mod = __import__("vf.props." + modname, fromlist=["shard"])
        sh = mod.shard(ctx, i, n)
        d = sh.dump()
        d["pipeline"] = pipeline
        if pipeline == "script":
            _tag_script(d)
        return d
    except Exception:
        return {"error": traceback.format_exc(), "shard": i}
    finally:
        os.environ.pop("NLMON_PIPELINE", None)


# ---------------------------------------------------------------- known findings

def load_known():
    p = os.path.join(VERIF, "known_findings.json")
    if not os.path.exists(p):
        return []
    return json.load(open(p))


# ---------------------------------------------------------------- property runner

def run_property(prop, modname, tier, seed, level="exploration", min_nontrivial=2,
                 max_inconclusive_frac=0.02, nshards=None, extra_cov=None):
    t0 = time.time()
    mod = __import__("vf.props." + modname, fromlist=["PLAN"])
    plan = mod.PLAN[tier]
    ctx = Ctx(prop, tier, seed, plan)
    n = nshards or plan.get("shards", NPROC)
    # second pass through the script pipeline (the static pass `warn` before evaluation, as the
    # command-line interpreter runs a file): every `script_every`-th shard is run again that way;
    # VERIF_PIPELINE=plain|script|both overrides (both = every shard in both pipelines)
    forced = os.environ.get("VERIF_PIPELINE", "")
    every = plan.get("script_every", getattr(mod, "SCRIPT_EVERY", {}).get(tier, 3 if tier == "quick" else 2))
    tasks = [(modname, ctx, i, n, "plain") for i in range(n)]
    if forced == "script":
        tasks = [(modname, ctx, i, n, "script") for i in range(n)]
    elif forced == "both":
        tasks += [(modname, ctx, i, n, "script") for i in range(n)]
    elif forced != "plain" and every:
        off = seed % every
        tasks += [(modname, ctx, i, n, "script") for i in range(n) if i % every == off]
    if len(tasks) == 1:
        dumps = [_run_shard(tasks[0])]
    else:
        # ProcessPoolExecutor (unlike multiprocessing.Pool) notices a worker process that died
        # (e.g. killed by the OOM killer) instead of waiting for its result forever
        import concurrent.futures
        try:
            with concurrent.futures.ProcessPoolExecutor(max_workers=min(n, NPROC)) as pool:
                dumps = list(pool.map(_run_shard, tasks, chunksize=1))
        except concurrent.futures.process.BrokenProcessPool as e:
            print("HARNESS-ERROR property=%s a driver process died (%s); not a verdict" % (prop, e))
            return 2
    errors = [d for d in dumps if "error" in d]
    if errors:
        print("HARNESS-ERROR property=%s shard=%s\n%s" % (prop, errors[0]["shard"], errors[0]["error"]))
        return 2
    evaluations = sum(d["evaluations"] for d in dumps)
    nontrivial = set()
    counters = {}
    violations, inconclusive, samples, notes = [], [], [], []
    by_pipeline = {}
    for d in dumps:
        bp = by_pipeline.setdefault(d.get("pipeline", "plain"), {"shards": 0, "evaluations": 0, "violations": 0})
        bp["shards"] += 1
        bp["evaluations"] += d["evaluations"]
        bp["violations"] += len(d["violations"])
        nontrivial |= d["nontrivial"]
        violations += d["violations"]
        inconclusive += d["inconclusive"]
        for k, v in d["counters"].items():
            counters[k] = counters.get(k, 0) + v
        for s in d["samples"]:
            if len(samples) < 5:
                samples.append(s)
        notes += d["notes"]
    n_inconc = sum(v for k, v in counters.items() if k.startswith("inconclusive:"))

    known = [k for k in load_known() if k.get("property") == prop and k.get("status") == "known"]
    known_keys = {k["key"]: k for k in known}
    by_key = {}
    for v in violations:
        by_key.setdefault(v["key"], []).append(v)
    new_keys = [k for k in by_key if k not in known_keys]
    seen_known = [k for k in by_key if k in known_keys]

    os.makedirs(os.path.join(VERIF, "replays", prop), exist_ok=True)
    exit_code = 0
    for k in sorted(seen_known):
        print("KNOWN-FINDING: property=%s %s" % (prop, known_keys[k].get("what", k)))
    shown = 0
    for k in sorted(new_keys):
        v = by_key[k][0]
        path = os.path.join(VERIF, "replays", prop, "%016x.json" % h64(k))
        json.dump({"property": prop, "key": k, "what": v["what"], "replay": v["replay"],
                   "seed": seed, "tier": tier, "occurrences": len(by_key[k])},
                  open(path, "w"), indent=1, default=str)
        if shown < 40:
            print("VIOLATION property=%s replay=%s  # %s" % (prop, path, str(v["what"])[:200]))
        shown += 1
        exit_code = 1
    if shown > 40:
        print("... %d more distinct violations (replay files written)" % (shown - 40))

    wall = time.time() - t0
    cov = {
        "evaluations": evaluations,
        "distinct_nontrivial": len(nontrivial),
        "rule": getattr(mod, "RULE", ""),
        "samples": samples,
        "counters": dict(sorted(counters.items())),
        "inconclusive": n_inconc,
        "inconclusive_examples": inconclusive[:8],
        "known_findings_seen": sorted(seen_known),
        "new_violation_keys": sorted(new_keys)[:50],
        "shards": n,
        "pipelines": by_pipeline,
    }
    if notes:
        cov["notes"] = notes[:10]
    if getattr(mod, "EXHAUSTIVE", {}).get(tier):
        cov["exhaustive"] = True
    if level == "translation_validation":
        cov["programs"] = evaluations
        cov["disagreements_checked"] = counters.get("violations_total", 0)
    if extra_cov:
        cov.update(extra_cov)
    ev = {
        "property_id": prop, "tier": tier, "seed": seed, "level": level, "coverage": cov,
        "assumptions": getattr(mod, "ASSUMPTIONS", []),
        "wall_s": round(wall, 2), "violations": len(new_keys),
    }
    os.makedirs(os.path.join(VERIF, "evidence"), exist_ok=True)
    json.dump(ev, open(os.path.join(VERIF, "evidence", prop + ".json"), "w"), indent=1, default=str)

    denom = max(1, evaluations)
    if exit_code == 0:
        if len(nontrivial) < max(2, min_nontrivial):
            print("INCONCLUSIVE property=%s too few distinct non-trivial cases observed: %d < %d"
                  % (prop, len(nontrivial), min_nontrivial))
            exit_code = 3
        elif n_inconc / denom > max_inconclusive_frac:
            print("INCONCLUSIVE property=%s %d of %d cases inconclusive (%s)" % (
                prop, n_inconc, evaluations,
                {k: v for k, v in counters.items() if k.startswith("inconclusive:")}))
            exit_code = 3
    print("%s %s seed=%d: %d cases, %d distinct non-trivial, %d inconclusive, %d known, %d new violations, %.1fs"
          % (prop, tier, seed, evaluations, len(nontrivial), n_inconc, len(seen_known), len(new_keys), wall))
    return exit_code


# ---------------------------------------------------------------- helpers for property modules

def eval_all(worker, stmts, prelude=(), fresh_each=False, fuel=1_000_000, jid="j", **opts):
    """Evaluate statements; returns exactly one event per statement.  In a shared-env history a
    panic ends the job in the harness (the env is discarded); the rest is re-submitted after
    re-running the prelude, so callers that use this for independent expressions get every
    result.  Statements lost behind a non-restartable crash get {"o": "skipped"}."""
    out = []
    rest = list(stmts)
    while rest:
        job = {"id": jid, "kind": "eval", "prelude": list(prelude), "stmts": rest,
               "fresh_each": fresh_each, "fuel": fuel}
        job.update(opts)
        r = worker.run(job)
        evs = r["events"]
        out.extend(evs)
        if len(evs) >= len(rest):
            break
        if not evs:
            out.append({"o": "skipped"})
            rest = rest[1:]
        else:
            rest = rest[len(evs):]
    return out[:len(stmts)]


def global_names(worker):
    """List of {"name","kind","prec","assoc"} of the interpreter's global environment (retried: the very
    first request to a freshly started worker can be lost if the worker is still being restarted)."""
    for _ in range(4):
        r = worker.run({"id": "n", "kind": "names"})
        names = (r.get("result") or {}).get("names")
        if names:
            return names
    raise RuntimeError("harness did not answer the names request")
