"""Maintain known_findings.json by hand (never used at check run time).
   python3 -m vf.kf fixed PROP COMMIT WHAT
   python3 -m vf.kf known PROP KEY WHAT REPRO"""
import json
import os
import sys

P = os.path.join(os.path.dirname(os.path.dirname(os.path.abspath(__file__))), "known_findings.json")


def main():
    k = json.load(open(P)) if os.path.exists(P) else []
    a = sys.argv[1:]
    if a[0] == "fixed":
        _, prop, commit, what = a
        k.append({"status": "fixed", "property": prop, "commit": commit, "what": what,
                  "line": "fixed: property=%s %s %s" % (prop, commit, what)})
    elif a[0] == "known":
        _, prop, key, what, repro = a
        k = [e for e in k if not (e.get("status") == "known" and e.get("key") == key and e.get("property") == prop)]
        k.append({"status": "known", "property": prop, "key": key, "what": what, "repro": repro})
    json.dump(k, open(P, "w"), indent=1, ensure_ascii=False)
    print(len(k), "entries")


if __name__ == "__main__":
    main()
