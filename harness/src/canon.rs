// Canonical, structural serialisation of interpreter values (never through Display,
// except for functions and the informational "shown" text of streams).
use noulith::nnum::NNum;
use noulith::{Assoc, Obj, Rc, Seq};
use serde_json::{json, Value};

const MAX_DEPTH: usize = 256;
const STREAM_HEAD: usize = 64;

fn hex(b: &[u8]) -> String {
    let mut s = String::with_capacity(b.len() * 2);
    for x in b {
        s.push_str(&format!("{:02x}", x));
    }
    s
}

pub fn canon_num(n: &NNum) -> Value {
    match n {
        NNum::Int(i) => {
            // NInt lives in a private module: use its Debug text for the representation flag
            // and its Display text for the value.
            let dbg = format!("{:?}", i);
            let big = if dbg.starts_with("Small") { 0 } else { 1 };
            json!({"i": format!("{}", i), "big": big})
        }
        NNum::Rational(r) => json!({"q": [r.numer().to_string(), r.denom().to_string()]}),
        NNum::Float(f) => json!({"f": format!("{:016x}", f.to_bits())}),
        NNum::Complex(c) => {
            json!({"c": [format!("{:016x}", c.re.to_bits()), format!("{:016x}", c.im.to_bits())]})
        }
    }
}

pub fn canon(o: &Obj, depth: usize) -> Value {
    if depth > MAX_DEPTH {
        return json!({"too_deep": true});
    }
    match o {
        Obj::Null => Value::Null,
        Obj::Num(n) => canon_num(n),
        Obj::Seq(s) => match s {
            Seq::String(s) => json!({"s": &***s}),
            Seq::Bytes(b) => json!({"b": hex(b)}),
            Seq::List(l) => {
                json!({"l": l.iter().map(|x| canon(x, depth + 1)).collect::<Vec<_>>()})
            }
            Seq::Vector(v) => json!({"v": v.iter().map(canon_num).collect::<Vec<_>>()}),
            Seq::Dict(d, def) => {
                let mut items: Vec<(String, Value, Value)> = d
                    .iter()
                    .map(|(k, v)| {
                        let ko = noulith::key_to_obj(k.clone());
                        let kc = canon(&ko, depth + 1);
                        (kc.to_string(), kc, canon(v, depth + 1))
                    })
                    .collect();
                items.sort_by(|a, b| a.0.cmp(&b.0));
                let arr: Vec<Value> = items.into_iter().map(|(_, k, v)| json!([k, v])).collect();
                match def {
                    Some(d) => json!({"d": arr, "def": canon(d, depth + 1)}),
                    None => json!({"d": arr}),
                }
            }
            Seq::Stream(st) => {
                let shown = format!("{}", st);
                let len = match st.len() {
                    Some(n) => json!(n),
                    None => Value::Null,
                };
                let mut it = st.clone_box();
                let mut head = Vec::new();
                let mut more = false;
                let mut err = Value::Null;
                loop {
                    if head.len() >= STREAM_HEAD {
                        more = it.next().is_some();
                        break;
                    }
                    match it.next() {
                        None => break,
                        Some(Ok(x)) => head.push(canon(&x, depth + 1)),
                        Some(Err(e)) => {
                            err = json!(format!("{}", e));
                            break;
                        }
                    }
                }
                json!({"st": {"shown": shown, "len": len, "head": head, "more": more, "err": err}})
            }
        },
        Obj::Func(f, p) => {
            let assoc = match p.1 {
                Assoc::Left => "L",
                Assoc::Right => "R",
            };
            json!({"fn": format!("{}", f), "prec": format!("{}", p.0), "assoc": assoc})
        }
        Obj::Instance(s, fields) => {
            json!({"inst": {"struct": &**s.name,
                   "fields": fields.iter().map(|x| canon(x, depth + 1)).collect::<Vec<_>>()}})
        }
    }
}

// Physical sharing of container nodes reachable from a variable: [depth, kind, ptr, strong].
pub fn sharing(o: &Obj, depth: usize, acc: &mut Vec<Value>) {
    if depth > 3 {
        return;
    }
    if let Obj::Seq(s) = o {
        match s {
            Seq::List(l) => {
                acc.push(json!([depth, "l", Rc::as_ptr(l) as usize, Rc::strong_count(l)]));
                for x in l.iter() {
                    sharing(x, depth + 1, acc);
                }
            }
            Seq::Dict(d, _) => {
                acc.push(json!([depth, "d", Rc::as_ptr(d) as usize, Rc::strong_count(d)]));
                for x in d.values() {
                    sharing(x, depth + 1, acc);
                }
            }
            Seq::String(x) => {
                acc.push(json!([depth, "s", Rc::as_ptr(x) as usize, Rc::strong_count(x)]))
            }
            Seq::Vector(x) => {
                acc.push(json!([depth, "v", Rc::as_ptr(x) as usize, Rc::strong_count(x)]))
            }
            Seq::Bytes(x) => {
                acc.push(json!([depth, "b", Rc::as_ptr(x) as usize, Rc::strong_count(x)]))
            }
            Seq::Stream(_) => {}
        }
    } else if let Obj::Instance(_, fields) = o {
        for x in fields.iter() {
            sharing(x, depth + 1, acc);
        }
    }
}
