// nlmon: monitoring harness for betaveros/noulith.
//
// Reads one JSON job per line on stdin, runs it against the real interpreter
// (linked from the repository's current working tree, built with
// --cfg betaveros_noulith_verif) and writes one JSON result per line on stdout.
// The harness records; the oracles live in the Python driver (vf/).
//
// Protocol:
//   stdout  "B <jobid> <index>\n"   write-ahead record before every unit of work
//           "E <json>\n"            one event (statement result) of the current eval job
//           "R <json>\n"            end of a job (summary / result)
//   A worker that dies leaves the last "B" line as attribution.

use noulith::{
    cell_borrow, evaluate, freeze, initialize, parse, to_key, verif_hooks, Env, FreezeEnv, Func,
    NErr, Obj, Rc, RefCell, TopEnv, WriteMaybeExtractable,
};
use serde_json::{json, Map, Value};
use std::alloc::{GlobalAlloc, Layout, System};
use std::cell::RefCell as StdRefCell;
use std::collections::{HashMap, HashSet};
use std::hash::{Hash, Hasher};
use std::io::{self, BufRead, Write};
use std::panic::{self, AssertUnwindSafe};
use std::sync::atomic::{AtomicBool, AtomicUsize, Ordering};

mod canon;
use canon::canon;

// ---------------------------------------------------------------- allocator

struct Counting;
static BYTES: AtomicUsize = AtomicUsize::new(0); // total bytes requested
static COUNT: AtomicUsize = AtomicUsize::new(0); // number of requests
static BIG: AtomicUsize = AtomicUsize::new(0); // requests >= BIG_THRESHOLD
static BIG_BYTES: AtomicUsize = AtomicUsize::new(0);
static BIG_THRESHOLD: AtomicUsize = AtomicUsize::new(usize::MAX);
static LIVE: AtomicUsize = AtomicUsize::new(0);
static PEAK: AtomicUsize = AtomicUsize::new(0);
static BUDGET: AtomicUsize = AtomicUsize::new(usize::MAX);
static OVER_BUDGET: AtomicBool = AtomicBool::new(false);

impl Counting {
    #[inline]
    fn note(size: usize) -> bool {
        let live = LIVE.fetch_add(size, Ordering::Relaxed) + size;
        if live > BUDGET.load(Ordering::Relaxed) {
            LIVE.fetch_sub(size, Ordering::Relaxed);
            OVER_BUDGET.store(true, Ordering::Relaxed);
            return false;
        }
        if live > PEAK.load(Ordering::Relaxed) {
            PEAK.store(live, Ordering::Relaxed);
        }
        BYTES.fetch_add(size, Ordering::Relaxed);
        COUNT.fetch_add(1, Ordering::Relaxed);
        if size >= BIG_THRESHOLD.load(Ordering::Relaxed) {
            BIG.fetch_add(1, Ordering::Relaxed);
            BIG_BYTES.fetch_add(size, Ordering::Relaxed);
        }
        true
    }
}

unsafe impl GlobalAlloc for Counting {
    unsafe fn alloc(&self, l: Layout) -> *mut u8 {
        if !Counting::note(l.size()) {
            return std::ptr::null_mut();
        }
        System.alloc(l)
    }
    unsafe fn alloc_zeroed(&self, l: Layout) -> *mut u8 {
        if !Counting::note(l.size()) {
            return std::ptr::null_mut();
        }
        System.alloc_zeroed(l)
    }
    unsafe fn dealloc(&self, p: *mut u8, l: Layout) {
        LIVE.fetch_sub(l.size(), Ordering::Relaxed);
        System.dealloc(p, l)
    }
    unsafe fn realloc(&self, p: *mut u8, l: Layout, new_size: usize) -> *mut u8 {
        // a realloc that grows counts as a request of the new size (it may copy)
        if new_size > l.size() {
            if !Counting::note(new_size) {
                return std::ptr::null_mut();
            }
            LIVE.fetch_sub(l.size(), Ordering::Relaxed);
        } else {
            LIVE.fetch_sub(l.size() - new_size, Ordering::Relaxed);
        }
        System.realloc(p, l, new_size)
    }
}

#[global_allocator]
static GLOBAL: Counting = Counting;

#[derive(Clone, Copy)]
struct AllocSnap {
    bytes: usize,
    count: usize,
    big: usize,
    big_bytes: usize,
}
fn alloc_snap() -> AllocSnap {
    AllocSnap {
        bytes: BYTES.load(Ordering::Relaxed),
        count: COUNT.load(Ordering::Relaxed),
        big: BIG.load(Ordering::Relaxed),
        big_bytes: BIG_BYTES.load(Ordering::Relaxed),
    }
}
fn alloc_delta(a: AllocSnap, b: AllocSnap) -> Value {
    json!({"bytes": b.bytes - a.bytes, "count": b.count - a.count, "big": b.big - a.big,
           "big_bytes": b.big_bytes - a.big_bytes})
}

// ---------------------------------------------------------------- panic capture

thread_local! {
    static LAST_PANIC: StdRefCell<Option<(String, String, String)>> = StdRefCell::new(None);
    static FRAME_CACHE: StdRefCell<HashMap<String, String>> = StdRefCell::new(HashMap::new());
}

fn first_noulith_frame() -> String {
    let bt = std::backtrace::Backtrace::force_capture().to_string();
    for line in bt.lines() {
        let t = line.trim();
        // lines look like "12: noulith::eval::evaluate" or "7: <noulith::nint::NInt as ...>::rem"
        if t.contains("noulith::") && !t.starts_with("at ") {
            let sym = match t.find(": ") {
                Some(p) => &t[p + 2..],
                None => t,
            };
            return sym.replace("::{{closure}}", "").to_string();
        }
    }
    String::new()
}

fn install_panic_hook() {
    panic::set_hook(Box::new(|info| {
        // the hook allocates (message, backtrace symbolisation): suspend the per-job allocation
        // budget here, otherwise an allocation failure inside the hook deadlocks on the backtrace lock
        let saved_budget = BUDGET.swap(usize::MAX, Ordering::Relaxed);
        let msg = if let Some(s) = info.payload().downcast_ref::<&str>() {
            s.to_string()
        } else if let Some(s) = info.payload().downcast_ref::<String>() {
            s.clone()
        } else {
            "<non-string panic payload>".to_string()
        };
        let loc = info
            .location()
            .map(|l| format!("{}:{}", l.file(), l.line()))
            .unwrap_or_default();
        let key = format!("{}|{}", msg, loc);
        let frame = FRAME_CACHE.with(|c| {
            let mut c = c.borrow_mut();
            if let Some(f) = c.get(&key) {
                return f.clone();
            }
            let f = first_noulith_frame();
            c.insert(key, f.clone());
            f
        });
        LAST_PANIC.with(|p| *p.borrow_mut() = Some((msg, loc, frame)));
        BUDGET.store(saved_budget, Ordering::Relaxed);
    }));
}

// ---------------------------------------------------------------- output capture

#[derive(Clone)]
struct OutBuf(std::sync::Arc<std::sync::Mutex<Vec<u8>>>);
impl Write for OutBuf {
    fn write(&mut self, buf: &[u8]) -> io::Result<usize> {
        let mut g = self.0.lock().unwrap();
        if g.len() + buf.len() > (1 << 22) {
            return Err(io::Error::new(io::ErrorKind::Other, "verif: output limit"));
        }
        g.extend_from_slice(buf);
        Ok(buf.len())
    }
    fn flush(&mut self) -> io::Result<()> {
        Ok(())
    }
}
impl WriteMaybeExtractable for OutBuf {}
impl OutBuf {
    fn take(&self) -> Vec<u8> {
        std::mem::take(&mut *self.0.lock().unwrap())
    }
}

fn bytes_to_value(b: &[u8]) -> Value {
    match std::str::from_utf8(b) {
        Ok(s) => Value::String(s.to_string()),
        Err(_) => json!({"hex": b.iter().map(|x| format!("{:02x}", x)).collect::<String>()}),
    }
}

// ---------------------------------------------------------------- environment

type REnv = Rc<RefCell<Env>>;

fn fresh_env(out: &OutBuf) -> REnv {
    let mut env = Env::new(
        TopEnv {
            backrefs: Vec::new(),
            input: Box::new(io::empty()),
            output: Box::new(out.clone()),
        },
        false,
    );
    initialize(&mut env);
    Rc::new(RefCell::new(env))
}

struct Limits {
    fuel: u64,
    max_depth: usize,
}

const CANON_FUEL: u64 = 200_000;

// outcome of running one source string
struct Outcome {
    o: &'static str,
    v: Value,
    err: Option<String>,
    thrown: Option<Value>,
    panic: Option<Value>,
    ticks: u64,
    peak_depth: usize,
    injected: bool,
}

// Script pipeline: the command-line interpreter does not evaluate what `parse` returns; it first
// runs the static pass `warn` (= `freeze` with `warn: true`) over the whole script, which resolves
// every free variable that is not declared by the script itself to its current value and folds
// some constants, and evaluates the result.  With `pipeline: "script"` (job field, or environment
// variable NLMON_PIPELINE=script) every source of a job goes through the same pass, with one
// set of bound names carried from statement to statement exactly as the pass carries it through a
// sequence of statements.
static SCRIPT_MODE: AtomicBool = AtomicBool::new(false);

fn run_src(env: &REnv, src: &str, lim: &Limits, fail_at: u64, want_value: bool) -> Outcome {
    run_src_b(env, src, lim, fail_at, want_value, None)
}

fn run_src_b(
    env: &REnv,
    src: &str,
    lim: &Limits,
    fail_at: u64,
    want_value: bool,
    bound: Option<&mut HashSet<String>>,
) -> Outcome {
    let mut oc = Outcome {
        o: "ok",
        v: Value::Null,
        err: None,
        thrown: None,
        panic: None,
        ticks: 0,
        peak_depth: 0,
        injected: false,
    };
    LAST_PANIC.with(|p| *p.borrow_mut() = None);
    let parsed = panic::catch_unwind(AssertUnwindSafe(|| parse(src)));
    let expr = match parsed {
        Err(_) => {
            oc.o = "panic";
            oc.panic = Some(take_panic("parse"));
            return oc;
        }
        Ok(Err(e)) => {
            oc.o = "parse";
            oc.err = Some(e.0.clone());
            return oc;
        }
        Ok(Ok(None)) => {
            oc.o = "empty";
            return oc;
        }
        Ok(Ok(Some(e))) => e,
    };
    let expr = match bound {
        Some(b) if SCRIPT_MODE.load(Ordering::Relaxed) => {
            let mut frenv = FreezeEnv {
                bound: std::mem::take(b),
                env: Rc::clone(env),
                warn: true,
            };
            verif_hooks::reset(lim.fuel, lim.max_depth, 0);
            let fr = panic::catch_unwind(AssertUnwindSafe(|| freeze(&mut frenv, &expr)));
            *b = frenv.bound;
            match fr {
                Err(_) => {
                    oc.o = "panic";
                    oc.panic = Some(take_panic("warn"));
                    return oc;
                }
                // main.rs: panic!("ERROR: expr warn failed: {}")
                Ok(Err(e)) => {
                    oc.o = "panic";
                    oc.panic = Some(json!({"msg": limit(format!("expr warn failed: {}", e)), "loc": "src/lib.rs:warn", "phase": "warn"}));
                    return oc;
                }
                Ok(Ok(e2)) => e2,
            }
        }
        _ => expr,
    };
    verif_hooks::reset(lim.fuel, lim.max_depth, fail_at);
    let res = panic::catch_unwind(AssertUnwindSafe(|| evaluate(env, &expr)));
    let st = verif_hooks::status();
    oc.ticks = st.ticks;
    oc.peak_depth = st.peak_depth;
    oc.injected = st.injected;
    match res {
        Err(_) => {
            oc.o = "panic";
            oc.panic = Some(take_panic("evaluate"));
        }
        Ok(r) => {
            if st.out_of_fuel {
                oc.o = "fuel";
            } else if st.too_deep {
                oc.o = "depth";
            } else {
                match r {
                    Ok(v) => {
                        if want_value || touch() {
                            let c = safe_canon(&v);
                            if want_value {
                                oc.v = c;
                            }
                        }
                    }
                    Err(NErr::Throw(v, _trace)) => {
                        oc.o = "throw";
                        oc.thrown = Some(safe_canon(&v));
                        oc.err = Some(limit(format!("{}", v)));
                    }
                    Err(NErr::Break(n, v)) => {
                        oc.o = "break";
                        oc.err = Some(format!("break^{}", n + 1));
                        if let Some(v) = v {
                            oc.thrown = Some(safe_canon(&v));
                        }
                    }
                    Err(NErr::Continue(n)) => {
                        oc.o = "continue";
                        oc.err = Some(format!("continue^{}", n + 1));
                    }
                    Err(NErr::Return(v)) => {
                        oc.o = "return";
                        oc.thrown = Some(safe_canon(&v));
                    }
                }
            }
        }
    }
    oc
}

static TOUCH: AtomicBool = AtomicBool::new(false);
fn touch() -> bool {
    TOUCH.load(Ordering::Relaxed)
}

fn limit(mut s: String) -> String {
    if s.len() > 300 {
        let mut cut = 300;
        while !s.is_char_boundary(cut) {
            cut -= 1;
        }
        s.truncate(cut);
        s.push('…');
    }
    s
}

fn take_panic(phase: &str) -> Value {
    let p = LAST_PANIC.with(|p| p.borrow_mut().take());
    match p {
        Some((msg, loc, frame)) => {
            json!({"msg": limit(msg), "loc": loc, "fn": frame, "phase": phase})
        }
        None => json!({"msg": "<unknown>", "loc": "", "fn": "", "phase": phase}),
    }
}

// Canonicalisation may iterate streams (which may call user code); run it under its own
// fuel and inside catch_unwind so that it cannot hang or kill the worker.
thread_local! {
    static CANON_TROUBLE: StdRefCell<Option<Value>> = StdRefCell::new(None);
}

fn safe_canon(v: &Obj) -> Value {
    verif_hooks::reset(CANON_FUEL, 2000, 0);
    let r = panic::catch_unwind(AssertUnwindSafe(|| canon(v, 0)));
    let st = verif_hooks::status();
    match r {
        Ok(v) => {
            if st.out_of_fuel || st.too_deep {
                CANON_TROUBLE.with(|c| *c.borrow_mut() = Some(json!({"fuel": true})));
            }
            v
        }
        Err(_) => {
            let p = take_panic("canon");
            CANON_TROUBLE.with(|c| *c.borrow_mut() = Some(json!({"panic": p.clone()})));
            json!({"canon_panic": p})
        }
    }
}

fn outcome_to_map(oc: Outcome, m: &mut Map<String, Value>) {
    m.insert("o".into(), Value::String(oc.o.into()));
    if !oc.v.is_null() {
        m.insert("v".into(), oc.v);
    }
    if let Some(e) = oc.err {
        m.insert("err".into(), Value::String(e));
    }
    if let Some(t) = oc.thrown {
        m.insert("thrown".into(), t);
    }
    if let Some(p) = oc.panic {
        m.insert("panic".into(), p);
    }
    m.insert("ticks".into(), json!(oc.ticks));
    if oc.injected {
        m.insert("inj".into(), json!(true));
    }
    m.insert("pd".into(), json!(oc.peak_depth));
}

fn lookup_cell<T>(env: &REnv, name: &str, f: &mut dyn FnMut(Option<&Obj>, bool) -> T) -> T {
    // walk the scope chain; f(Some(obj), _) when found and borrowable, f(None, true) when the
    // variable exists but is mutably borrowed, f(None, false) when absent
    let mut cur = env.clone();
    loop {
        let next = {
            let e = cell_borrow(&cur);
            if let Some((_ty, cell)) = e.vars.get(name) {
                return match cell.try_borrow() {
                    Ok(o) => f(Some(&o), false),
                    Err(_) => f(None, true),
                };
            }
            match &e.parent {
                Ok(p) => p.clone(),
                Err(_) => return f(None, false),
            }
        };
        cur = next;
    }
}

fn observe_vars(env: &REnv, names: &[String], share: bool, values: bool) -> (Value, Value) {
    let mut vars = Map::new();
    let mut sh = Map::new();
    for name in names {
        let mut shv: Option<Value> = None;
        let (state, val) = lookup_cell(env, name, &mut |o, borrowed| match o {
            Some(o) => {
                if share {
                    let mut acc = Vec::new();
                    canon::sharing(o, 0, &mut acc);
                    shv = Some(Value::Array(acc));
                }
                (2, Some(o.clone()))
            }
            None => (if borrowed { 1 } else { 0 }, None),
        });
        if let Some(x) = shv {
            sh.insert(name.clone(), x);
        }
        let v = match state {
            0 => json!({"absent": true}),
            1 => json!({"borrowed": true}),
            _ if !values => json!({"present": true}),
            _ => safe_canon(val.as_ref().unwrap()),
        };
        vars.insert(name.clone(), v);
    }
    (Value::Object(vars), Value::Object(sh))
}

fn wa(out: &mut impl Write, id: &str, idx: usize) {
    let _ = writeln!(out, "B {} {}", id, idx);
    let _ = out.flush();
}

fn str_list(v: Option<&Value>) -> Vec<String> {
    v.and_then(|x| x.as_array())
        .map(|a| {
            a.iter()
                .filter_map(|s| s.as_str().map(|s| s.to_string()))
                .collect()
        })
        .unwrap_or_default()
}

// ---------------------------------------------------------------- job kinds

fn job_eval(job: &Value, id: &str, w: &mut impl Write) -> Value {
    let prelude = str_list(job.get("prelude"));
    let stmts = str_list(job.get("stmts"));
    let observe = str_list(job.get("observe"));
    let probes = str_list(job.get("probe"));
    let fresh_each = job.get("fresh_each").and_then(|v| v.as_bool()).unwrap_or(false);
    // child_each: the prelude runs once in a base environment and every statement runs in a new
    // child scope of it (cheap isolation for sweeps); the base is rebuilt every `rebase_every`
    // statements and after every panic.
    let child_each = job.get("child_each").and_then(|v| v.as_bool()).unwrap_or(false);
    let rebase_every = job.get("rebase_every").and_then(|v| v.as_u64()).unwrap_or(64) as usize;
    let share = job.get("share").and_then(|v| v.as_bool()).unwrap_or(false);
    // observe_values=false: report only presence (and sharing info) of the observed variables
    let observe_values = job.get("observe_values").and_then(|v| v.as_bool()).unwrap_or(true);
    let want_alloc = job.get("alloc").and_then(|v| v.as_bool()).unwrap_or(false);
    let want_value = job.get("values").and_then(|v| v.as_bool()).unwrap_or(true);
    // touch: canonicalise results (iterating the head of lazy streams) even when values are not sent
    TOUCH.store(job.get("touch").and_then(|v| v.as_bool()).unwrap_or(false), Ordering::Relaxed);
    let lim = Limits {
        fuel: job.get("fuel").and_then(|v| v.as_u64()).unwrap_or(1_000_000),
        max_depth: job.get("max_depth").and_then(|v| v.as_u64()).unwrap_or(3000) as usize,
    };
    // fail_at: {"stmt": k, "n": n}  (inject at the n-th tick of statement k)
    let (fail_stmt, fail_n) = match job.get("fail_at") {
        Some(f) => (
            f.get("stmt").and_then(|v| v.as_u64()).unwrap_or(u64::MAX) as usize,
            f.get("n").and_then(|v| v.as_u64()).unwrap_or(0),
        ),
        None => (usize::MAX, 0),
    };
    let big = job.get("big_threshold").and_then(|v| v.as_u64()).unwrap_or(u64::MAX);
    BIG_THRESHOLD.store(big.min(usize::MAX as u64) as usize, Ordering::Relaxed);

    let out = OutBuf(Default::default());
    let mut n_events = 0usize;
    let mut prelude_err = Value::Null;

    match job.get("pipeline").and_then(|v| v.as_str()) {
        Some("script") => SCRIPT_MODE.store(true, Ordering::Relaxed),
        Some(_) => SCRIPT_MODE.store(false, Ordering::Relaxed),
        None => SCRIPT_MODE.store(
            std::env::var("NLMON_PIPELINE").map(|v| v == "script").unwrap_or(false),
            Ordering::Relaxed,
        ),
    }
    let setup = |out: &OutBuf, perr: &mut Value| -> (REnv, HashSet<String>) {
        let env = fresh_env(out);
        let mut bound = HashSet::new();
        for p in &prelude {
            let oc = run_src_b(&env, p, &lim, 0, false, Some(&mut bound));
            if oc.o != "ok" && oc.o != "empty" {
                *perr = json!({"src": p, "o": oc.o, "err": oc.err, "panic": oc.panic});
            }
        }
        out.take();
        (env, bound)
    };

    let (mut env, mut bound) = setup(&out, &mut prelude_err);
    let mut base = env.clone();
    let mut base_bound = bound.clone();
    let mut need_rebase = false;
    for (i, s) in stmts.iter().enumerate() {
        wa(w, id, i);
        if fresh_each && !child_each && i > 0 {
            (env, bound) = setup(&out, &mut prelude_err);
        }
        if child_each {
            if need_rebase || (i > 0 && i % rebase_every == 0) {
                (base, base_bound) = setup(&out, &mut prelude_err);
                need_rebase = false;
            }
            env = Env::with_parent(&base);
            bound = base_bound.clone();
        }
        CANON_TROUBLE.with(|c| *c.borrow_mut() = None);
        let a0 = alloc_snap();
        let oc = run_src_b(&env, s, &lim, if i == fail_stmt { fail_n } else { 0 }, want_value, Some(&mut bound));
        let a1 = alloc_snap();
        let panicked = oc.o == "panic";
        let mut m = Map::new();
        outcome_to_map(oc, &mut m);
        let o = out.take();
        if !o.is_empty() {
            m.insert("out".into(), bytes_to_value(&o));
        }
        if let Some(t) = CANON_TROUBLE.with(|c| c.borrow_mut().take()) {
            m.insert("canon_trouble".into(), t);
        }
        if want_alloc {
            m.insert("alloc".into(), alloc_delta(a0, a1));
        }
        if !observe.is_empty() {
            let (vars, sh) = observe_vars(&env, &observe, share, observe_values);
            m.insert("vars".into(), vars);
            if share {
                m.insert("sh".into(), sh);
            }
        }
        if !probes.is_empty() {
            let mut pr = Vec::new();
            for p in &probes {
                let mut pb = bound.clone();
                let oc = run_src_b(&env, p, &lim, 0, true, Some(&mut pb));
                let mut pm = Map::new();
                outcome_to_map(oc, &mut pm);
                pm.remove("ticks");
                pm.remove("pd");
                pr.push(Value::Object(pm));
            }
            out.take();
            m.insert("probe".into(), Value::Array(pr));
        }
        let _ = writeln!(w, "E {}", Value::Object(m));
        n_events += 1;
        if panicked && child_each {
            need_rebase = true;
        }
        if panicked && !fresh_each && !child_each {
            // the environment may be in an arbitrary state after an unwind: stop the history here
            break;
        }
    }
    json!({"id": id, "n": n_events, "prelude_err": prelude_err})
}

// hashlaw: evaluate each expression, convert to a key, report key equality matrix and hashes
fn job_hashlaw(job: &Value, id: &str, w: &mut impl Write) -> Value {
    let prelude = str_list(job.get("prelude"));
    let exprs = str_list(job.get("exprs"));
    let lim = Limits { fuel: 1_000_000, max_depth: 3000 };
    let out = OutBuf(Default::default());
    let env = fresh_env(&out);
    for p in &prelude {
        run_src(&env, p, &lim, 0, false);
    }
    wa(w, id, 0);
    let mut vals: Vec<Option<Obj>> = Vec::new();
    let mut canons = Vec::new();
    for e in &exprs {
        verif_hooks::reset(lim.fuel, lim.max_depth, 0);
        let r = match parse(e) {
            Ok(Some(x)) => evaluate(&env, &x).ok(),
            _ => None,
        };
        canons.push(r.as_ref().map(safe_canon).unwrap_or(json!({"failed": true})));
        vals.push(r);
    }
    let mut keys = Vec::new();
    let mut hashes = Vec::new();
    for v in &vals {
        let k = v.as_ref().and_then(|v| {
            panic::catch_unwind(AssertUnwindSafe(|| to_key(v.clone()).ok())).unwrap_or(None)
        });
        let h = k.as_ref().map(|k| {
            let mut hs = std::collections::hash_map::DefaultHasher::new();
            k.hash(&mut hs);
            format!("{:016x}", hs.finish())
        });
        hashes.push(h.map(Value::String).unwrap_or(Value::Null));
        keys.push(k);
    }
    // key equality matrix rows as strings of '1'/'0'/'-' (not a key)
    let mut rows = Vec::new();
    // and membership through a real HashMap: index of the first earlier key that a lookup finds
    let mut found = Vec::new();
    let mut map: HashMap<noulith::ObjKey, usize> = HashMap::new();
    for (i, ki) in keys.iter().enumerate() {
        let mut row = String::new();
        for kj in keys.iter() {
            row.push(match (ki, kj) {
                (Some(a), Some(b)) => {
                    if a == b {
                        '1'
                    } else {
                        '0'
                    }
                }
                _ => '-',
            });
        }
        rows.push(Value::String(row));
        match ki {
            Some(k) => {
                let got = map.get(k).copied();
                found.push(match got {
                    Some(j) => json!(j),
                    None => Value::Null,
                });
                if got.is_none() {
                    map.insert(k.clone(), i);
                }
            }
            None => found.push(Value::Null),
        }
    }
    json!({"id": id, "canon": canons, "hash": hashes, "keq": rows, "found": found})
}

// parse: run parse (and optionally evaluate) on many inputs, measuring CPU time per input
fn cpu_us() -> u64 {
    let mut ts = libc::timespec { tv_sec: 0, tv_nsec: 0 };
    unsafe {
        libc::clock_gettime(libc::CLOCK_THREAD_CPUTIME_ID, &mut ts);
    }
    (ts.tv_sec as u64) * 1_000_000 + (ts.tv_nsec as u64) / 1000
}

fn job_parse(job: &Value, id: &str, w: &mut impl Write) -> Value {
    let srcs = str_list(job.get("srcs"));
    let eval_fuel = job.get("eval_fuel").and_then(|v| v.as_u64()).unwrap_or(0);
    let eval_max_len = job.get("eval_max_len").and_then(|v| v.as_u64()).unwrap_or(400) as usize;
    let out = OutBuf(Default::default());
    let mut n = 0usize;
    for (i, s) in srcs.iter().enumerate() {
        wa(w, id, i);
        LAST_PANIC.with(|p| *p.borrow_mut() = None);
        let t0 = cpu_us();
        let r = panic::catch_unwind(AssertUnwindSafe(|| parse(s)));
        let t1 = cpu_us();
        let mut m = Map::new();
        m.insert("us".into(), json!(t1 - t0));
        match r {
            Err(_) => {
                m.insert("o".into(), json!("panic"));
                m.insert("panic".into(), take_panic("parse"));
            }
            Ok(Err(e)) => {
                m.insert("o".into(), json!("err"));
                m.insert("err".into(), json!(limit(e.0.clone())));
            }
            Ok(Ok(None)) => {
                m.insert("o".into(), json!("empty"));
            }
            Ok(Ok(Some(expr))) => {
                m.insert("o".into(), json!("ok"));
                if eval_fuel > 0 && s.len() <= eval_max_len {
                    let env = fresh_env(&out);
                    verif_hooks::reset(eval_fuel, 500, 0);
                    let r = panic::catch_unwind(AssertUnwindSafe(|| evaluate(&env, &expr)));
                    let st = verif_hooks::status();
                    let eo = match r {
                        Err(_) => {
                            m.insert("panic".into(), take_panic("evaluate"));
                            "panic"
                        }
                        Ok(_) if st.out_of_fuel => "fuel",
                        Ok(_) if st.too_deep => "depth",
                        Ok(Ok(_)) => "ok",
                        Ok(Err(NErr::Throw(..))) => "throw",
                        Ok(Err(_)) => "nonlocal",
                    };
                    m.insert("e".into(), json!(eo));
                    out.take();
                }
            }
        }
        let _ = writeln!(w, "E {}", Value::Object(m));
        n += 1;
    }
    json!({"id": id, "n": n})
}

// names: list global names with their kind (for the sweeps)
fn job_names(id: &str) -> Value {
    let out = OutBuf(Default::default());
    let env = fresh_env(&out);
    let e = cell_borrow(&env);
    let mut names = Vec::new();
    for (k, (_ty, cell)) in e.vars.iter() {
        let o = cell.borrow();
        let kind = match &*o {
            Obj::Func(Func::Builtin(_), _) => "builtin",
            Obj::Func(Func::Type(_), _) => "type",
            Obj::Func(..) => "func",
            _ => "value",
        };
        let (prec, assoc) = match &*o {
            Obj::Func(_, p) => (
                format!("{}", p.0),
                match p.1 {
                    noulith::Assoc::Left => "L",
                    noulith::Assoc::Right => "R",
                },
            ),
            _ => (String::new(), ""),
        };
        names.push(json!({"name": k, "kind": kind, "prec": prec, "assoc": assoc}));
    }
    json!({"id": id, "names": names})
}

// ---------------------------------------------------------------- main loop

fn serve() {
    install_panic_hook();
    let stdin = io::stdin();
    let stdout = io::stdout();
    let mut w = io::BufWriter::new(stdout.lock());
    for line in stdin.lock().lines() {
        let line = match line {
            Ok(l) => l,
            Err(_) => break,
        };
        if line.trim().is_empty() {
            continue;
        }
        let job: Value = match serde_json::from_str(&line) {
            Ok(j) => j,
            Err(e) => {
                let _ = writeln!(w, "R {}", json!({"id": "?", "harness_error": e.to_string()}));
                let _ = w.flush();
                continue;
            }
        };
        let id = job.get("id").and_then(|v| v.as_str()).unwrap_or("?").to_string();
        let budget = job.get("mem").and_then(|v| v.as_u64()).unwrap_or(1 << 29) as usize;
        BUDGET.store(LIVE.load(Ordering::Relaxed).saturating_add(budget), Ordering::Relaxed);
        let kind = job.get("kind").and_then(|v| v.as_str()).unwrap_or("eval");
        let res = match kind {
            "eval" => job_eval(&job, &id, &mut w),
            "hashlaw" => job_hashlaw(&job, &id, &mut w),
            "parse" => job_parse(&job, &id, &mut w),
            "names" => job_names(&id),
            _ => json!({"id": id, "harness_error": "unknown kind"}),
        };
        BUDGET.store(usize::MAX, Ordering::Relaxed);
        let _ = writeln!(w, "R {}", res);
        let _ = w.flush();
    }
}

fn main() {
    let stack = std::env::var("NLMON_STACK_MB")
        .ok()
        .and_then(|s| s.parse::<usize>().ok())
        .unwrap_or(1024);
    let t = std::thread::Builder::new()
        .stack_size(stack << 20)
        .spawn(serve)
        .expect("spawn");
    let _ = t.join();
}
