#!/bin/bash
for d in "$@"; do
  echo "=== $d"
  python3 -m vf.seedtest run $d 2>&1 | tail -3 | cut -c1-300
done
./check --setup | tail -1
