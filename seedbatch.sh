#!/bin/bash
# usage: ./seedbatch.sh dir...   -- confirm each seeded change in the scratch worktree, then run its property's quick check against it
for d in "$@"; do
  echo "=== $d"
  python3 -m vf.seedtest confirm $d 2>&1 | grep -E '"tests_pass"|"demo_differs"|"applies"|"guard_build_ok"'
  python3 -m vf.seedtest run $d 2>&1 | tail -3 | cut -c1-300
done
./check --setup | tail -1
