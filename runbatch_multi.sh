#!/bin/bash
# usage: ./runbatch_multi.sh "dir PROP [PROP...]" ...
for spec in "$@"; do
  set -- $spec
  echo "=== $spec"
  python3 -m vf.seedtest run "$@" 2>&1 | tail -4 | cut -c1-260
done
./check --setup | tail -1
